// C12: WebSocket message round trip (framing, masking, fragmentation, compression), bounded
// exhaustive enumeration on the real websocket.Conn (sequential, Spec.Seq).
//
// A sender Conn (client role: masks with math/rand, which the overlay replaces by a fixed
// generator that the harness resets per case; server role: no mask) writes messages with
// WriteMessage into a recording fake net.Conn. The wire is (1) decoded by the independent
// reference decoder of verif/seqx/wsgen (RFC 6455 framing, RFC 7692 inflate, acceptance
// predicate) and must yield exactly the sent list, and (2) fed to a receiver Conn of the
// opposite role through Conn.Parse in every enumerated segmentation; the receiver's callback
// log must equal the sent list.
//
// Deviations from DESIGN §4 C12 (spirit kept):
//   - quick tier: the 13 compression settings x 4 content classes x 2 types x 2 roles x 6 frame
//     limits x 13 lengths product is enumerated completely, but the *segmentation set* per
//     base is tiered (see segPolicy): full single-cut enumeration for the compression settings
//     {off, -2, 1, 9}, structural cuts for the other levels; wires made of more than 4096 frames
//     (64 KiB messages with F<=2, quadratic in the receiver) are restricted to a sub-matrix in the
//     quick tier. The thorough tier lifts these restrictions.
//   - text messages carry valid UTF-8 variants of the content classes (a text message with
//     invalid UTF-8 is the sender's protocol error, C13 territory).
//   - "interleaved control frames": besides a ping/pong written between messages, the control
//     frame is also spliced *inside* the following fragmented message (after its first fragment),
//     which a peer may legally do although nbio's own WriteMessage never does.
//   - part E: the negotiation outcome and the application's use of Conn.EnableWriteCompression are
//     dimensions of their own: (enabled locally, negotiated with this peer) of the sender in
//     {(no,no), (yes,no), (yes,yes), (no,yes)} x receiver {enabled, not enabled} (enabled when
//     negotiated) x API {never called, (true) before every message, (false) then (true) before
//     every message, (false)/(true) alternating between messages} x both roles x message lists; the
//     reference decoder judges the wire by what was NEGOTIATED (RSV1 is illegal otherwise).
//   - part F: payload release of the receiver {off, Upgrader.ReleasePayload,
//     Engine.ReleaseWebsocketPayload} x executor behind Conn.Execute {inline, queued jobs run after
//     the Parse call that queued them, after the whole feed} x allocator {track: poisons, never
//     recycles; wsgen.Recycler: the next fitting Malloc returns the buffer freed last} over
//     sequences of 2-3 messages (with / without a ping between them, compression off / level 1,
//     both roles, OnDataFrame also set for a subset), fed in one piece, at the structural cuts,
//     byte-at-a-time and in chunks of 31 / 140 bytes. Payloads are compared when the callback runs
//     and, while release is off, again after the feed (the slice OnMessage was handed).
//   - the allocator is a dimension: sender and receiver are run under the tracking allocator
//     (buffers grow in place, as with the stock pool) and, for the bases allocWanted selects and the
//     segmentations of allocSegs, also under mempool.NewAligned() (a growing Append returns a NEW
//     handle and frees the old one), under the tracking allocator with exact capacities and
//     MoveOnGrow (every growing Append/Realloc relocates and poisons the old buffer) and under
//     mempool.NewSTD(). The sender's wire must not depend on the allocator.
package main

import (
	"bytes"
	"encoding/json"
	"fmt"
	"hash/fnv"
	"os"
	"regexp"
	"runtime/pprof"
	"sort"
	"time"

	"github.com/lesismal/nbio/nbhttp/websocket"

	"verif/seqx/wsgen"
	"verif/vkit"
	"verif/vshim/vrand"
)

type msgSpec struct {
	Type  byte   `json:"type"`
	Len   int    `json:"len"`
	Class string `json:"class"`
}

type caseSpec struct {
	C2S     bool      `json:"c2s"` // true: client sends (masked) to server; false: server sends to client
	F       int       `json:"F"`
	Comp    bool      `json:"comp"`
	Level   int       `json:"level"`
	Msgs    []msgSpec `json:"msgs"`
	Ctl     string    `json:"ctl,omitempty"`     // "", "ping", "pong": written between consecutive messages
	CtlLen  int       `json:"ctl_len,omitempty"` // control payload length (default: a 2-byte tag)
	Splice  bool      `json:"splice,omitempty"`  // move each control frame behind the first fragment of the following message
	RecvDF  bool      `json:"recv_dataframe,omitempty"`
	CloseAH bool      `json:"close_after_handler,omitempty"`
	Policy  int       `json:"policy,omitempty"`
	// allocator dimension: "" = the tracking allocator (Policy; Move: every growing Append/Realloc
	// relocates the buffer and poisons the old one), "aligned" = mempool.NewAligned(), "std" =
	// mempool.NewSTD(); applies to the sender and to the receiver
	Alloc string `json:"alloc,omitempty"`
	Move  bool   `json:"move,omitempty"`
	// part F: payload release of the receiver ("", "upgrader", "engine") and the executor behind
	// its Conn.Execute ("" inline, "call": queued jobs run after the Parse call, "feed": after the
	// whole feed)
	Release string `json:"release,omitempty"`
	Exec    string `json:"exec,omitempty"`
	// negotiation outcome and the application's use of Conn.EnableWriteCompression (nil: the
	// extension is enabled on both sides and negotiated iff Comp, the API is never called)
	Nego *negoSpec `json:"nego,omitempty"`
	Seg  wsgen.Seg `json:"seg"`
}

// negoSpec: compression enabled locally on the sender / the receiver (Upgrader or Options
// EnableCompression), whether the handshake negotiated permessage-deflate between the two, and
// what the sending application does with Conn.EnableWriteCompression before its data messages:
// "" never calls it, "t" calls (true) before every message, "ft" calls (false) then (true) before
// every message, "toggle" calls (false) before the 1st, 3rd.. and (true) before the 2nd, 4th..
// message (the idiom: switch it off for an already compressed blob, then on again).
type negoSpec struct {
	SndLocal   bool   `json:"snd_local"`
	RcvLocal   bool   `json:"rcv_local"`
	Negotiated bool   `json:"negotiated"`
	API        string `json:"api,omitempty"`
}

func neg(b bool) int {
	if b {
		return 1
	}
	return -1
}

// negotiated: may the wire carry RSV1.
func (c *caseSpec) negotiated() bool {
	if c.Nego != nil {
		return c.Nego.Negotiated
	}
	return c.Comp
}

func (c *caseSpec) sndCfg() wsgen.Cfg {
	cfg := wsgen.Cfg{Client: c.C2S, Compress: c.Comp, Level: c.Level, F: c.F, Policy: c.Policy, Alloc: c.Alloc, Move: c.Move}
	if n := c.Nego; n != nil {
		cfg.Compress, cfg.Negotiated = n.SndLocal, neg(n.Negotiated)
	}
	return cfg
}

func (c *caseSpec) rcvCfg() wsgen.Cfg {
	cfg := wsgen.Cfg{Client: !c.C2S, Compress: c.Comp, Level: c.Level, F: c.F, RecordCtl: true,
		OnDataFrame: c.RecvDF, CloseAfterHandler: c.CloseAH, Policy: c.Policy, Alloc: c.Alloc, Move: c.Move,
		Release: c.Release, Exec: c.Exec, KeepRaw: c.Release == ""}
	if n := c.Nego; n != nil {
		cfg.Compress, cfg.Negotiated = n.RcvLocal, neg(n.Negotiated)
	}
	return cfg
}

func (c *caseSpec) allocName() string {
	switch {
	case c.Alloc != "":
		return "mempool:" + c.Alloc
	case c.Move:
		return "track+move"
	}
	return "track"
}

func (c *caseSpec) name() string {
	dir := "s2c"
	if c.C2S {
		dir = "c2s"
	}
	comp := "off"
	if c.Comp {
		comp = fmt.Sprint(c.Level)
	}
	s := fmt.Sprintf("%s F=%d comp=%s", dir, c.F, comp)
	for _, m := range c.Msgs {
		s += fmt.Sprintf(" [t%d %s %d]", m.Type, m.Class, m.Len)
	}
	if c.Ctl != "" {
		s += " ctl=" + c.Ctl
		if c.CtlLen > 0 {
			s += fmt.Sprint(c.CtlLen)
		}
		if c.Splice {
			s += "/spliced"
		}
	}
	if n := c.Nego; n != nil {
		s += fmt.Sprintf(" nego(sender-enabled=%v receiver-enabled=%v negotiated=%v api=%q)", n.SndLocal, n.RcvLocal, n.Negotiated, n.API)
	}
	if c.Alloc != "" || c.Move {
		s += " alloc=" + c.allocName()
	}
	if c.Release != "" || c.Exec != "" {
		s += fmt.Sprintf(" release=%q executor=%q", c.Release, c.Exec)
	}
	if c.RecvDF {
		s += " +OnDataFrame"
	}
	return s
}

// built is a sender run: the wire and what it must deliver.
type built struct {
	wire     *wsgen.Wire
	frames   []wsgen.Frame
	expected []wsgen.Event
	encSig   string // non-empty: the encoder is at fault (signature|description)
	nFrames  int
	spliced  int
	maxFrame int
}

func payloadOf(m msgSpec, idx int) []byte {
	return wsgen.Content(m.Class, m.Len, m.Type == wsgen.OpText, idx*13)
}

// build runs the sender and the reference decoder.
func build(c *caseSpec) *built {
	vrand.Reset()
	b := &built{}
	snd := wsgen.NewEndpoint(c.sndCfg())
	type span struct{ lo, hi int }
	var msgSpans, ctlSpans []span
	for i, m := range c.Msgs {
		if i > 0 && c.Ctl != "" {
			op := websocket.PingMessage
			kind := byte('P')
			if c.Ctl == "pong" {
				op, kind = websocket.PongMessage, 'O'
			}
			pl := []byte(fmt.Sprintf("%c%d", c.Ctl[1], i)) // "i1" / "o1": fits every frame limit >= 2
			if c.CtlLen > 0 {
				pl = wsgen.Content("ramp", c.CtlLen, true, i)
			}
			lo := len(snd.Fake.Writes)
			if err := snd.C.WriteMessage(op, pl); err != nil {
				b.encSig = "encoder: write-error|WriteMessage(control) returned " + err.Error()
				return b
			}
			ctlSpans = append(ctlSpans, span{lo, len(snd.Fake.Writes)})
			b.expected = append(b.expected, wsgen.Event{Kind: kind, Payload: pl})
		} else if i > 0 {
			ctlSpans = append(ctlSpans, span{len(snd.Fake.Writes), len(snd.Fake.Writes)})
		}
		pl := payloadOf(m, i)
		lo := len(snd.Fake.Writes)
		if c.Nego != nil {
			switch c.Nego.API {
			case "t":
				snd.C.EnableWriteCompression(true)
			case "ft":
				snd.C.EnableWriteCompression(false)
				snd.C.EnableWriteCompression(true)
			case "toggle":
				snd.C.EnableWriteCompression(i%2 == 1)
			}
		}
		if err := snd.C.WriteMessage(websocket.MessageType(m.Type), pl); err != nil {
			b.encSig = "encoder: write-error|WriteMessage returned " + err.Error()
			return b
		}
		msgSpans = append(msgSpans, span{lo, len(snd.Fake.Writes)})
		b.expected = append(b.expected, wsgen.Event{Kind: 'M', Type: m.Type, Payload: pl})
	}
	if l := wsgen.DrainLog(); len(l) > 0 {
		b.encSig = "encoder: panic " + wsgen.PanicSig(l[0]) + "|" + l[0]
		return b
	}
	if snd.Fake.Closed {
		b.encSig = "encoder: conn-closed|the sender closed its connection while writing"
		return b
	}
	// order of the writes on the wire (splice: control frame after the first fragment of the next message)
	var order []int
	for i := range c.Msgs {
		ms := msgSpans[i]
		var cs span
		if i > 0 {
			cs = ctlSpans[i-1]
		}
		if c.Splice && i > 0 && cs.hi > cs.lo && ms.hi-ms.lo >= 2 {
			order = append(order, ms.lo)
			for k := cs.lo; k < cs.hi; k++ {
				order = append(order, k)
			}
			for k := ms.lo + 1; k < ms.hi; k++ {
				order = append(order, k)
			}
			b.spliced++
			continue
		}
		for k := cs.lo; k < cs.hi; k++ {
			order = append(order, k)
		}
		for k := ms.lo; k < ms.hi; k++ {
			order = append(order, k)
		}
	}
	var wire []byte
	for _, k := range order {
		wire = append(wire, snd.Fake.Writes[k]...)
	}
	// ---- reference decoder
	frames, w, err := wsgen.ParseFrames(wire)
	b.wire, b.frames, b.nFrames = w, frames, len(frames)
	if err != nil {
		b.encSig = "encoder: wire-not-framed|reference decoder: " + err.Error()
		return b
	}
	if len(frames) != len(order) {
		b.encSig = fmt.Sprintf("encoder: write-not-one-frame|%d conn writes decode to %d frames", len(order), len(frames))
		return b
	}
	for i := range frames {
		if len(frames[i].Payload) > b.maxFrame {
			b.maxFrame = len(frames[i].Payload)
		}
	}
	v := wsgen.Judge(frames, wsgen.Rules{Compression: c.negotiated(), ToServer: c.C2S})
	switch {
	case !v.Legal():
		b.encSig = fmt.Sprintf("encoder: wire-illegal reason=%s|frame %d of the sender's wire violates RFC 6455 (%s)", v.Reason, v.Offender, v.Reason)
	case len(v.MayReject) > 0:
		b.encSig = fmt.Sprintf("encoder: wire-questionable %v|the sender's wire uses %v", v.MayReject, v.MayReject)
	case v.Open:
		b.encSig = "encoder: message-unfinished|the sender's wire ends inside a fragmented message"
	default:
		if d := diffEvents(b.expected, v.Events); d != nil {
			b.encSig = fmt.Sprintf("encoder: wire-decodes-differently kind=%s|reference decoding of the sender's wire: %s", d.kind, d.text)
		}
	}
	return b
}

var digits = regexp.MustCompile(`[0-9]+`)

type diff struct {
	kind string
	text string
}

// diffEvents compares the expected list with the observed one.
func diffEvents(exp, got []wsgen.Event) *diff {
	n := len(exp)
	if len(got) < n {
		n = len(got)
	}
	for i := 0; i < n; i++ {
		if wsgen.SameEvent(exp[i], got[i]) {
			continue
		}
		e, g := exp[i], got[i]
		k := "other"
		switch {
		case e.Kind != g.Kind:
			k = "order-or-kind"
		case e.Type != g.Type:
			k = "type"
		case len(e.Payload) != len(g.Payload):
			k = "payload-length"
		default:
			k = "payload-bytes"
			for j := range e.Payload {
				if e.Payload[j] != g.Payload[j] {
					return &diff{k, fmt.Sprintf("event %d: payload differs first at byte %d of %d (want 0x%02x got 0x%02x)", i, j, len(e.Payload), e.Payload[j], g.Payload[j])}
				}
			}
		}
		return &diff{k, fmt.Sprintf("event %d: want %v got %v", i, e, g)}
	}
	if len(got) < len(exp) {
		return &diff{"missing", fmt.Sprintf("%d of %d events delivered; first missing: %v", len(got), len(exp), exp[len(got)])}
	}
	if len(got) > len(exp) {
		return &diff{"extra", fmt.Sprintf("%d events delivered, %d expected; first extra: %v", len(got), len(exp), got[len(exp)])}
	}
	return nil
}

func dropEmptyMsgs(ev []wsgen.Event) ([]wsgen.Event, int) {
	var out []wsgen.Event
	n := 0
	for _, e := range ev {
		if e.Kind == 'M' && len(e.Payload) == 0 {
			n++
			continue
		}
		out = append(out, e)
	}
	return out, n
}

func onlyKind(ev []wsgen.Event, kinds string) []wsgen.Event {
	var out []wsgen.Event
	for _, e := range ev {
		if bytes.IndexByte([]byte(kinds), e.Kind) >= 0 {
			out = append(out, e)
		}
	}
	return out
}

// feedOnce runs one receiver over one segmentation; returns "" or "signature|description".
func feedOnce(c *caseSpec, b *built, seg wsgen.Seg) (string, *wsgen.FeedResult) {
	rcv := wsgen.NewEndpoint(c.rcvCfg())
	r := rcv.Feed(b.wire.Bytes, seg, nil)
	if len(r.Panics) > 0 {
		return "decoder: panic " + wsgen.PanicSig(r.Panics[0]) + "|" + r.Panics[0], r
	}
	if r.Err != nil {
		return fmt.Sprintf("decoder: parse-error err=%q|Parse call %d returned %v", digits.ReplaceAllString(r.Err.Error(), "N"), r.ErrCall, r.Err), r
	}
	if r.ImplClosed {
		return "decoder: conn-closed|the receiver closed the connection", r
	}
	got := onlyKind(rcv.Events, "MPO")
	if d := diffEvents(b.expected, got); d != nil {
		exp2, nEmpty := dropEmptyMsgs(b.expected)
		got2, gotEmpty := dropEmptyMsgs(got)
		if nEmpty > gotEmpty && diffEvents(exp2, got2) == nil {
			return fmt.Sprintf("decoder: empty-message-not-delivered|%d of %d empty data messages were not delivered to OnMessage (everything else matches)", nEmpty-gotEmpty, nEmpty), r
		}
		return fmt.Sprintf("decoder: mismatch kind=%s|%s", d.kind, d.text), r
	}
	if c.Release == "" {
		// payload release is off: the application may keep what OnMessage handed it; it must still
		// hold the same bytes after the feed (with release on it may not, and nothing is looked at)
		for i, e := range rcv.Events {
			if e.Kind == 'M' && e.Raw != nil && !bytes.Equal(e.Raw, e.Payload) {
				return fmt.Sprintf("decoder: payload-changed-after-callback|the payload OnMessage was handed for event %d (%d bytes) holds other bytes after the feed although payload release is off", i, len(e.Payload)), r
			}
		}
	}
	if c.RecvDF {
		// data frames must concatenate to the (possibly compressed) message payloads: checked loosely,
		// the property is about OnMessage; only uncompressed concatenation is compared.
		if !c.Comp {
			var cat []byte
			for _, e := range rcv.Events {
				if e.Kind == 'F' {
					cat = append(cat, e.Payload...)
				}
			}
			var want []byte
			for _, e := range b.expected {
				if e.Kind == 'M' {
					want = append(want, e.Payload...)
				}
			}
			if !bytes.Equal(cat, want) {
				return "decoder: dataframes-differ|concatenated OnDataFrame payloads differ from the sent payloads", r
			}
		}
	}
	st := rcv.C.VerifSeqState()
	if st.Cached != -1 || st.Message != -1 || st.ExpectingFragments || st.MsgType != 0 {
		return fmt.Sprintf("decoder: residue|after the last byte: cached=%d message=%d expecting=%v msgType=%d", st.Cached, st.Message, st.ExpectingFragments, st.MsgType), r
	}
	if rcv.T.LiveCount() != 0 && !c.RecvDF {
		// payload buffers handed to OnMessage are owned by the user (ReleasePayload off): exactly
		// one live buffer per delivered non-empty message is legitimate
		live := rcv.T.LiveCount()
		nm := 0
		for _, e := range got {
			if e.Kind != 'M' || len(e.Payload) > 0 || c.Comp {
				nm++
			}
		}
		if live > nm {
			// leaks are not a C12 matter; counted only
			_ = live
		}
	}
	return "", r
}

// ---------------------------------------------------------------------------------------------
// enumeration

var frameLimits = []int{1, 2, 125, 126, 1000, 32768}

func lengthsFor(F int) []int {
	set := map[int]bool{}
	for _, l := range []int{0, 1, 2, 125, 126, 127, 65535, 65536, F - 1, F, F + 1, 2 * F, 2*F + 1} {
		if l >= 0 {
			set[l] = true
		}
	}
	var out []int
	for l := range set {
		out = append(out, l)
	}
	sort.Ints(out)
	return out
}

type compSetting struct {
	on    bool
	level int
}

func compSettings() []compSetting {
	out := []compSetting{{false, 0}}
	for l := -2; l <= 9; l++ {
		out = append(out, compSetting{true, l})
	}
	return out
}

// segPolicy chooses the segmentation set of a base case (see the header comment).
func segPolicy(tier string, c *caseSpec, b *built, seqPart bool) (wsgen.SegOpt, bool) {
	n := len(b.wire.Bytes)
	thorough := tier == "thorough"
	fullComp := !c.Comp || c.Level == -2 || c.Level == 1 || c.Level == 9
	o := wsgen.SegOpt{BytesMax: 4096, StructFrames: 2, DoubleFrames: 1}
	if c.Release != "" || c.Exec != "" || c.Alloc == wsgen.AllocLIFO {
		// part F: what matters is how many frames / messages one read carries: everything in one
		// piece, the structural cuts of all frames, byte-at-a-time, and chunks that carry a few
		// frames each
		o.StructFrames, o.Chunks = 0, []int{31, 140}
		if thorough {
			o.Chunks = []int{7, 31, 140, 300}
		}
		return o, false
	}
	if thorough || fullComp || seqPart {
		o.AllSingleMax = 2048
	}
	if thorough {
		o.StructFrames = 4
		o.DoubleFrames = 2
		if fullComp {
			o.BytesMax = 140000 // byte-at-a-time also for the 64 KiB / 128 KiB messages
		}
	}
	if b.nFrames > 4096 {
		// the receiver is quadratic in the number of frames per Parse call: chunked feeds; the
		// one-piece feed (seconds per case) only for uncompressed ramp content in the quick tier
		o.BytesMax = 0
		o.AllSingleMax = 0
		o.StructFrames = 1
		plain := !c.Comp && c.Msgs[0].Class == "ramp"
		switch {
		case thorough:
			o.Chunks = []int{4096, 1021, 7}
		case plain:
			o.Chunks = []int{4096, 1021}
		default:
			o.Chunks = []int{4096}
		}
		o.AllSingleMax = -1 // no single cuts at all
		return o, !thorough && !plain
	}
	if n > 4096 {
		o.Chunks = []int{4093}
	}
	if !thorough && b.nFrames > 24 {
		// many tiny frames (F <= 2): cuts inside the 20th frame repeat those inside the 2nd; the quick
		// tier takes the structural cuts of the first and last 3 frames plus byte-at-a-time
		o.AllSingleMax = 0
		o.StructFrames = 3
	}
	// double cuts
	if thorough || (seqPart && !c.Comp) {
		o.AllDoubleMax = 48
		o.StructDouble = true
	} else if fullComp && c.Msgs[0].Class == "ramp" {
		o.AllDoubleMax = 48
		o.StructDouble = !c.Comp || c.Level == 1
	}
	return o, false
}

func runItem(tier string, c *caseSpec, p *vkit.Part, seqPart bool) {
	t0 := time.Now()
	defer func() {
		k := "us_partA_F" + fmt.Sprint(c.F)
		if c.F > 32768 {
			k = "us_partA2"
		}
		if seqPart {
			k = "us_partBCD"
		}
		p.Count(k, int(time.Since(t0).Microseconds()))
	}()
	b := build(c)
	if b.encSig != "" {
		sig, desc := split(b.encSig)
		p.Report(sig, desc+" ["+c.name()+"]", "c12", c)
		p.Case(true, 1, 1)
		return
	}
	h := fnv.New64a()
	h.Write(b.wire.Bytes)
	sum := h.Sum64()
	opt, skipOne := segPolicy(tier, c, b, seqPart)
	// coverage counters of the base
	var len16, len64, masked, rsv1, emptyMsgs int
	for i := range b.frames {
		f := &b.frames[i]
		switch {
		case len(f.Payload) > 65535:
			len64++
		case len(f.Payload) > 125:
			len16++
		}
		if f.Masked {
			masked++
		}
		if f.Rsv1 {
			rsv1++
		}
	}
	for _, m := range c.Msgs {
		if m.Len == 0 {
			emptyMsgs++
		}
	}
	p.Count("bases", 1)
	p.Count("frames_on_wire", b.nFrames)
	if b.nFrames > len(c.Msgs)+b.spliced && b.nFrames > len(b.expected) {
		p.Count("bases_fragmented", 1)
	}
	if len16 > 0 {
		p.Count("bases_with_16bit_length", 1)
	}
	if len64 > 0 {
		p.Count("bases_with_64bit_length", 1)
	}
	if masked > 0 {
		p.Count("bases_masked", 1)
	}
	if rsv1 > 0 {
		p.Count("bases_compressed", 1)
	}
	if emptyMsgs > 0 {
		p.Count("bases_with_empty_message", 1)
	}
	if b.spliced > 0 {
		p.Count("bases_control_inside_fragmented_message", 1)
	}
	if b.maxFrame > c.F {
		p.Count("bases_frame_payload_above_F", 1)
	}
	if c.Nego != nil {
		p.Count(fmt.Sprintf("partE_bases sender-enabled=%v negotiated=%v api=%q", c.Nego.SndLocal, c.Nego.Negotiated, c.Nego.API), 1)
		if rsv1 > 0 {
			p.Count(fmt.Sprintf("partE_bases_with_compressed_frames sender-enabled=%v negotiated=%v api=%q", c.Nego.SndLocal, c.Nego.Negotiated, c.Nego.API), 1)
		}
		if rsv1 > 0 && rsv1 < len(c.Msgs) {
			p.Count("partE_bases_mixing_compressed_and_plain_messages", 1)
		}
	}
	onePieceSig := ""
	first := true
	baseSigs := map[string]bool{}
	wsgen.EachSeg(b.wire, opt, func(s wsgen.Seg) bool {
		if s.Kind == "one" && skipOne {
			return true
		}
		res, r := feedOnce(c, b, s)
		nt := b.nFrames > 1 || c.Comp || r.Calls > 1 || len(b.wire.Bytes) > 127
		p.Case(nt, r.States, r.Calls)
		p.Count("feeds_"+s.Kind, 1)
		if res == "" {
			p.Outcome("delivered-equal")
		}
		if res != "" {
			sig, desc := split(res)
			if s.Kind == "one" {
				onePieceSig = sig
			} else if sig != onePieceSig {
				sig += " seg-dependent"
			}
			p.Outcome(sig)
			baseSigs[sig] = true
			cc := *c
			cc.Seg = s
			p.Report(sig, desc+" ["+c.name()+fmt.Sprintf(" seg=%s%v/%d wire=%dB]", s.Kind, s.Cuts, s.Chunk, len(b.wire.Bytes)), "c12", &cc)
		}
		if first {
			first = false
			p.Sample(map[string]interface{}{"case": c.name(), "wire_bytes": len(b.wire.Bytes), "frames": b.nFrames})
		}
		return true
	})
	runAllocators(tier, c, b, p, seqPart, baseSigs)
	h2 := fnv.New64a()
	h2.Write(b.wire.Bytes)
	if h2.Sum64() != sum {
		p.Report("decoder: input-modified", "Parse modified the caller's input slice ["+c.name()+"]", "c12", c)
	}
}

// ---------------------------------------------------------------------------------------------
// the allocator as a dimension

type allocVariant struct {
	alloc string
	move  bool
}

// The base enumeration runs under the tracking allocator (capacity policy of the case; buffers
// grow in place like the stock pool's). The other values of the dimension:
var allocVariants = []allocVariant{
	{alloc: wsgen.AllocAligned}, // mempool.NewAligned(): power-of-two buckets, a growing Append returns a new handle and frees the old one
	{move: true},                // tracking allocator, exact capacities: every growing Append/Realloc relocates the buffer and poisons the old one
	{alloc: wsgen.AllocSTD},     // mempool.NewSTD(): plain make/append, Free does nothing
}

// allocWanted selects the bases that are run under the other allocators as well. Thorough: all.
// Quick: every sequence / receiver-variant / control-length / negotiation base (parts B-E), and of
// the single-message matrix (parts A, A2) the sub-matrix compression {off, level 1} x content
// {ramp, lowcomp}: how buffers are allocated, grown and released does not depend on the level or
// on the content class beyond "compressible or not". Wires of more than 4096 frames are left to
// the thorough tier (the receiver is quadratic in the number of frames per call).
func allocWanted(tier string, c *caseSpec, b *built, seqPart bool) bool {
	if os.Getenv("VERIF_C12_NOALLOC") != "" || c.Alloc != "" || c.Move || c.Release != "" || c.Exec != "" {
		return false
	}
	if tier == "thorough" || seqPart {
		return true
	}
	if b.nFrames > 4096 {
		return false
	}
	cl := c.Msgs[0].Class
	return (!c.Comp || c.Level == 1) && (cl == "ramp" || cl == "lowcomp")
}

// allocSegs is the segmentation set of the allocator dimension. Quick: one piece, the structural
// single cuts of the first and last two frames, byte-at-a-time (wires <= 4 KiB) and fixed chunks
// chosen so that a frame arrives in many reads and its cached prefix has to grow past 32, 64, ..
// bytes (3, 31) resp. past the 1 KiB / 4 KiB buckets (1021, 4093). Thorough: every single cut for
// wires <= 300 B, the structural cuts of four frames at each end otherwise, byte-at-a-time
// (wires <= 4 KiB), chunks of 3, 7, 31, 33, 1021, 4093 bytes.
func allocSegs(tier string, base wsgen.SegOpt, b *built) wsgen.SegOpt {
	if b.nFrames > 4096 {
		// thorough only (allocWanted); the receiver is quadratic in the frames per call
		return wsgen.SegOpt{AllSingleMax: -1, StructFrames: 1, Chunks: []int{4096}}
	}
	if tier == "thorough" {
		// byte-at-a-time stays at wires <= 4 KiB here: under the moving tracking allocator every
		// one-byte Append relocates the whole cache and nothing is ever recycled (quadratic memory)
		o := wsgen.SegOpt{AllSingleMax: 300, StructFrames: 4, BytesMax: 4096, Chunks: []int{3, 7, 31, 33, 1021, 4093}}
		if len(b.wire.Bytes) > 16384 {
			o.Chunks = []int{1021, 4093}
		}
		return o
	}
	o := wsgen.SegOpt{AllSingleMax: 0, StructFrames: 2, BytesMax: 4096, Chunks: []int{3, 31, 1021, 4093}}
	if len(b.wire.Bytes) > 16384 {
		o.Chunks = []int{1021, 4093}
	}
	return o
}

func runAllocators(tier string, c *caseSpec, b *built, p *vkit.Part, seqPart bool, baseSigs map[string]bool) {
	if !allocWanted(tier, c, b, seqPart) {
		return
	}
	baseOpt, skipOne := segPolicy(tier, c, b, seqPart)
	opt := allocSegs(tier, baseOpt, b)
	p.Count("bases_run_under_other_allocators", 1)
	for _, av := range allocVariants {
		cc := *c
		cc.Alloc, cc.Move = av.alloc, av.move
		if av.move {
			cc.Policy = 0
		}
		tag := " [allocator " + cc.allocName() + "]"
		report := func(res string, s *wsgen.Seg) {
			sig, desc := split(res)
			if !baseSigs[sig] {
				sig += tag
			}
			p.Outcome(sig)
			rc := cc
			where := ""
			if s != nil {
				rc.Seg = *s
				where = fmt.Sprintf(" seg=%s%v/%d wire=%dB", s.Kind, s.Cuts, s.Chunk, len(b.wire.Bytes))
			}
			p.Report(sig, desc+" ["+cc.name()+where+"]", "c12", &rc)
		}
		// the sender under this allocator: the same wire
		b2 := build(&cc)
		p.Count("sender_runs_"+cc.allocName(), 1)
		switch {
		case b2.encSig != "":
			report(b2.encSig, nil)
			continue
		case !bytes.Equal(b2.wire.Bytes, b.wire.Bytes):
			report(fmt.Sprintf("encoder: wire-depends-on-allocator|the sender's wire (%d bytes) differs from the one it writes under the tracking allocator (%d bytes)", len(b2.wire.Bytes), len(b.wire.Bytes)), nil)
			continue
		}
		// the receiver under this allocator
		wsgen.EachSeg(b.wire, opt, func(s wsgen.Seg) bool {
			if s.Kind == "one" && skipOne {
				return true
			}
			res, r := feedOnce(&cc, b, s)
			nt := b.nFrames > 1 || c.Comp || r.Calls > 1 || len(b.wire.Bytes) > 127
			p.Case(nt, r.States, r.Calls)
			p.Count("feeds_"+cc.allocName(), 1)
			if r.MaxCacheIn > 32 && r.Calls > 1 {
				p.Count("feeds_"+cc.allocName()+"_with_cached_input_above_32B", 1)
			}
			if res == "" {
				p.Outcome("delivered-equal")
			} else {
				report(res, &s)
			}
			return true
		})
	}
}

func split(s string) (string, string) {
	for i := 0; i < len(s); i++ {
		if s[i] == '|' {
			return s[:i], s[i+1:]
		}
	}
	return s, s
}

func run(tier string, sh *vkit.Shard, p *vkit.Part) {
	deadline := vkit.Deadline(tier, 80*time.Second, 17*time.Minute)
	stopped := false
	item := func(c *caseSpec, seqPart bool) {
		if !sh.Mine() {
			return
		}
		if stopped {
			return
		}
		if time.Now().After(deadline) {
			stopped = true
			p.Incompletef("wall-clock cap reached before item %q", c.name())
			return
		}
		p.SetCurrent("c12", c)
		done, pan := wsgen.RunWatched(120*time.Second, func() { runItem(tier, c, p, seqPart) })
		if dp := vkit.TakeDoublePuts(); len(dp) > 0 {
			p.Report("pool-double-put type="+dp[0], "an object that is already in a sync.Pool was put into it again while this case ran: two connections would later be handed the same object and corrupt each other's messages ["+c.name()+"]", "c12", c)
		}
		if !done {
			p.Report("hang", "a case did not finish within 120 s ["+c.name()+"]", "c12", c)
			stopped = true
			p.Incompletef("stopped after a hang")
		}
		if pan != "" {
			p.Report("panic-escaped "+wsgen.PanicSig(pan), pan+" ["+c.name()+"]", "c12", c)
		}
	}
	thorough := tier == "thorough"

	// ---- part E (first: it is small, and a wall-clock cap must not cut it off): what the handshake
	// negotiated x what is enabled locally x the application's use
	// of Conn.EnableWriteCompression. (enabled locally, negotiated) of the sender in {(no,no),
	// (yes,no), (yes,yes), (no,yes)}; the receiver has it enabled when it was negotiated, enabled or
	// not when it was not. What may be on the wire is decided by what was NEGOTIATED.
	{
		sub := []msgSpec{
			{wsgen.OpText, 0, "ramp"}, {wsgen.OpBinary, 1, "ramp"}, {wsgen.OpText, 125, "utf8"},
			{wsgen.OpBinary, 126, "lowcomp"}, {wsgen.OpText, 126, "ramp"}, {wsgen.OpBinary, 251, "zero"},
		}
		var seqs [][]msgSpec
		for i, a := range sub {
			seqs = append(seqs, []msgSpec{a})
			for j, b := range sub {
				if thorough || j == (i+1)%len(sub) || j == (i+3)%len(sub) {
					seqs = append(seqs, []msgSpec{a, b})
				}
				if thorough && j == (i+1)%len(sub) {
					for _, c := range sub {
						seqs = append(seqs, []msgSpec{a, b, c})
					}
				}
			}
		}
		type ends struct{ snd, rcv, neg bool }
		for _, e := range []ends{
			{false, false, false}, {false, true, false}, {true, false, false}, {true, true, false},
			{true, true, true}, {false, true, true},
		} {
			for _, api := range []string{"", "t", "ft", "toggle"} {
				for _, c2s := range []bool{true, false} {
					for _, ms := range seqs {
						item(&caseSpec{C2S: c2s, F: 125, Comp: e.neg, Level: 1, Msgs: ms,
							Nego: &negoSpec{SndLocal: e.snd, RcvLocal: e.rcv, Negotiated: e.neg, API: api}}, true)
					}
				}
			}
		}
	}

	// ---- part F: payload release x executor x recycling. The receiver's callbacks run inline (as
	// everywhere else) or later - after the Parse call that queued them, or after the whole feed -
	// the way a poller's executor does; payload release is off, on through Upgrader.ReleasePayload
	// or on through Engine.ReleaseWebsocketPayload; the allocator poisons and never recycles (track)
	// or hands the buffer freed last to the very next fitting Malloc (wsgen.Recycler). Several
	// frames / messages per read are what makes the parser allocate again before a queued callback
	// has run.
	if os.Getenv("VERIF_C12_NOPARTF") == "" {
		sub := []msgSpec{
			{wsgen.OpText, 0, "ramp"}, {wsgen.OpBinary, 1, "ramp"}, {wsgen.OpText, 125, "utf8"},
			{wsgen.OpBinary, 126, "lowcomp"}, {wsgen.OpText, 126, "ramp"}, {wsgen.OpBinary, 251, "zero"},
		}
		var seqs [][]msgSpec
		for i, a := range sub {
			for j, b := range sub {
				seqs = append(seqs, []msgSpec{a, b})
				if thorough || j == (i+1)%len(sub) {
					for k, c := range sub {
						if thorough || k == (i+2)%len(sub) || k == i {
							seqs = append(seqs, []msgSpec{a, b, c})
						}
					}
				}
			}
		}
		for _, rel := range []string{"", "upgrader", "engine"} {
			for _, ex := range []string{"", "call", "feed"} {
				for _, al := range []string{"", wsgen.AllocLIFO} {
					if rel == "" && ex == "" && al == "" {
						continue // parts B and E
					}
					for _, c2s := range []bool{true, false} {
						for _, cs := range []compSetting{{false, 0}, {true, 1}} {
							for _, ctl := range []string{"", "ping"} {
								for _, df := range []bool{false, true} {
									if df && (cs.on || ctl != "" || !thorough && ex == "call") {
										continue
									}
									for _, ms := range seqs {
										item(&caseSpec{C2S: c2s, F: 125, Comp: cs.on, Level: cs.level, Msgs: ms, Ctl: ctl,
											Release: rel, Exec: ex, Alloc: al, RecvDF: df}, true)
									}
								}
							}
						}
					}
				}
			}
		}
	}

	// ---- part A: single messages, the full configuration matrix
	for _, F := range frameLimits {
		for _, n := range lengthsFor(F) {
			for _, c2s := range []bool{true, false} {
				for _, typ := range []byte{wsgen.OpText, wsgen.OpBinary} {
					for _, cs := range compSettings() {
						for _, class := range wsgen.Classes {
							nf := 1
							if F > 0 && n > F {
								nf = (n + F - 1) / F
							}
							if !thorough && nf > 4096 && !cs.on && class != "ramp" && class != "lowcomp" {
								if sh.Mine() {
									p.Count("bases_skipped_quick_many_frames", 1)
								}
								continue
							}
							if !thorough && nf > 4096 && cs.on && !(cs.level == 1 || cs.level == 0) {
								// compressed size decides the frame count; levels other than 0/1 of the 64 KiB x F<=2
								// corner are thorough-only
								if sh.Mine() {
									p.Count("bases_skipped_quick_many_frames", 1)
								}
								continue
							}
							item(&caseSpec{C2S: c2s, F: F, Comp: cs.on, Level: cs.level, Msgs: []msgSpec{{typ, n, class}}}, false)
						}
					}
				}
			}
		}
	}

	// ---- part A2: frame limits above 64 KiB, so that the sender emits (and the receiver parses)
	// the 64-bit length form; only lengths above 32768 add anything here
	for _, F := range []int{65535, 65536, 131072} {
		set := map[int]bool{}
		var lens []int
		for _, l := range []int{65535, 65536, 65537, F - 1, F, F + 1, 2*F + 1} {
			if !set[l] {
				set[l] = true
				lens = append(lens, l)
			}
		}
		sort.Ints(lens)
		for _, n := range lens {
			for _, c2s := range []bool{true, false} {
				for _, typ := range []byte{wsgen.OpText, wsgen.OpBinary} {
					for _, cs := range compSettings() {
						for _, class := range wsgen.Classes {
							if !thorough && ((cs.on && cs.level != 1) || (class != "ramp" && class != "lowcomp")) {
								continue // quick: compression {off, 1} x content {ramp, lowcomp}
							}
							item(&caseSpec{C2S: c2s, F: F, Comp: cs.on, Level: cs.level, Msgs: []msgSpec{{typ, n, class}}}, false)
						}
					}
				}
			}
		}
	}

	// ---- part B: sequences of 1-3 messages with a control frame between them
	seqF := []int{125}
	if thorough {
		seqF = []int{125, 2}
	}
	for _, F := range seqF {
		sub := []msgSpec{
			{wsgen.OpText, 0, "ramp"}, {wsgen.OpBinary, 1, "ramp"}, {wsgen.OpText, 125, "utf8"},
			{wsgen.OpBinary, 126, "lowcomp"}, {wsgen.OpText, F + 1, "ramp"}, {wsgen.OpBinary, 2*F + 1, "zero"},
		}
		var seqs [][]msgSpec
		for _, a := range sub {
			seqs = append(seqs, []msgSpec{a})
			for _, b := range sub {
				seqs = append(seqs, []msgSpec{a, b})
				for _, c := range sub {
					seqs = append(seqs, []msgSpec{a, b, c})
				}
			}
		}
		for _, ms := range seqs {
			for _, c2s := range []bool{true, false} {
				for _, cs := range []compSetting{{false, 0}, {true, 1}} {
					for _, ctl := range []string{"", "ping", "pong"} {
						if len(ms) == 1 && ctl != "" {
							continue
						}
						for _, splice := range []bool{false, true} {
							if splice && (ctl == "" || (ctl == "pong" && !thorough)) {
								continue // quick: the spliced variant with ping only
							}
							item(&caseSpec{C2S: c2s, F: F, Comp: cs.on, Level: cs.level, Msgs: ms, Ctl: ctl, Splice: splice}, true)
						}
					}
				}
			}
		}
	}

	// ---- part C: receiver variants (OnDataFrame also set; CloseAndClean timing; allocator capacity policy)
	for _, F := range []int{2, 125} {
		for _, n := range []int{0, 1, F, F + 1, 2*F + 1, 300} {
			for _, c2s := range []bool{true, false} {
				for _, cs := range []compSetting{{false, 0}, {true, 1}} {
					for _, v := range []struct {
						df, cah bool
						pol     int
					}{{true, false, 0}, {false, true, 0}, {false, false, 1}, {false, false, 2}, {true, false, 2}} {
						item(&caseSpec{C2S: c2s, F: F, Comp: cs.on, Level: cs.level, Msgs: []msgSpec{{wsgen.OpText, n, "utf8"}, {wsgen.OpBinary, n, "ramp"}},
							Ctl: "ping", RecvDF: v.df, CloseAH: v.cah, Policy: v.pol}, true)
					}
				}
			}
		}
	}

	// ---- part D: control payload length vs frame limit
	for _, F := range []int{2, 125, 126} {
		for _, cl := range []int{1, 3, 125} {
			for _, c2s := range []bool{true, false} {
				for _, ctl := range []string{"ping", "pong"} {
					item(&caseSpec{C2S: c2s, F: F, Msgs: []msgSpec{{wsgen.OpText, 3, "ramp"}, {wsgen.OpBinary, 3, "ramp"}}, Ctl: ctl, CtlLen: cl}, true)
				}
			}
		}
	}
}

func replay(scenario string, input json.RawMessage) string {
	var c caseSpec
	if err := json.Unmarshal(input, &c); err != nil {
		return "bad replay input: " + err.Error()
	}
	b := build(&c)
	if b.encSig != "" {
		return b.encSig
	}
	fmt.Printf("case %s\nwire %d bytes, %d frames; segmentation %+v\n", c.name(), len(b.wire.Bytes), b.nFrames, c.Seg)
	if c.Seg.Kind == "" {
		c.Seg.Kind = "one"
	}
	res, r := feedOnce(&c, b, c.Seg)
	fmt.Printf("Parse calls=%d err=%v closed=%v\n", r.Calls, r.Err, r.ImplClosed)
	return res
}

func main() {
	if f := os.Getenv("VERIF_CPUPROFILE"); f != "" {
		if fh, err := os.Create(f); err == nil {
			_ = pprof.StartCPUProfile(fh)
			go func() { time.Sleep(15 * time.Second); pprof.StopCPUProfile(); fh.Close() }()
		}
	}
	vkit.Main(&vkit.Spec{
		Property: "C12", Level: "model_checking",
		Rule: "one case = (sender role, frame limit F, compression setting, message list, control-frame placement) x one segmentation of the sender's real wire bytes fed to a real receiver Conn.Parse; enumerated: F in {1,2,125,126,1000,32768} x lengths {0,1,2,125,126,127,65535,65536,F-1,F,F+1,2F,2F+1} x {text,binary} x both roles x {off, levels -2..9} x 4 content classes; F in {65535,65536,131072} x lengths {65535,65536,65537,F-1,F,F+1,2F+1} (64-bit length form; quick: compression {off,1} x content {ramp,lowcomp}); all sequences of 1-3 messages over a 6-message subset with ping/pong between or spliced inside the next fragmented message; (compression enabled locally, negotiated) in {(no,no),(yes,no),(yes,yes),(no,yes)} x receiver enabled/not x Conn.EnableWriteCompression usage {never, (true), (false)(true), alternating} x both roles x 18 message lists (thorough: 78); payload release {off, Upgrader.ReleasePayload, Engine.ReleaseWebsocketPayload} x executor {inline, jobs deferred to after the Parse call, to after the feed} x allocator {tracking, immediately recycling LIFO} over 48 sequences of 2-3 messages (thorough 252) x ping between or not x compression {off,1} x both roles; allocator in {tracking (grow in place), mempool.NewAligned(), tracking + MoveOnGrow, mempool.NewSTD()} for sender and receiver (quick: the other three for every sequence/variant/negotiation base and the single-message sub-matrix compression {off,1} x content {ramp,lowcomp}, over one piece, structural cuts of the first and last two frames, byte-at-a-time and chunks of 3/31/1021/4093 bytes; thorough: every base, over every single cut for wires <= 300 B, structural cuts of four frames at each end otherwise, byte-at-a-time and chunks of 3/7/31/33/1021/4093 bytes); segmentations: one piece, every single cut (wires <= 2 KiB; structural cuts otherwise), double cuts (all for wires <= 48 B, structural pairs otherwise), byte-at-a-time (wires <= 4 KiB), fixed chunks for long wires. A case is non-trivial when the wire has more than one frame, is compressed, is longer than 127 bytes or was fed in more than one Parse call. states = distinct private parser states after the Parse calls of the feed, transitions = Parse calls.",
		Assumptions: []string{
			"text messages carry valid UTF-8 (a text message with invalid UTF-8 is rejected by design, C13)",
			"the receiver uses an inline executor; CloseAndClean is performed by the harness after a Parse error or once the implementation closed the conn, as the engine does",
			"MessageLengthLimit = 0 (limits are C15); the reference decoder (verif/seqx/wsgen: ParseFrames, Judge, Inflate) is independent of nbio and trusted, as are compress/flate and unicode/utf8 of the standard library",
			"control frames spliced inside a fragmented message are produced by reordering the sender's own frame writes (a legal peer behaviour that nbio's WriteMessage itself never produces)",
			"what may be on the wire is decided by what the handshake negotiated: RSV1 on a connection that did not negotiate permessage-deflate is illegal whatever is enabled locally and whatever the application asked for with EnableWriteCompression; on a connection that negotiated it a message may be sent compressed or not",
			"the combination 'not enabled locally, but negotiated' (reachable through the public NewClientConn/NewServerConn constructors and, for a client, by a server that answers with an extension that was not offered) is enumerated for the sender only; a receiver has compression enabled whenever it was negotiated",
			"part F: a deferred executor runs the queued jobs in order, after the Parse call (or the whole feed) has returned - one of the schedules a poller's executor can produce; with payload release on the application may use the payload only until its callback returns, so it is compared inside the callback only; with release off it is compared again after the feed",
			"allocator dimension: the receiver's and the sender's behaviour must not depend on which mempool.Allocator is installed (Engine.BodyAllocator / mempool.DefaultMemPool); a failure that does not occur under the tracking allocator carries the allocator in its signature",
			"quick tier: the full single-cut enumeration is applied to compression settings {off,-2,1,9} and wires of at most 24 frames; other levels / wires of more frames get structural cuts (first and last 3 frames); double cuts for uncompressed sequences and ramp content; messages that need more than 4096 frames (64 KiB with F<=2) are reduced to content classes ramp/lowcomp and compression {off,0,1} and fed in chunks (one-piece feed only for uncompressed ramp); thorough lifts this",
		},
		Seq: run, ReplaySeq: replay, MinNonTrivial: 1000,
	})
}

// C02: inbound delivery integrity in every poller configuration and transport. Real engine on
// the simulated kernel. Stream peers send bursts (and optionally FIN) at scheduler-chosen
// moments; a UDP listener receives datagrams from two remotes. Oracle: per connection the
// concatenation of the data callback's arguments equals what was sent (exactly once, in order,
// no two callbacks of one connection overlapping); datagrams keep their boundaries and their
// remote -> connection attribution; at quiescence nothing spins (an execution that exceeds the
// step horizon is a spin).
package main

import (
	"errors"
	"fmt"
	"net"
	"strings"
	"time"

	"github.com/lesismal/nbio"

	"verif/ekit"
	"verif/vkit"
	"verif/vsched"
	"verif/vshim/vsys"
)

type cfg struct {
	mode     ekit.Mode
	async    bool
	exec     string // default | go | inline  (async only)
	npoller  int
	b        int // ReadBufferSize
	maxReads int
	trans    string // tcp | unix | udp
	bursts   []int
	fin      bool
	fclose   bool // the peer closes its socket (instead of shutting down its write side)
	conns    int
	p, d     int
	note     string // appended to the name
	addrs    string // udp: how the two remotes' addresses differ (v4-ports | v4-ips | v6-ports | v6-ips | v6-zones)
}

func (c cfg) name() string {
	a := "sync"
	if c.async {
		a = "async/" + c.exec
	}
	f := fmt.Sprint(c.fin)
	if c.fclose {
		f = "close"
	}
	n := fmt.Sprintf("%s %s %s np=%d b=%d max=%d bursts=%v fin=%s conns=%d", c.trans, c.mode, a, c.npoller, c.b, c.maxReads, c.bursts, f, c.conns)
	if c.addrs != "" && c.addrs != "v4-ports" {
		n += " remotes=" + c.addrs
	}
	if c.note != "" {
		n += " " + c.note
	}
	return n
}

// remoteAddr maps a remote's label (7001, 7002) to its socket address in the given address set:
// the two remotes differ only in the port, only in the IP, or (IPv6) only in the zone.
func remoteAddr(set string, label int) vsys.Sockaddr {
	second := label != 7001
	v6 := func(last byte, port int, zone uint32) vsys.Sockaddr {
		a := &vsys.SockaddrInet6{Port: port, ZoneId: zone}
		a.Addr[0], a.Addr[1], a.Addr[15] = 0xfd, 0x00, last
		return a
	}
	switch set {
	case "v4-ips":
		if second {
			return &vsys.SockaddrInet4{Addr: [4]byte{10, 0, 0, 2}, Port: 7001}
		}
		return &vsys.SockaddrInet4{Addr: [4]byte{10, 0, 0, 1}, Port: 7001}
	case "v6-ports":
		return v6(1, label, 0)
	case "v6-ips":
		if second {
			return v6(2, 7001, 0)
		}
		return v6(1, 7001, 0)
	case "v6-zones":
		if second {
			return v6(1, 7001, 2)
		}
		return v6(1, 7001, 1)
	}
	return &vsys.SockaddrInet4{Addr: [4]byte{10, 0, 0, 1}, Port: label}
}

// sameEndpoint compares a connection's reported remote address with a socket address (IP and
// port; the zone name depends on the host's interface table and is not compared).
func sameEndpoint(ra net.Addr, sa vsys.Sockaddr) bool {
	ua, ok := ra.(*net.UDPAddr)
	if !ok {
		return false
	}
	switch a := sa.(type) {
	case *vsys.SockaddrInet4:
		return ua.Port == a.Port && ua.IP.Equal(net.IP(a.Addr[:]))
	case *vsys.SockaddrInet6:
		return ua.Port == a.Port && ua.IP.Equal(net.IP(a.Addr[:]))
	}
	return false
}

var lastCounters map[string]int
var lastChunkOver int
var lastRaced int
var lastReused int
var lastOutcome string

type connState struct {
	got      []byte
	inCB     bool
	overlaps int
	opens    int
	closes   int
	closeErr error
}

func engineFor(c cfg) *nbio.Engine {
	conf := nbio.Config{Name: "c02", NPoller: c.npoller, ReadBufferSize: c.b, MaxConnReadTimesPerEventLoop: c.maxReads, AsyncReadInPoller: c.async}
	c.mode.Apply(&conf)
	if c.async {
		switch c.exec {
		case "go":
			conf.IOExecute = func(f func(*[]byte)) {
				vsched.GoNamed("iotask", func() { buf := make([]byte, c.b); f(&buf) })
			}
		case "inline":
			conf.IOExecute = func(f func(*[]byte)) { buf := make([]byte, c.b); f(&buf) }
		}
	}
	return nbio.NewEngine(conf)
}

func streamBody(c cfg) func() {
	return func() {
		vsys.Configure(false, true)
		g := engineFor(c)
		states := map[*nbio.Conn]*connState{}
		st := func(cc *nbio.Conn) *connState {
			s := states[cc]
			if s == nil {
				s = &connState{}
				states[cc] = s
			}
			return s
		}
		var fails []string
		g.OnOpen(func(cc *nbio.Conn) { st(cc).opens++ })
		g.OnClose(func(cc *nbio.Conn, err error) { s := st(cc); s.closes++; s.closeErr = err })
		g.OnData(func(cc *nbio.Conn, data []byte) {
			s := st(cc)
			if s.inCB {
				s.overlaps++
				fails = append(fails, "overlap|two data callbacks of one connection ran at the same time")
			}
			s.inCB = true
			s.got = append(s.got, data...)
			first := string(data)
			if len(data) > c.b && !c.async {
				lastChunkOver++
			}
			vsched.Point()
			// a handler that looks at its argument a little later must still find the same bytes:
			// nobody else may be using the buffer while the callback runs
			if string(data) != first {
				fails = append(fails, fmt.Sprintf("inbound-changed-during-callback|the %d bytes handed to the data callback changed while the callback was running (%v -> %v)", len(first), []byte(first), data))
			}
			s.inCB = false
		})
		if err := g.Start(); err != nil {
			vsched.Fail("harness|engine start: %v", err)
			return
		}
		type cp struct {
			conn *nbio.Conn
			peer *vsys.Peer
			sent []byte
		}
		var cps []*cp
		for i := 0; i < c.conns; i++ {
			conn, peer := ekit.Stream(c.trans == "unix", 64, 64)
			x := &cp{conn: conn, peer: peer}
			cps = append(cps, x)
			if _, err := g.AddConn(conn); err != nil {
				vsched.Fail("harness|AddConn: %v", err)
				return
			}
		}
		for i, x := range cps {
			i, x := i, x
			vsched.GoNamed(fmt.Sprintf("peer%d", i), func() {
				for j, n := range c.bursts {
					data := ekit.Payload(i*8+j+1, n)
					x.sent = append(x.sent, data...)
					x.peer.WriteAll(data)
				}
				if c.fclose {
					x.peer.Close()
				} else if c.fin {
					x.peer.CloseWrite()
				}
			})
		}
		vsched.WaitIdle()
		kst := vsys.GetStats()
		lastCounters = map[string]int{"reads": kst.Reads, "read_eagain": kst.ReadEagain, "eintr": kst.Eintrs}
		if lastChunkOver > 0 {
			lastCounters["chunks_larger_than_read_buffer_not_judged"] = lastChunkOver
			lastChunkOver = 0
		}
		var outc []string
		for i, x := range cps {
			s := st(x.conn)
			outc = append(outc, fmt.Sprintf("%d/%d", len(s.got), len(x.sent)))
			if len(s.got) > 0 {
				lastCounters["delivered_conns"]++
			}
			if string(s.got) != string(x.sent) {
				kind := "lost"
				switch {
				case len(s.got) > len(x.sent):
					kind = "duplicated"
				case len(s.got) == len(x.sent):
					kind = "corrupted"
				case !strings.HasPrefix(string(x.sent), string(s.got)):
					kind = "reordered-or-corrupted"
				}
				a := "sync"
				if c.async {
					a = "async exec=" + c.exec
				}
				closedNote := ""
				if s.closes > 0 {
					closedNote = fmt.Sprintf(" (connection closed with %v)", s.closeErr)
				}
				finS := fmt.Sprint(c.fin)
				if c.fclose {
					finS = "close/" + c.trans
				}
				fails = append(fails, fmt.Sprintf("inbound-%s %s %s fin=%s|conn %d: peer sent %d bytes, the data callback received %d%s; b=%d max=%d; pending in socket=%d",
					kind, c.mode, a, finS, i, len(x.sent), len(s.got), closedNote, c.b, c.maxReads, 0))
			}
			if c.fin && s.closes == 0 {
				lastCounters["fin_without_close_not_judged_here"]++
			}
			if !c.fin && s.closes > 0 {
				fails = append(fails, fmt.Sprintf("unexpected-close|conn %d closed with %v although the peer did not close", i, s.closeErr))
			}
		}
		lastOutcome = strings.Join(outc, " ")
		for _, f := range fails {
			vsched.Fail("%s", f)
		}
	}
}

type dg struct {
	port int
	n    int
}

// reuseBody: connection A is closed while a read task of A is in flight, and a new connection B
// inherits A's descriptor number and receives input: B's bytes must reach B (a stale reader of A
// must not take them out of B's socket).
func reuseBody(c cfg) func() {
	return func() {
		vsys.Configure(false, false)
		conf := nbio.Config{Name: "c02", NPoller: 1, ReadBufferSize: c.b, MaxConnReadTimesPerEventLoop: c.maxReads, AsyncReadInPoller: true}
		c.mode.Apply(&conf)
		started := 0
		conf.IOExecute = func(f func(*[]byte)) {
			vsched.GoNamed("iotask", func() { started++; buf := make([]byte, c.b); f(&buf) })
		}
		g := nbio.NewEngine(conf)
		got := map[*nbio.Conn][]byte{}
		g.OnData(func(cc *nbio.Conn, data []byte) { got[cc] = append(got[cc], data...) })
		if err := g.Start(); err != nil {
			vsched.Fail("harness|engine start: %v", err)
			return
		}
		a, peerA := ekit.Stream(false, 64, 64)
		fdA := a.VerifFD()
		if _, err := g.AddConn(a); err != nil {
			vsched.Fail("harness|AddConn: %v", err)
			return
		}
		sentA := ekit.Payload(1, 1)
		vsched.GoNamed("peerA", func() { peerA.WriteAll(sentA) })
		vsched.Block("read task of A started", func() bool { return started > 0 })
		_ = a.Close()
		b, peerB := ekit.Stream(false, 64, 64)
		if b.VerifFD() == fdA {
			lastReused++
		}
		if _, err := g.AddConn(b); err != nil {
			vsched.Fail("harness|AddConn: %v", err)
			return
		}
		sentB := ekit.Payload(2, c.b+1)
		peerB.WriteAll(sentB)
		vsched.WaitIdle()
		lastCounters = map[string]int{"delivered_conns": len(got), "descriptor_number_reused": lastReused}
		lastReused = 0
		lastOutcome = fmt.Sprintf("A=%d/%d B=%d/%d", len(got[a]), len(sentA), len(got[b]), len(sentB))
		if string(got[b]) != string(sentB) {
			vsched.Fail("inbound-lost %s async exec=go descriptor-reuse|connection B (which inherited the descriptor number of the closed connection A) was sent %d bytes, its data callback received %d; the closed connection A was handed %d bytes (it was sent %d)", c.mode, len(sentB), len(got[b]), len(got[a]), len(sentA))
			return
		}
		if !strings.HasPrefix(string(sentA), string(got[a])) {
			vsched.Fail("inbound-corrupted %s async exec=go descriptor-reuse|the closed connection A was handed bytes it was never sent: %v", c.mode, got[a])
		}
	}
}

// staleBody: the poller has fetched one batch with an event for connection X and an event
// (readable + peer half-closed) for connection A. While X's data callback runs, the application
// closes A and adds a new connection B, which inherits A's descriptor number. The poller then
// reaches A's event: it belongs to a registration that no longer exists and must not be applied to
// B. B's peer sends afterwards; B must receive everything and must not have been closed.
func staleBody(c cfg) func() {
	return func() {
		vsys.Configure(false, false)
		conf := nbio.Config{Name: "c02", NPoller: 1, ReadBufferSize: c.b, MaxConnReadTimesPerEventLoop: c.maxReads}
		c.mode.Apply(&conf)
		g := nbio.NewEngine(conf)
		got := map[*nbio.Conn][]byte{}
		closed := map[*nbio.Conn]error{}
		var x *nbio.Conn
		inX, bAdded := false, false
		g.OnData(func(cc *nbio.Conn, data []byte) {
			got[cc] = append(got[cc], data...)
			if cc == x && !inX {
				inX = true
				vsched.Block("B added", func() bool { return bAdded })
			}
		})
		g.OnClose(func(cc *nbio.Conn, err error) {
			if err == nil {
				err = errors.New("nil")
			}
			closed[cc] = err
		})
		if err := g.Start(); err != nil {
			vsched.Fail("harness|engine start: %v", err)
			return
		}
		var peerX *vsys.Peer
		x, peerX = ekit.Stream(false, 64, 64)
		a, peerA := ekit.Stream(false, 64, 64)
		fdA := a.VerifFD()
		for _, cc := range []*nbio.Conn{x, a} {
			if _, err := g.AddConn(cc); err != nil {
				vsched.Fail("harness|AddConn: %v", err)
				return
			}
		}
		vsched.WaitIdle()
		// both become ready while the poller sleeps: one batch, X first
		peerX.WriteAll(ekit.Payload(3, 1))
		peerA.WriteAll(ekit.Payload(1, 1))
		peerA.CloseWrite()
		vsched.Block("X's data callback entered", func() bool { return inX })
		_ = a.Close()
		b, peerB := ekit.Stream(false, 64, 64)
		reused := 0
		if b.VerifFD() == fdA {
			reused = 1
		}
		if _, err := g.AddConn(b); err != nil {
			vsched.Fail("harness|AddConn: %v", err)
			return
		}
		bAdded = true
		vsched.WaitIdle()
		sentB := ekit.Payload(2, c.b+1)
		peerB.WriteAll(sentB)
		vsched.WaitIdle()
		_, bClosed := closed[b]
		lastCounters = map[string]int{"descriptor_number_reused": reused, "same_batch": btoi(len(got[a]) == 0)}
		lastOutcome = fmt.Sprintf("A=%d B=%d/%d closedB=%v", len(got[a]), len(got[b]), len(sentB), bClosed)
		if bClosed {
			vsched.Fail("live-connection-closed %s stale-event descriptor-reuse|connection B, which nobody closed and whose peer is open, got a close notification (%v): it inherited the descriptor number of connection A, closed while the poller still held an event fetched for A", c.mode, closed[b])
			return
		}
		if string(got[b]) != string(sentB) {
			vsched.Fail("inbound-lost %s stale-event descriptor-reuse|connection B (which inherited the descriptor number of the closed connection A) was sent %d bytes, its data callback received %d", c.mode, len(sentB), len(got[b]))
		}
	}
}

func btoi(b bool) int {
	if b {
		return 1
	}
	return 0
}

// udpReopenBody: a remote whose session was closed (by the application) sends again: the datagram
// must open a new session and be delivered on a live connection, never on the closed one after
// its close notification. With concurrent=true the second datagram races the Close.
func udpReopenBody(c cfg, concurrent bool) func() {
	return func() {
		vsys.Configure(false, false)
		g := engineFor(c)
		type rec struct {
			conn        *nbio.Conn
			data        []byte
			afterClosed bool
		}
		var recs []rec
		opens := map[*nbio.Conn]int{}
		closed := map[*nbio.Conn]int{}
		g.OnOpen(func(cc *nbio.Conn) { opens[cc]++ })
		g.OnClose(func(cc *nbio.Conn, _ error) { closed[cc]++ })
		g.OnData(func(cc *nbio.Conn, data []byte) {
			recs = append(recs, rec{cc, append([]byte(nil), data...), closed[cc] > 0})
		})
		if err := g.Start(); err != nil {
			vsched.Fail("harness|engine start: %v", err)
			return
		}
		fd, up := vsys.NewUDPSocket(9000)
		server := nbio.VerifNewConn(fd, nbio.ConnTypeUDPServer, nil, nil)
		if _, err := g.AddConn(server); err != nil {
			vsched.Fail("harness|AddConn: %v", err)
			return
		}
		from := remoteAddr(c.addrs, 7001)
		up.SendFrom(from, []byte{1})
		vsched.WaitIdle()
		if len(recs) != 1 {
			vsched.Fail("udp-lost %s reopen|the first datagram was not delivered", c.mode)
			return
		}
		s1 := recs[0].conn
		if concurrent {
			vsched.GoNamed("closer", func() { _ = s1.Close() })
			vsched.GoNamed("remote7001", func() { up.SendFrom(from, []byte{2}) })
		} else {
			_ = s1.Close()
			vsched.WaitIdle()
			up.SendFrom(from, []byte{2})
		}
		vsched.WaitIdle()
		if concurrent {
			// a datagram that races the Close may still reach the dying session (counted, not
			// judged); once the close has settled, the next one must open a new session
			if len(recs) == 2 && recs[1].afterClosed {
				lastRaced++
			}
			recs = recs[:1]
			up.SendFrom(from, []byte{2})
			vsched.WaitIdle()
		}
		lastCounters = map[string]int{"datagrams_delivered": len(recs), "delivered_conns": len(opens)}
		if lastRaced > 0 {
			lastCounters["racing_datagram_delivered_on_the_closing_session_not_judged"] = lastRaced
			lastRaced = 0
		}
		lastOutcome = fmt.Sprintf("udp reopen %d delivered, %d sessions", len(recs), len(opens))
		if closed[s1] != 1 {
			vsched.Fail("udp-session-close-count|the closed session got %d close notifications", closed[s1])
			return
		}
		for i, r := range recs {
			if r.afterClosed {
				vsched.Fail("udp-delivered-on-closed-session|datagram %d of a remote whose session had been closed (close notification delivered, everything settled) was handed to the data callback with the closed connection", i)
				return
			}
		}
		if len(recs) != 2 {
			vsched.Fail("udp-lost %s reopen|the remote sent again after its session was closed: %d of 2 datagrams delivered, %d still queued", c.mode, len(recs), up.Queued())
			return
		}
		s2 := recs[1].conn
		if s2 != s1 {
			lastCounters["sessions_reopened"] = 1
			if opens[s2] != 1 {
				vsched.Fail("udp-open-count|the new session of the remote got %d open notifications", opens[s2])
			}
			if cl, _ := s2.IsClosed(); cl && closed[s2] == 0 {
				vsched.Fail("udp-delivered-on-closed-session|the datagram was delivered on a connection that is closed")
			}
		}
		if string(recs[1].data) != string([]byte{2}) {
			vsched.Fail("udp-boundary|second datagram delivered as %v", recs[1].data)
		}
	}
}

func udpBody(c cfg, dgs []dg) func() {
	return func() {
		vsys.Configure(false, true)
		g := engineFor(c)
		type rec struct {
			conn *nbio.Conn
			data []byte
		}
		var recs []rec
		opens := map[*nbio.Conn]int{}
		var fails []string
		inCB := map[*nbio.Conn]bool{}
		g.OnOpen(func(cc *nbio.Conn) { opens[cc]++ })
		g.OnData(func(cc *nbio.Conn, data []byte) {
			if inCB[cc] {
				fails = append(fails, "overlap|two data callbacks of one connection ran at the same time")
			}
			inCB[cc] = true
			recs = append(recs, rec{cc, append([]byte(nil), data...)})
			vsched.Point()
			inCB[cc] = false
		})
		if err := g.Start(); err != nil {
			vsched.Fail("harness|engine start: %v", err)
			return
		}
		fd, up := vsys.NewUDPSocket(9000)
		server := nbio.VerifNewConn(fd, nbio.ConnTypeUDPServer, nil, nil)
		if _, err := g.AddConn(server); err != nil {
			vsched.Fail("harness|AddConn: %v", err)
			return
		}
		// one sender thread per remote
		byPort := map[int][]dg{}
		var ports []int
		for _, d := range dgs {
			if _, ok := byPort[d.port]; !ok {
				ports = append(ports, d.port)
			}
			byPort[d.port] = append(byPort[d.port], d)
		}
		sent := map[int][][]byte{}
		for _, port := range ports {
			port := port
			vsched.GoNamed(fmt.Sprintf("remote%d", port), func() {
				for j, d := range byPort[port] {
					p := ekit.Payload(port*4+j, d.n)
					p[0] = byte(16*(port-7000) + j + 1) // pairwise different payloads: the oracle recognises the sender by them
					sent[port] = append(sent[port], p)
					up.SendFrom(remoteAddr(c.addrs, port), p)
				}
			})
		}
		vsched.WaitIdle()
		// oracle: the sender of a delivered datagram is recognised by its payload (payloads are
		// pairwise different), the connection must be the sender's and report the sender's address
		connOf := map[int]*nbio.Conn{}
		portOf := map[*nbio.Conn]int{}
		next := map[int]int{}
		senderOf := func(data []byte) (int, int) {
			for _, port := range ports {
				for i, p := range sent[port] {
					if string(p) == string(data) {
						return port, i
					}
				}
			}
			return 0, -1
		}
		for _, r := range recs {
			ra := r.conn.RemoteAddr()
			if ra == nil {
				fails = append(fails, "udp-attribution|datagram delivered on a connection without remote address")
				continue
			}
			port, idx := senderOf(r.data)
			if idx < 0 {
				fails = append(fails, fmt.Sprintf("udp-boundary|a datagram of %d bytes %v was delivered (on the connection of %v) that no remote sent in this form", len(r.data), r.data, ra))
				continue
			}
			if !sameEndpoint(ra, remoteAddr(c.addrs, port)) {
				fails = append(fails, fmt.Sprintf("udp-attribution|a datagram of remote %v was delivered on a connection whose remote address is %v", remoteAddr(c.addrs, port), ra))
			}
			if pc, ok := connOf[port]; ok && pc != r.conn {
				fails = append(fails, fmt.Sprintf("udp-attribution|datagrams of remote %v were delivered on two different connections", remoteAddr(c.addrs, port)))
			}
			connOf[port] = r.conn
			if pp, ok := portOf[r.conn]; ok && pp != port {
				fails = append(fails, fmt.Sprintf("udp-attribution|one connection received datagrams of two remotes (%v and %v)", remoteAddr(c.addrs, pp), remoteAddr(c.addrs, port)))
			}
			portOf[r.conn] = port
			i := next[port]
			switch {
			case idx < i:
				fails = append(fails, fmt.Sprintf("udp-duplicated|datagram %d of remote :%d was delivered twice", idx, port))
				continue
			case idx > i:
				fails = append(fails, fmt.Sprintf("udp-order|datagram %d of remote :%d was delivered before datagram %d", idx, port, i))
			}
			next[port] = idx + 1
		}
		delivered := 0
		for _, port := range ports {
			delivered += next[port]
			if next[port] < len(sent[port]) {
				a := "sync"
				if c.async {
					a = "async exec=" + c.exec
				}
				fails = append(fails, fmt.Sprintf("udp-lost %s %s|remote :%d sent %d datagrams, %d were delivered; %d still queued in the socket at quiescence", c.mode, a, port, len(sent[port]), next[port], up.Queued()))
			}
			if cc := connOf[port]; cc != nil && opens[cc] != 1 {
				fails = append(fails, fmt.Sprintf("udp-open-count|session of remote :%d got %d open notifications", port, opens[cc]))
			}
		}
		lastCounters = map[string]int{"datagrams_delivered": delivered, "delivered_conns": len(connOf)}
		lastOutcome = fmt.Sprintf("udp %d/%d", delivered, len(dgs))
		for _, f := range fails {
			vsched.Fail("%s", f)
		}
	}
}

func check(r *vsched.Result) string {
	for _, b := range r.Blocked {
		if b.Name == "main" || strings.HasPrefix(b.Name, "peer") || strings.HasPrefix(b.Name, "remote") {
			return fmt.Sprintf("stuck|thread %s blocked at the end (%s)", b.Name, b.Why)
		}
	}
	return ""
}

type ecfg struct {
	mode  ekit.Mode
	async bool
	exec  string
}

func build(tier string) []*vkit.Scenario {
	thorough := tier == "thorough"
	var out []*vkit.Scenario
	add := func(c cfg, body func()) {
		out = append(out, &vkit.Scenario{Name: c.name(), Body: body, Check: check, P: c.p, D: c.d,
			Opts:     vsched.Options{Horizon: 4000},
			Counters: func() map[string]int { return lastCounters }, Outcome: func() string { return lastOutcome },
			NonTrivial: func(m map[string]int) bool { return m["delivered_conns"] > 0 }})
	}
	ecfgs := []ecfg{{ekit.LT, false, ""}, {ekit.ET, false, ""}, {ekit.ONESHOT, false, ""}}
	for _, m := range []ekit.Mode{ekit.ET, ekit.ONESHOT} {
		for _, e := range []string{"default", "go", "inline"} {
			ecfgs = append(ecfgs, ecfg{m, true, e})
		}
	}
	for _, e := range ecfgs {
		for _, b := range []int{2, 4} {
			for _, mr := range []int{1, 3} {
				patterns := []struct {
					bursts []int
					fin    bool
					fclose bool
				}{
					{[]int{1}, false, false}, {[]int{b + 1}, false, false}, {[]int{2*b + 1, 1}, false, false}, {[]int{b, b}, false, false},
					{[]int{b}, true, false}, {[]int{2*b + 1}, true, false}, {[]int{mr*b + 1}, true, false}, {[]int{1, mr*b + b}, true, false},
					{[]int{2*b + 1}, true, true}, {[]int{mr*b + 1}, true, true},
				}
				for _, tr := range []string{"tcp", "unix"} {
					if tr == "unix" && !thorough && (b == 4 || mr == 3) {
						continue
					}
					for _, pt := range patterns {
						p, d := 1, 1
						if e.async {
							p = 2
						}
						if thorough {
							p, d = p+1, 2
						}
						c := cfg{mode: e.mode, async: e.async, exec: e.exec, npoller: 1, b: b, maxReads: mr, trans: tr, bursts: pt.bursts, fin: pt.fin, fclose: pt.fclose, conns: 1, p: p, d: d}
						add(c, streamBody(c))
					}
				}
				// two connections on two pollers
				if b == 2 && (mr == 1 || thorough) {
					// ET + the default task pool on two pollers does not finish P<=2 within the quick
					// budget (about 1.4 million states after 40 s): quick explores it at P<=1, thorough
					// at P<=2
					p2 := 2
					if !thorough && e.mode == ekit.ET && e.async && e.exec == "default" {
						p2 = 1
					}
					c := cfg{mode: e.mode, async: e.async, exec: e.exec, npoller: 2, b: b, maxReads: mr, trans: "tcp", bursts: []int{b + 1, 1}, conns: 2, p: p2, d: 0}
					add(c, streamBody(c))
					// a first burst that makes each poller use its buffer once, then one that is larger
					// than the buffer on both connections at the same time
					c = cfg{mode: e.mode, async: e.async, exec: e.exec, npoller: 2, b: b, maxReads: mr, trans: "tcp", bursts: []int{1, 2 * b}, conns: 2, p: p2, d: 0}
					add(c, streamBody(c))
				}
				// a descriptor number reused while a read task of its previous owner is in flight
				if e.async && e.exec == "go" && b == 2 && mr == 1 {
					c := cfg{mode: e.mode, async: true, exec: "go", npoller: 1, b: b, maxReads: mr, trans: "tcp", bursts: []int{1, b + 1}, conns: 2, p: 2, d: 0, note: "descriptor-reused-while-reading"}
					add(c, reuseBody(c))
				}
				// a descriptor number reused while the poller holds an event fetched for its previous owner
				if !e.async && b == 2 && mr == 1 {
					c := cfg{mode: e.mode, npoller: 1, b: b, maxReads: mr, trans: "tcp", bursts: []int{1, b + 1}, conns: 3, p: 1, d: 0, note: "descriptor-reused-with-event-in-batch"}
					add(c, staleBody(c))
				}
				// UDP: a remote sends again after its session was closed
				if b == 2 && mr == 1 {
					for _, conc := range []bool{false, true} {
						c := cfg{mode: e.mode, async: e.async, exec: e.exec, npoller: 1, b: b, maxReads: mr, trans: "udp", bursts: []int{1, 1}, conns: 1, p: 2, d: 0}
						c.note = map[bool]string{false: "remote-sends-again-after-close", true: "remote-sends-again-racing-close"}[conc]
						add(c, udpReopenBody(c, conc))
					}
				}
				// UDP: two remotes x <= 2 datagrams
				for _, dgs := range [][]dg{
					{{7001, 1}}, {{7001, b}, {7001, 1}}, {{7001, 1}, {7002, b}}, {{7001, b}, {7001, b}, {7002, 1}, {7002, b}},
				} {
					if len(dgs) == 4 && !thorough && mr == 3 {
						continue
					}
					p, d := 1, 0
					if thorough {
						p, d = 2, 1
					}
					sets := []string{"v4-ports"}
					if len(dgs) > 2 || (len(dgs) == 2 && dgs[0].port != dgs[1].port) {
						// two remotes: their addresses differ in the port only, in the IP only, in
						// the zone only; IPv4 and IPv6
						if thorough || (len(dgs) == 2 && mr == 1) {
							sets = append(sets, "v4-ips", "v6-ports", "v6-ips", "v6-zones")
						}
					} else if mr == 1 && b == 2 {
						sets = append(sets, "v6-ports")
					}
					for _, set := range sets {
						c := cfg{mode: e.mode, async: e.async, exec: e.exec, npoller: 1, b: b, maxReads: mr, trans: "udp", bursts: []int{len(dgs)}, conns: 1, p: p, d: d, addrs: set}
						c.bursts = nil
						for _, x := range dgs {
							c.bursts = append(c.bursts, x.port*10+x.n)
						}
						add(c, udpBody(c, dgs))
					}
				}
			}
		}
	}
	return out
}

func main() {
	vkit.Main(&vkit.Spec{
		Property: "C02", Level: "model_checking",
		Rule: "one scenario = {LT, ET, ONESHOT} x {sync, async read with default / goroutine-per-task / inline executor} x NPoller x ReadBufferSize b x MaxConnReadTimesPerEventLoop x transport x peer send pattern (burst sizes 1, b, b+1, 2b+1, max*b+1, optional FIN; UDP: two remotes x up to two datagrams); every interleaving of peer, poller(s) and read tasks within the preemption bound, EINTR answers within the deviation bound; non-trivial = data was delivered to a callback",
		Assumptions: []string{
			"the simulated kernel returns everything queued up to the buffer size on read (no short reads with data pending), like Linux stream sockets",
			"after a peer FIN the close notification itself is not judged here (C03); every byte sent before the FIN must still be delivered",
			"spin detection: an execution that exceeds 4000 scheduling steps (legitimate ones stay below 600) is reported as a livelock",
		},
		UsesSimulatedKernel: true,
		Build:               build, QuickBudget: 40 * time.Second, ThoroughBudget: 10 * time.Minute, MinNonTrivial: 100,
	})
}

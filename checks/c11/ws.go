package main

import (
	"bytes"
	"encoding/binary"
	"encoding/hex"
	"encoding/json"
	"fmt"
	"runtime/debug"
	"strings"

	"github.com/lesismal/nbio/nbhttp/websocket"

	"verif/seqx/wsgen"
	"verif/track"
	"verif/vkit"
	"verif/vshim/vrand"
)

// Space 3: WebSocket frame / message sequences (DESIGN §4 C11 item 3). A fixed set of frame
// sequences - legal ones (text, fragmented binary with interleaved ping/pong, compressed and
// compressed-fragmented messages, close), every legal sequence with an RFC violation injected at
// every frame position ("errors at every frame"), size-limit violations (single, fragmented,
// decompression bomb), illegal close frames, oversized control frames - is fed to a real
// websocket.Conn through Conn.Parse:
//
//	receiver configuration: role x ReleasePayload on/off x blocking-mode (callbacks through
//	  Engine.SyncCall) or executor mode (Conn.Execute; also an executor that refuses every job) x
//	  handler set {OnMessage, OnMessage+OnDataFrame, OnDataFrame} x allocator variants (exact,
//	  stale, exact+moving Append in poison mode, exact+moving Append in guard mode; see wsAllocs);
//	segmentation: one piece, every single cut, byte at a time, and (wsMultiCut) three and four
//	  reads cut at structural positions; for every segmentation additionally CloseAndClean right
//	  at the last cut with the last piece still delivered (a read already in flight);
//	faults: the k-th callback panics (every k), the k-th connection write fails (every k), the
//	  connection is cleaned up right after the handler that closed it or after Parse returns.
//
// Sender side: WriteMessage sequences (text, binary, ping, close; compression on/off; frame
// limit 3 so that messages fragment) with the k-th connection write failing, for every k.
//
// Observation points of the ownership monitor: the fake conn's Write, OnMessage, OnDataFrame, and
// after every Parse call the content oracle (wsOracle): retained cache and message against the
// input, reported payloads and written bytes searched for the poison pattern. The read buffer
// passed to Parse is overwritten after every call, as the engine reuses it.

func init() {
	register(wsPart)
	registerReplay("ws-feed", wsReplay)
	registerReplay("ws-send", wsSendReplay)
	rules = append(rules, "[ws] every frame sequence of a fixed set (legal sequences incl. fragmented/compressed messages and interleaved control frames; each of them with a reserved bit injected at every frame position; over-limit single/fragmented/compressed messages; illegal close frames; oversized control frames) x receiver configuration (role, ReleasePayload on/off, blocking or executor mode, refusing executor, handler set, allocator variants exact / recycled contents / exact+moving Append in poison mode and exact+moving Append in guard mode = freed buffers inaccessible) x {one piece, every single cut, byte at a time, three and four reads (pairs / triples of structural cut positions within a window of 10 / 6 consecutive positions, under ReleasePayload on/off x {OnMessage+OnDataFrame, OnMessage}), each with CloseAndClean at the end or at the last cut} x {k-th callback panics, k-th conn write fails, cleanup after handler/after Parse}; sender: WriteMessage sequences x compression x k-th conn write fails;")
	assumptions = append(assumptions, "[ws] callbacks copy what they keep (with ReleasePayload the payload belongs to nbio after the callback returns); after Parse fails or the implementation closed the conn the harness calls CloseAndClean once and stops feeding, except in the close-at-cut cases where the next piece is still passed to Parse")
}

type wsSeq struct {
	name   string
	frames []wsgen.Frame
	comp   bool
	limit  int
}

func wsT(fin bool, op byte, n, mark int) wsgen.Frame {
	return wsgen.Frame{Fin: fin, Op: op, Payload: wsgen.Marked(n, mark)}
}

func wsClose(code int, reason string) wsgen.Frame {
	b := make([]byte, 2, 2+len(reason))
	binary.BigEndian.PutUint16(b, uint16(code))
	return wsgen.Frame{Fin: true, Op: wsgen.OpClose, Payload: append(b, reason...)}
}

func wsSequences() []wsSeq {
	var out []wsSeq
	legal := []wsSeq{
		{name: "text+ping+fragmented+pong+close", frames: []wsgen.Frame{wsT(true, 1, 5, 0), wsT(true, 9, 2, 1), wsT(false, 2, 3, 2), wsT(true, 10, 1, 3), wsT(false, 0, 0, 4), wsT(true, 0, 4, 5), wsClose(1000, "bye")}},
		{name: "empty+text+close1001", frames: []wsgen.Frame{wsT(true, 1, 0, 0), wsT(true, 2, 7, 1), wsT(true, 9, 0, 2), wsClose(1001, "")}},
		{name: "two-messages", frames: []wsgen.Frame{wsT(true, 2, 130, 0), wsT(false, 1, 2, 1), wsT(true, 0, 2, 2)}},
	}
	z1 := wsgen.Deflate(wsgen.Marked(40, 1), 1)
	z2 := wsgen.Deflate(wsgen.Marked(300, 2), 9)
	comp := []wsSeq{
		{name: "compressed+compressed-fragmented", comp: true, frames: []wsgen.Frame{
			{Fin: true, Rsv1: true, Op: 1, Payload: z1}, wsT(true, 9, 2, 3),
			{Fin: false, Rsv1: true, Op: 2, Payload: z2[:len(z2)/2]}, wsT(true, 10, 0, 4), {Fin: true, Op: 0, Payload: z2[len(z2)/2:]},
			wsT(true, 1, 3, 5), wsClose(1000, "")}},
		{name: "compressed-garbage", comp: true, frames: []wsgen.Frame{{Fin: true, Rsv1: true, Op: 2, Payload: []byte{0xff, 0xfe, 0x12, 0x34, 0x56}}, wsT(true, 1, 3, 1)}},
		{name: "compressed-zero-length", comp: true, frames: []wsgen.Frame{{Fin: true, Rsv1: true, Op: 1}, wsT(true, 1, 3, 1)}},
	}
	out = append(out, legal...)
	out = append(out, comp...)
	// errors at every frame: a reserved bit on frame k
	for _, s := range append(append([]wsSeq{}, legal...), comp[0]) {
		for k := range s.frames {
			fr := append([]wsgen.Frame{}, s.frames...)
			fr[k].Rsv2 = true
			out = append(out, wsSeq{name: fmt.Sprintf("%s/rsv2@%d", s.name, k), frames: fr, comp: s.comp})
		}
	}
	// protocol errors detected at message level
	out = append(out,
		wsSeq{name: "bad-utf8", frames: []wsgen.Frame{wsT(true, 2, 3, 0), {Fin: false, Op: 1, Payload: []byte("ab\xc0")}, {Fin: true, Op: 0, Payload: []byte("\xafcd")}, wsT(true, 1, 2, 1)}},
		wsSeq{name: "stray-continuation", frames: []wsgen.Frame{wsT(true, 0, 3, 0), wsT(true, 1, 2, 1)}},
		wsSeq{name: "text-in-fragmented", frames: []wsgen.Frame{wsT(false, 2, 3, 0), wsT(true, 1, 2, 1)}},
		wsSeq{name: "reserved-opcode", frames: []wsgen.Frame{wsT(false, 2, 3, 0), wsT(true, 11, 2, 1)}},
		wsSeq{name: "close-bad-code", frames: []wsgen.Frame{wsT(false, 2, 3, 0), wsClose(1005, "x")}},
		wsSeq{name: "close-bad-utf8", frames: []wsgen.Frame{wsClose(1000, "\xc0\xaf"), wsT(true, 1, 2, 1)}},
		wsSeq{name: "close-len1", frames: []wsgen.Frame{{Fin: true, Op: 8, Payload: []byte{3}}, wsT(true, 1, 2, 1)}},
		wsSeq{name: "ping-126", frames: []wsgen.Frame{wsT(false, 2, 3, 0), wsT(true, 9, 126, 1)}},
		wsSeq{name: "len-topbit", frames: []wsgen.Frame{wsT(true, 2, 3, 0), {Fin: true, Op: 2, Payload: []byte("abc"), Form: wsgen.Form64, HasDecl: true, Decl: 1<<63 | 3}}},
	)
	// size limits (L = 10)
	bomb := wsgen.Deflate(make([]byte, 5000), 9)
	z11 := wsgen.Deflate(wsgen.Marked(11, 1), 1)
	out = append(out,
		wsSeq{name: "limit-single-11", limit: 10, frames: []wsgen.Frame{wsT(true, 2, 4, 0), wsT(true, 1, 11, 1)}},
		wsSeq{name: "limit-fragments-6+5", limit: 10, frames: []wsgen.Frame{wsT(false, 2, 6, 0), wsT(true, 9, 1, 1), wsT(true, 0, 5, 2)}},
		wsSeq{name: "limit-fragments-10", limit: 10, frames: []wsgen.Frame{wsT(false, 2, 6, 0), wsT(true, 0, 4, 2), wsT(true, 1, 10, 3)}},
		wsSeq{name: "limit-bomb", limit: 10, comp: true, frames: []wsgen.Frame{wsT(true, 2, 4, 0), {Fin: true, Rsv1: true, Op: 2, Payload: bomb[:min(len(bomb), 10)]}}},
		wsSeq{name: "limit-bomb-fragmented", limit: 40, comp: true, frames: []wsgen.Frame{{Fin: false, Rsv1: true, Op: 2, Payload: bomb[:len(bomb)/2]}, {Fin: true, Op: 0, Payload: bomb[len(bomb)/2:]}}},
		wsSeq{name: "limit-inflate-11", limit: 10, comp: true, frames: []wsgen.Frame{{Fin: true, Rsv1: true, Op: 2, Payload: z11[:min(len(z11), 10)]}}},
	)
	return out
}

type wsInput struct {
	Name     string    `json:"sequence"`
	Wire     string    `json:"wire_hex"`
	Cfg      wsgen.Cfg `json:"cfg"`
	Seg      wsgen.Seg `json:"seg"`
	CloseCut bool      `json:"close_at_cut"` // CloseAndClean after the first piece, second piece still delivered
}

func (in *wsInput) String() string {
	return fmt.Sprintf("ws sequence %q cfg=%+v seg=%s%v close-at-cut=%v", in.Name, in.Cfg, in.Seg.Kind, in.Seg.Cuts, in.CloseCut)
}

type wsOutcome struct {
	viol      []string
	sigs      []string
	descs     []string
	mallocs   int
	frees     int
	events    int
	failed    bool
	panics    int
	callbacks int
	writes    int
	calls     int
	states    int
	// content oracle
	tailChecks, tailDiffs int // cache compared with the input tail / differing in something that is not poison
	msgChecks, msgDiffs   int // message under assembly compared with the frames fed / differing without poison
	reported              int // callback payloads and connection writes searched for poison
	dangling              int
	guarded               bool
}

// wsOracle is the content oracle of the WebSocket feeds. The allocator never recycles memory and
// overwrites a buffer with the poison byte when it is freed, so a poison byte in what the Conn
// retains between two Parse calls (the unparsed input cache, the message under assembly) or
// reports (callback payloads, bytes written to the connection) that is not in the input at that
// place was read out of a freed buffer - also when no allocator call or observation point sits
// between the Free and the read (free the cache, then copy the tail out of it).
//
//	cache:    always the tail of the bytes fed so far (consumed frames are removed from its front),
//	          byte for byte either as on the wire or unmasked (a complete frame is unmasked in place)
//	message:  after a Parse call that returned nil on an open Conn, the concatenated payloads of the
//	          data frames of the incomplete message among the frames completely fed
//	reports:  the k-th message / data frame / pong payload against the one the reference model
//	          (wsgen.Judge) expects at that place
//
// Only "poison and nothing else where it differs" counts: bytes that were transformed after the
// read (unmasked, inflated) or a parser that lost its place are not ownership matters here; guard
// mode (freed buffers inaccessible) sees those reads where they happen.
type wsOracle struct {
	ep     *wsgen.Endpoint
	wire   []byte
	plain  []byte // the wire with every payload unmasked
	frames []wsgen.Frame
	ends   []int             // end offset of frames[i] on the wire
	expect map[byte][][]byte // kind -> payloads the reference model expects to be reported, in order
	nKind  map[byte]int      // kind -> reported so far
	nEv    int
	seen   bool
	o      *wsOutcome
}

func newWsOracle(ep *wsgen.Endpoint, wire []byte, cfg wsgen.Cfg, o *wsOutcome) *wsOracle {
	x := &wsOracle{ep: ep, wire: wire, plain: append([]byte{}, wire...), o: o, expect: map[byte][][]byte{}, nKind: map[byte]int{}}
	frames, w, _ := wsgen.ParseFrames(wire) // on a structural error: the frames before it
	for i := range frames {
		if w == nil || i >= len(w.Starts) {
			frames = frames[:i]
			break
		}
		at := w.Starts[i] + w.Hdrs[i]
		if at+len(frames[i].Payload) > len(wire) {
			frames = frames[:i]
			break
		}
		copy(x.plain[at:], frames[i].Payload)
		x.ends = append(x.ends, at+len(frames[i].Payload))
	}
	x.frames = frames
	// what the reference model expects the endpoint to report: messages, pongs (ping / close
	// handlers are the defaults here) and, for OnDataFrame, every non-empty data frame payload as it
	// is on the wire (still compressed)
	v := wsgen.Judge(frames, wsgen.Rules{Compression: cfg.Compress, ToServer: !cfg.Client})
	for _, e := range v.Events {
		if e.Kind == 'M' || e.Kind == 'O' {
			x.expect[e.Kind] = append(x.expect[e.Kind], e.Payload)
		}
	}
	for i := range frames {
		if v.Offender >= 0 && i >= v.Offender {
			break
		}
		if f := &frames[i]; !f.IsControl() && len(f.Payload) > 0 {
			x.expect['F'] = append(x.expect['F'], f.Payload)
		}
	}
	return x
}

// onlyPoisonDiffers reports whether got and want have the same length and differ, and got has the
// poison byte at every differing position: what a copy out of a freed buffer looks like. Bytes
// that went through a transformation after the read (unmasking, inflating) or a parser that lost
// its place look different and are not an ownership matter (guard mode sees those reads).
func onlyPoisonDiffers(got, want []byte) bool {
	if len(got) != len(want) {
		return false
	}
	diff := false
	for i := range got {
		if got[i] != want[i] {
			if got[i] != track.PoisonByte {
				return false
			}
			diff = true
		}
	}
	return diff
}

func bytesHas(b []byte, c byte) bool {
	for _, x := range b {
		if x == c {
			return true
		}
	}
	return false
}

func (x *wsOracle) poison(data []byte, where, detail string) {
	if !x.seen { // first observation only: the later ones are its consequences
		x.seen = x.ep.T.PoisonRead(data, where, detail)
	}
}

// after runs after every Parse call; fed = bytes handed to Parse so far, err = what it returned.
func (x *wsOracle) after(call, fed int, err error) {
	t := x.ep.T
	hc, hm := x.ep.C.VerifSeqHandles()
	if hc != nil && track.Overlaps(*hc, x.ep.LastPiece) {
		t.Note("read-buffer-retained", "read-buffer-retained use=Conn.bytesCached",
			fmt.Sprintf("the Conn's input cache lies in the read buffer the caller passed to Parse and reuses for the next read (the Conn keeps memory it does not own), after Parse call %d", call+1))
	}
	if hc != nil && t.IsFreed(hc) {
		// a pointer to a released buffer that is kept but (so far) not used is not a violation
		x.o.dangling++
	} else if hc != nil && len(*hc) > 0 && len(*hc) <= fed {
		cached := *hc
		x.o.tailChecks++
		w1, w2 := x.wire[fed-len(cached):fed], x.plain[fed-len(cached):fed]
		poisonAt, other := -1, -1
		for i, c := range cached {
			switch {
			case c == w1[i] || c == w2[i]:
			case c == track.PoisonByte:
				if poisonAt < 0 {
					poisonAt = i
				}
			default:
				other = i
			}
		}
		// poison and nothing else where the cache differs from the input: a copy out of a freed buffer
		if poisonAt >= 0 && other < 0 {
			x.poison(cached, "Conn.bytesCached", fmt.Sprintf(" after Parse call %d (%d bytes fed; cache % x, input tail % x)", call+1, fed, cached[:min(len(cached), 24)], w1[:min(len(w1), 24)]))
		}
		if other >= 0 {
			x.o.tailDiffs++ // not (only) poison: not judged here
		}
	}
	if hm != nil && track.Overlaps(*hm, x.ep.LastPiece) {
		t.Note("read-buffer-retained", "read-buffer-retained use=Conn.message",
			fmt.Sprintf("the message under assembly lies in the read buffer the caller passed to Parse and reuses for the next read (after Parse call %d)", call+1))
	}
	if hm != nil && t.IsFreed(hm) {
		x.o.dangling++
	} else if err == nil && !x.ep.Fake.Closed && !x.ep.Cleaned && !x.ep.Cfg.NoOnMessage {
		var want []byte
		for i := range x.frames {
			if x.ends[i] > fed {
				break
			}
			if f := &x.frames[i]; !f.IsControl() {
				want = append(want, f.Payload...)
				if f.Fin {
					want = want[:0]
				}
			}
		}
		var got []byte
		if hm != nil {
			got = *hm
		}
		x.o.msgChecks++
		if onlyPoisonDiffers(got, want) {
			x.poison(got, "Conn.message", fmt.Sprintf(" after Parse call %d (%d bytes fed; message under assembly % x, frames fed % x)", call+1, fed, got[:min(len(got), 24)], want[:min(len(want), 24)]))
		} else if !bytes.Equal(got, want) {
			x.o.msgDiffs++
		}
	}
	x.reports()
}

// reports compares what was reported since the last call with what the reference model expects
// at that place (the k-th message, the k-th data frame, the k-th pong).
func (x *wsOracle) reports() {
	for ; x.nEv < len(x.ep.Events); x.nEv++ {
		e := &x.ep.Events[x.nEv]
		k := x.nKind[e.Kind]
		x.nKind[e.Kind]++
		if k >= len(x.expect[e.Kind]) {
			continue
		}
		x.o.reported++
		if onlyPoisonDiffers(e.Payload, x.expect[e.Kind][k]) {
			where := map[byte]string{'M': "OnMessage", 'F': "OnDataFrame", 'O': "PongHandler"}[e.Kind]
			x.poison(nil, where, fmt.Sprintf(" (%s, expected %q)", e.String(), x.expect[e.Kind][k][:min(len(x.expect[e.Kind][k]), 24)]))
		}
	}
}

func wsRun(in *wsInput) (o *wsOutcome) {
	wire, _ := hex.DecodeString(in.Wire)
	cfg := in.Cfg
	cfg.Observe = true
	ep := wsgen.NewEndpoint(cfg)
	ep.Scribble = true
	o = &wsOutcome{}
	x := newWsOracle(ep, wire, cfg, o)
	if ep.T.Guarded() {
		// guard mode: a touch of a freed buffer faults; inside Conn.Parse and the executor nbio (or the
		// harness' executor) recovers and logs it, around everything else this does
		debug.SetPanicOnFault(true)
		defer ep.Release()
		defer func() {
			if v := recover(); v != nil {
				addr, ok := track.FaultAddr(v)
				if !ok || !ep.T.Fault(addr, track.FaultSite(string(debug.Stack()))) {
					panic(v)
				}
				for _, tv := range ep.T.Violations() {
					o.sigs = append(o.sigs, tv.Sig)
					o.descs = append(o.descs, tv.Desc)
				}
			}
		}()
	}
	feed := func(w []byte, seg wsgen.Seg) *wsgen.FeedResult {
		var his []int
		seg.Pieces(len(w), func(lo, hi int) bool { his = append(his, hi); return true })
		return ep.Feed(w, seg, func(call int, st websocket.VerifSeqState) string {
			x.after(call, his[call], ep.LastErr)
			return ""
		})
	}
	if in.CloseCut && len(in.Seg.Cuts) >= 1 {
		// the pieces before the last cut are fed as usual, then the connection is cleaned up and the
		// last piece still arrives (a read already in flight)
		k := len(in.Seg.Cuts) - 1
		c := in.Seg.Cuts[k]
		r := feed(wire[:c:c], wsgen.Seg{Kind: in.Seg.Kind, Cuts: in.Seg.Cuts[:k]})
		if !ep.Cleaned {
			ep.Clean(r.Err)
		}
		_ = ep.C.Parse(append([]byte(nil), wire[c:]...)) // must be refused without touching released buffers
		ep.C.CloseAndClean(nil)                          // a second cleanup must be harmless
		o.calls, o.states = r.Calls+1, r.States+1
		o.panics = len(r.Panics) + len(wsgen.DrainLog())
	} else {
		r := feed(wire, in.Seg)
		if !ep.Cleaned {
			ep.Clean(nil) // the connection goes away at the end of every case
		}
		o.failed = r.Failed()
		o.panics = len(r.Panics)
		o.calls, o.states = r.Calls, r.States
	}
	x.reports()
	for _, v := range ep.T.Violations() {
		o.sigs = append(o.sigs, v.Sig)
		o.descs = append(o.descs, v.Desc)
	}
	o.mallocs, o.frees = ep.T.Mallocs, ep.T.Frees
	o.callbacks = len(ep.Events)
	o.writes = len(ep.Fake.Writes)
	o.guarded = ep.T.Guarded()
	return o
}

func wsAccount(p *vkit.Part, o *wsOutcome, scenario string, in interface{}, what string) {
	p.Case(o.mallocs > 0 && o.frees > 0, o.states, o.calls)
	p.Count("ws_runs", 1)
	p.Count("ws_mallocs", o.mallocs)
	p.Count("ws_frees", o.frees)
	if o.panics > 0 {
		p.Count("ws_runs_with_recovered_panic", 1)
	}
	if o.failed {
		p.Count("ws_runs_ending_in_failure", 1)
	}
	p.Count(fmt.Sprintf("ws_runs_with_%d_reads", min(o.calls, 5)), 1)
	p.Count("ws_retained_cache_compared_with_input", o.tailChecks)
	p.Count("ws_retained_cache_differs_from_input_without_poison(C12)", o.tailDiffs)
	p.Count("ws_message_under_assembly_compared_with_frames_fed", o.msgChecks)
	p.Count("ws_message_under_assembly_differs_without_poison(C12)", o.msgDiffs)
	p.Count("ws_reported_payloads_compared_with_the_reference_model", o.reported)
	p.Count("ws_conn_keeping_a_released_buffer_pointer(not_judged)", o.dangling)
	if o.guarded {
		p.Count("ws_runs_with_guard_pages", 1)
	}
	for i, s := range o.sigs {
		p.Report(s, what+"\n  "+o.descs[i], scenario, in)
	}
	if len(o.sigs) > 0 {
		p.Count("ws_runs_with_violation", 1)
	}
}

type allocVar struct {
	policy int
	move   bool
	guard  bool // freed buffers inaccessible instead of poisoned (track guard mode)
}

// wsAllocs are the allocator variants of the main space (one and two reads, byte at a time, all
// configurations and faults): exact capacity, pooled capacity with recycled contents, exact
// capacity with a moving Append - in poison mode - and the last one in guard mode (thorough: also
// plain pooled capacity, which has the capacities of the recycled-contents variant, and recycled
// contents in guard mode).
func wsAllocs(thorough bool) []allocVar {
	vs := []allocVar{{0, false, false}, {2, false, false}, {0, true, false}, {0, true, true}}
	if thorough {
		vs = append(vs, allocVar{1, false, false}, allocVar{2, false, true})
	}
	return vs
}

// wsMultiAllocs: the variants of the three- and four-read feeds - moving Append in poison mode,
// recycled contents and moving Append in guard mode.
var wsMultiAllocs = []allocVar{{0, true, false}, {2, false, true}, {0, true, true}}

// wsSendAllocs: the sender side (poison mode; WriteMessage has no recover of its own).
var wsSendAllocs = []allocVar{{0, false, false}, {1, false, false}, {2, false, false}, {0, true, false}}

func wsPart(tier string, sh *vkit.Shard, p *vkit.Part) {
	thorough := tier == "thorough"
	seqs := wsSequences()
	for _, s := range seqs {
		for _, server := range []bool{true, false} {
			for _, av := range wsAllocs(thorough) {
				fr := append([]wsgen.Frame{}, s.frames...)
				for i := range fr {
					fr[i].Masked = server
					fr[i].Key = [4]byte{0x11, 0x22 + byte(i), 0x33, 0x44}
				}
				w := wsgen.Encode(fr)
				wireHex := hex.EncodeToString(w.Bytes)
				n := len(w.Bytes)
				// work item: one sequence, one role, one allocator variant: all configurations, faults,
				// one and two reads, byte at a time
				if !sh.Mine() {
					continue
				}
				sampled := false
				for _, rp := range []bool{false, true} {
					for _, mode := range []string{"execute", "blocking", "execute-false"} {
						for _, h := range []string{"msg", "both", "frame"} {
							base := wsgen.Cfg{Client: !server, Compress: s.comp, Level: 1, L: s.limit, Policy: av.policy, Move: av.move, Guard: av.guard,
								ReleasePayload: rp, Blocking: mode == "blocking", ExecuteFalse: mode == "execute-false",
								NoOnMessage: h == "frame", OnDataFrame: h != "msg"}
							run := func(cfg wsgen.Cfg, seg wsgen.Seg, closeCut bool) *wsOutcome {
								in := &wsInput{Name: s.name, Wire: wireHex, Cfg: cfg, Seg: seg, CloseCut: closeCut}
								o := wsRun(in)
								wsAccount(p, o, "ws-feed", in, in.String())
								return o
							}
							// one piece, plain; it tells how many callbacks and writes there are
							ref := run(base, wsgen.Seg{Kind: "one"}, false)
							p.Outcome(fmt.Sprintf("ws %s failed=%v callbacks=%d writes=%d viol=%d", s.name, ref.failed, ref.callbacks, ref.writes, len(ref.sigs)))
							// cleanup right after the closing handler
							cah := base
							cah.CloseAfterHandler = true
							run(cah, wsgen.Seg{Kind: "one"}, false)
							// the k-th callback panics
							for k := 1; k <= ref.callbacks; k++ {
								c := base
								c.PanicAtEvent = k
								run(c, wsgen.Seg{Kind: "one"}, false)
								if thorough {
									run(c, wsgen.Seg{Kind: "chunk", Chunk: 1}, false)
								}
							}
							// the k-th conn write fails
							for k := 1; k <= ref.writes; k++ {
								c := base
								c.FailWriteAt = k
								run(c, wsgen.Seg{Kind: "one"}, false)
							}
							// every single cut, with and without CloseAndClean at the cut
							if mode == "execute-false" && !thorough {
								continue
							}
							for cut := 1; cut < n; cut++ {
								if n > 400 && !thorough && cut > 40 && cut < n-40 && cut%7 != 0 {
									continue // long wires (quick tier): every 7th cut in the middle
								}
								run(base, wsgen.Seg{Kind: "cut1", Cuts: []int{cut}}, false)
								run(base, wsgen.Seg{Kind: "cut1", Cuts: []int{cut}}, true)
							}
							run(base, wsgen.Seg{Kind: "chunk", Chunk: 1}, false)
							if !sampled {
								sampled = true
								p.Sample(map[string]interface{}{"space": "ws", "sequence": s.name, "wire_bytes": n, "server": server, "callbacks": ref.callbacks, "writes": ref.writes})
							}
						}
					}
				}
			}
		}
	}

	// ---- three and four reads (the sequences with an injected reserved bit only in the thorough
	// tier: they fail at the marked frame and add no cache transition before it)
	for _, s := range seqs {
		if strings.Contains(s.name, "/rsv2@") && !thorough {
			continue
		}
		for _, server := range []bool{true, false} {
			for _, av := range wsMultiAllocs {
				// work item: one sequence, one role, one allocator variant
				if !sh.Mine() {
					continue
				}
				fr := append([]wsgen.Frame{}, s.frames...)
				for i := range fr {
					fr[i].Masked = server
					fr[i].Key = [4]byte{0x11, 0x22 + byte(i), 0x33, 0x44}
				}
				w := wsgen.Encode(fr)
				wsMultiCut(p, s, w, hex.EncodeToString(w.Bytes), server, av, thorough)
			}
		}
	}

	// ---- sender side
	type sendMsg struct {
		Type int `json:"type"`
		Len  int `json:"len"`
	}
	programs := [][]sendMsg{
		{{1, 5}, {9, 2}, {2, 10}, {8, 2}},
		{{2, 0}, {1, 7}, {10, 0}},
		{{1, 300}, {8, 10}},
	}
	for pi, prog := range programs {
		for _, client := range []bool{false, true} {
			for _, comp := range []bool{false, true} {
				for _, av := range wsSendAllocs {
					if !sh.Mine() {
						continue
					}
					// first without failure to learn the number of writes
					nw := 0
					for fail := 0; fail <= nw; fail++ {
						in := &wsSendInput{Program: pi, Client: client, Comp: comp, Policy: av.policy, Move: av.move, FailAt: fail}
						for _, m := range prog {
							in.Msgs = append(in.Msgs, [2]int{m.Type, m.Len})
						}
						o := wsSend(in)
						if fail == 0 {
							nw = o.writes
						}
						wsAccount(p, o, "ws-send", in, fmt.Sprintf("ws send program %d client=%v comp=%v alloc=%d move=%v fail-write@%d", pi, client, comp, av.policy, av.move, fail))
					}
				}
			}
		}
	}
}

// wsMultiCut feeds the wire in three and four reads: the input cache is created by a read that
// ends inside a frame, appended to by the next one, compacted when that read completes a frame and
// leaves a tail again, appended to again ... - transitions that one cut (create, append, release)
// and the byte-at-a-time feed (append, release) do not reach. Cut positions are the structural
// ones (every offset inside and just after each frame header, the last two bytes of each frame,
// the frame boundaries): every pair within a window of 10 consecutive positions and every triple
// within 6 (thorough: 24 / 10), with the connection cleaned up at the end or right at the last
// cut. Configurations: ReleasePayload on/off x {OnMessage+OnDataFrame, OnMessage only (thorough:
// also OnDataFrame only)}, executor mode (thorough: blocking mode too).
func wsMultiCut(p *vkit.Part, s wsSeq, w *wsgen.Wire, wireHex string, server bool, av allocVar, thorough bool) {
	st := w.Structural(0)
	pw, tw := 10, 6
	handlers := []string{"both", "msg"}
	modes := []string{"execute"}
	if thorough {
		pw, tw = 24, 10
		handlers = []string{"both", "msg", "frame"}
		modes = []string{"execute", "blocking"}
	}
	for _, rp := range []bool{false, true} {
		for _, mode := range modes {
			for _, h := range handlers {
				cfg := wsgen.Cfg{Client: !server, Compress: s.comp, Level: 1, L: s.limit, Policy: av.policy, Move: av.move, Guard: av.guard,
					ReleasePayload: rp, Blocking: mode == "blocking", NoOnMessage: h == "frame", OnDataFrame: h != "msg"}
				run := func(kind string, cuts ...int) {
					for _, closeCut := range []bool{false, true} {
						in := &wsInput{Name: s.name, Wire: wireHex, Cfg: cfg, Seg: wsgen.Seg{Kind: kind, Cuts: cuts}, CloseCut: closeCut}
						wsAccount(p, wsRun(in), "ws-feed", in, in.String())
					}
				}
				for i := range st {
					for j := i + 1; j < min(len(st), i+pw); j++ {
						run("cut2", st[i], st[j])
					}
					hi := min(len(st), i+tw)
					for j := i + 1; j < hi; j++ {
						for k := j + 1; k < hi; k++ {
							run("cut3", st[i], st[j], st[k])
						}
					}
				}
			}
		}
	}
}

type wsSendInput struct {
	Program int      `json:"program"`
	Msgs    [][2]int `json:"msgs"`
	Client  bool     `json:"client"`
	Comp    bool     `json:"comp"`
	Policy  int      `json:"policy"`
	Move    bool     `json:"move"`
	FailAt  int      `json:"fail_at"`
}

func wsSend(in *wsSendInput) *wsOutcome {
	vrand.Reset()
	ep := wsgen.NewEndpoint(wsgen.Cfg{Client: in.Client, Compress: in.Comp, Level: 1, F: 3, Policy: in.Policy, Move: in.Move, Observe: true, FailWriteAt: in.FailAt})
	o := &wsOutcome{}
	for _, m := range in.Msgs {
		var pl []byte
		if m[0] == 8 && m[1] >= 2 {
			pl = append([]byte{0x03, 0xe8}, wsgen.Marked(m[1]-2, 1)...)
		} else {
			pl = wsgen.Marked(m[1], 2)
		}
		_ = ep.C.WriteMessage(websocket.MessageType(m[0]), pl)
		o.calls++
	}
	ep.Clean(nil)
	o.states = 1
	o.panics = len(wsgen.DrainLog())
	if !in.Client && !in.Comp {
		// a server writes unmasked frames: header bytes of these short frames and the payloads (ASCII)
		// never contain the poison byte, so on the wire it was read out of a freed buffer
		for _, w := range ep.Fake.Writes {
			o.reported++
			if bytesHas(w, track.PoisonByte) {
				ep.T.PoisonRead(nil, "conn.Write", fmt.Sprintf(" (% x)", w[:min(len(w), 24)]))
				break
			}
		}
	}
	for _, v := range ep.T.Violations() {
		o.sigs = append(o.sigs, v.Sig)
		o.descs = append(o.descs, v.Desc)
	}
	o.mallocs, o.frees = ep.T.Mallocs, ep.T.Frees
	o.writes = len(ep.Fake.Writes)
	return o
}

func wsReplay(raw json.RawMessage) string {
	var in wsInput
	if err := json.Unmarshal(raw, &in); err != nil {
		return "bad replay input: " + err.Error()
	}
	o := wsRun(&in)
	fmt.Printf("case: %s\nParse calls=%d failed=%v callbacks=%d conn writes=%d recovered panics=%d allocator: %d mallocs %d frees\n",
		in.String(), o.calls, o.failed, o.callbacks, o.writes, o.panics, o.mallocs, o.frees)
	out := ""
	for i := range o.sigs {
		out += o.sigs[i] + " | " + o.descs[i] + "\n"
	}
	return out
}

func wsSendReplay(raw json.RawMessage) string {
	var in wsSendInput
	if err := json.Unmarshal(raw, &in); err != nil {
		return "bad replay input: " + err.Error()
	}
	o := wsSend(&in)
	fmt.Printf("send case %+v: conn writes=%d allocator: %d mallocs %d frees\n", in, o.writes, o.mallocs, o.frees)
	out := ""
	for i := range o.sigs {
		out += o.sigs[i] + " | " + o.descs[i] + "\n"
	}
	return out
}

package main

import (
	"encoding/binary"
	"encoding/hex"
	"encoding/json"
	"fmt"

	"github.com/lesismal/nbio/nbhttp/websocket"

	"verif/seqx/wsgen"
	"verif/vkit"
	"verif/vshim/vrand"
)

// Space 3: WebSocket frame / message sequences (DESIGN §4 C11 item 3). A fixed set of frame
// sequences - legal ones (text, fragmented binary with interleaved ping/pong, compressed and
// compressed-fragmented messages, close), every legal sequence with an RFC violation injected at
// every frame position ("errors at every frame"), size-limit violations (single, fragmented,
// decompression bomb), illegal close frames, oversized control frames - is fed to a real
// websocket.Conn through Conn.Parse:
//
//	receiver configuration: role x ReleasePayload on/off x blocking-mode (callbacks through
//	  Engine.SyncCall) or executor mode (Conn.Execute; also an executor that refuses every job) x
//	  handler set {OnMessage, OnMessage+OnDataFrame, OnDataFrame} x 4 allocator variants
//	  (exact, pooled, stale, exact+moving Append);
//	segmentation: one piece and every single cut; for every cut additionally CloseAndClean right
//	  at the cut with the second piece still delivered (a read already in flight);
//	faults: the k-th callback panics (every k), the k-th connection write fails (every k), the
//	  connection is cleaned up right after the handler that closed it or after Parse returns.
//
// Sender side: WriteMessage sequences (text, binary, ping, close; compression on/off; frame
// limit 3 so that messages fragment) with the k-th connection write failing, for every k.
//
// Observation points of the ownership monitor: the fake conn's Write, OnMessage, OnDataFrame.

func init() {
	register(wsPart)
	registerReplay("ws-feed", wsReplay)
	registerReplay("ws-send", wsSendReplay)
	rules = append(rules, "[ws] every frame sequence of a fixed set (legal sequences incl. fragmented/compressed messages and interleaved control frames; each of them with a reserved bit injected at every frame position; over-limit single/fragmented/compressed messages; illegal close frames; oversized control frames) x receiver configuration (role, ReleasePayload on/off, blocking or executor mode, refusing executor, handler set, 4 allocator variants) x {one piece, every single cut, CloseAndClean at every cut} x {k-th callback panics, k-th conn write fails, cleanup after handler/after Parse}; sender: WriteMessage sequences x compression x k-th conn write fails;")
	assumptions = append(assumptions, "[ws] callbacks copy what they keep (with ReleasePayload the payload belongs to nbio after the callback returns); after Parse fails or the implementation closed the conn the harness calls CloseAndClean once and stops feeding, except in the close-at-cut cases where the next piece is still passed to Parse")
}

type wsSeq struct {
	name   string
	frames []wsgen.Frame
	comp   bool
	limit  int
}

func wsT(fin bool, op byte, n, mark int) wsgen.Frame {
	return wsgen.Frame{Fin: fin, Op: op, Payload: wsgen.Marked(n, mark)}
}

func wsClose(code int, reason string) wsgen.Frame {
	b := make([]byte, 2, 2+len(reason))
	binary.BigEndian.PutUint16(b, uint16(code))
	return wsgen.Frame{Fin: true, Op: wsgen.OpClose, Payload: append(b, reason...)}
}

func wsSequences() []wsSeq {
	var out []wsSeq
	legal := []wsSeq{
		{name: "text+ping+fragmented+pong+close", frames: []wsgen.Frame{wsT(true, 1, 5, 0), wsT(true, 9, 2, 1), wsT(false, 2, 3, 2), wsT(true, 10, 1, 3), wsT(false, 0, 0, 4), wsT(true, 0, 4, 5), wsClose(1000, "bye")}},
		{name: "empty+text+close1001", frames: []wsgen.Frame{wsT(true, 1, 0, 0), wsT(true, 2, 7, 1), wsT(true, 9, 0, 2), wsClose(1001, "")}},
		{name: "two-messages", frames: []wsgen.Frame{wsT(true, 2, 130, 0), wsT(false, 1, 2, 1), wsT(true, 0, 2, 2)}},
	}
	z1 := wsgen.Deflate(wsgen.Marked(40, 1), 1)
	z2 := wsgen.Deflate(wsgen.Marked(300, 2), 9)
	comp := []wsSeq{
		{name: "compressed+compressed-fragmented", comp: true, frames: []wsgen.Frame{
			{Fin: true, Rsv1: true, Op: 1, Payload: z1}, wsT(true, 9, 2, 3),
			{Fin: false, Rsv1: true, Op: 2, Payload: z2[:len(z2)/2]}, wsT(true, 10, 0, 4), {Fin: true, Op: 0, Payload: z2[len(z2)/2:]},
			wsT(true, 1, 3, 5), wsClose(1000, "")}},
		{name: "compressed-garbage", comp: true, frames: []wsgen.Frame{{Fin: true, Rsv1: true, Op: 2, Payload: []byte{0xff, 0xfe, 0x12, 0x34, 0x56}}, wsT(true, 1, 3, 1)}},
		{name: "compressed-zero-length", comp: true, frames: []wsgen.Frame{{Fin: true, Rsv1: true, Op: 1}, wsT(true, 1, 3, 1)}},
	}
	out = append(out, legal...)
	out = append(out, comp...)
	// errors at every frame: a reserved bit on frame k
	for _, s := range append(append([]wsSeq{}, legal...), comp[0]) {
		for k := range s.frames {
			fr := append([]wsgen.Frame{}, s.frames...)
			fr[k].Rsv2 = true
			out = append(out, wsSeq{name: fmt.Sprintf("%s/rsv2@%d", s.name, k), frames: fr, comp: s.comp})
		}
	}
	// protocol errors detected at message level
	out = append(out,
		wsSeq{name: "bad-utf8", frames: []wsgen.Frame{wsT(true, 2, 3, 0), {Fin: false, Op: 1, Payload: []byte("ab\xc0")}, {Fin: true, Op: 0, Payload: []byte("\xafcd")}, wsT(true, 1, 2, 1)}},
		wsSeq{name: "stray-continuation", frames: []wsgen.Frame{wsT(true, 0, 3, 0), wsT(true, 1, 2, 1)}},
		wsSeq{name: "text-in-fragmented", frames: []wsgen.Frame{wsT(false, 2, 3, 0), wsT(true, 1, 2, 1)}},
		wsSeq{name: "reserved-opcode", frames: []wsgen.Frame{wsT(false, 2, 3, 0), wsT(true, 11, 2, 1)}},
		wsSeq{name: "close-bad-code", frames: []wsgen.Frame{wsT(false, 2, 3, 0), wsClose(1005, "x")}},
		wsSeq{name: "close-bad-utf8", frames: []wsgen.Frame{wsClose(1000, "\xc0\xaf"), wsT(true, 1, 2, 1)}},
		wsSeq{name: "close-len1", frames: []wsgen.Frame{{Fin: true, Op: 8, Payload: []byte{3}}, wsT(true, 1, 2, 1)}},
		wsSeq{name: "ping-126", frames: []wsgen.Frame{wsT(false, 2, 3, 0), wsT(true, 9, 126, 1)}},
		wsSeq{name: "len-topbit", frames: []wsgen.Frame{wsT(true, 2, 3, 0), {Fin: true, Op: 2, Payload: []byte("abc"), Form: wsgen.Form64, HasDecl: true, Decl: 1<<63 | 3}}},
	)
	// size limits (L = 10)
	bomb := wsgen.Deflate(make([]byte, 5000), 9)
	z11 := wsgen.Deflate(wsgen.Marked(11, 1), 1)
	out = append(out,
		wsSeq{name: "limit-single-11", limit: 10, frames: []wsgen.Frame{wsT(true, 2, 4, 0), wsT(true, 1, 11, 1)}},
		wsSeq{name: "limit-fragments-6+5", limit: 10, frames: []wsgen.Frame{wsT(false, 2, 6, 0), wsT(true, 9, 1, 1), wsT(true, 0, 5, 2)}},
		wsSeq{name: "limit-fragments-10", limit: 10, frames: []wsgen.Frame{wsT(false, 2, 6, 0), wsT(true, 0, 4, 2), wsT(true, 1, 10, 3)}},
		wsSeq{name: "limit-bomb", limit: 10, comp: true, frames: []wsgen.Frame{wsT(true, 2, 4, 0), {Fin: true, Rsv1: true, Op: 2, Payload: bomb[:min(len(bomb), 10)]}}},
		wsSeq{name: "limit-bomb-fragmented", limit: 40, comp: true, frames: []wsgen.Frame{{Fin: false, Rsv1: true, Op: 2, Payload: bomb[:len(bomb)/2]}, {Fin: true, Op: 0, Payload: bomb[len(bomb)/2:]}}},
		wsSeq{name: "limit-inflate-11", limit: 10, comp: true, frames: []wsgen.Frame{{Fin: true, Rsv1: true, Op: 2, Payload: z11[:min(len(z11), 10)]}}},
	)
	return out
}

type wsInput struct {
	Name     string    `json:"sequence"`
	Wire     string    `json:"wire_hex"`
	Cfg      wsgen.Cfg `json:"cfg"`
	Seg      wsgen.Seg `json:"seg"`
	CloseCut bool      `json:"close_at_cut"` // CloseAndClean after the first piece, second piece still delivered
}

func (in *wsInput) String() string {
	return fmt.Sprintf("ws sequence %q cfg=%+v seg=%s%v close-at-cut=%v", in.Name, in.Cfg, in.Seg.Kind, in.Seg.Cuts, in.CloseCut)
}

type wsOutcome struct {
	viol      []string
	sigs      []string
	descs     []string
	mallocs   int
	frees     int
	events    int
	failed    bool
	panics    int
	callbacks int
	writes    int
	calls     int
	states    int
}

func wsRun(in *wsInput) *wsOutcome {
	wire, _ := hex.DecodeString(in.Wire)
	cfg := in.Cfg
	cfg.Observe = true
	ep := wsgen.NewEndpoint(cfg)
	o := &wsOutcome{}
	if in.CloseCut && len(in.Seg.Cuts) == 1 {
		c := in.Seg.Cuts[0]
		err := ep.C.Parse(wire[:c:c])
		ep.Clean(err)
		_ = ep.C.Parse(wire[c:]) // a read already in flight: must be refused without touching released buffers
		ep.C.CloseAndClean(nil)  // a second cleanup must be harmless
		o.calls, o.states = 2, 2
		o.panics = len(wsgen.DrainLog())
	} else {
		r := ep.Feed(wire, in.Seg, nil)
		if !ep.Cleaned {
			ep.Clean(nil) // the connection goes away at the end of every case
		}
		o.failed = r.Failed()
		o.panics = len(r.Panics)
		o.calls, o.states = r.Calls, r.States
	}
	for _, v := range ep.T.Violations() {
		o.sigs = append(o.sigs, v.Sig)
		o.descs = append(o.descs, v.Desc)
	}
	o.mallocs, o.frees = ep.T.Mallocs, ep.T.Frees
	o.callbacks = len(ep.Events)
	o.writes = len(ep.Fake.Writes)
	return o
}

func wsAccount(p *vkit.Part, o *wsOutcome, scenario string, in interface{}, what string) {
	p.Case(o.mallocs > 0 && o.frees > 0, o.states, o.calls)
	p.Count("ws_runs", 1)
	p.Count("ws_mallocs", o.mallocs)
	p.Count("ws_frees", o.frees)
	if o.panics > 0 {
		p.Count("ws_runs_with_recovered_panic", 1)
	}
	if o.failed {
		p.Count("ws_runs_ending_in_failure", 1)
	}
	for i, s := range o.sigs {
		p.Report(s, what+"\n  "+o.descs[i], scenario, in)
	}
	if len(o.sigs) > 0 {
		p.Count("ws_runs_with_violation", 1)
	}
}

type allocVar struct {
	policy int
	move   bool
}

var wsAllocs = []allocVar{{0, false}, {1, false}, {2, false}, {0, true}}

func wsPart(tier string, sh *vkit.Shard, p *vkit.Part) {
	thorough := tier == "thorough"
	seqs := wsSequences()
	for _, s := range seqs {
		for _, server := range []bool{true, false} {
			for _, av := range wsAllocs {
				// work item: one sequence, one role, one allocator variant: all configurations and segmentations
				if !sh.Mine() {
					continue
				}
				fr := append([]wsgen.Frame{}, s.frames...)
				for i := range fr {
					fr[i].Masked = server
					fr[i].Key = [4]byte{0x11, 0x22 + byte(i), 0x33, 0x44}
				}
				w := wsgen.Encode(fr)
				wireHex := hex.EncodeToString(w.Bytes)
				n := len(w.Bytes)
				sampled := false
				for _, rp := range []bool{false, true} {
					for _, mode := range []string{"execute", "blocking", "execute-false"} {
						for _, h := range []string{"msg", "both", "frame"} {
							base := wsgen.Cfg{Client: !server, Compress: s.comp, Level: 1, L: s.limit, Policy: av.policy, Move: av.move,
								ReleasePayload: rp, Blocking: mode == "blocking", ExecuteFalse: mode == "execute-false",
								NoOnMessage: h == "frame", OnDataFrame: h != "msg"}
							run := func(cfg wsgen.Cfg, seg wsgen.Seg, closeCut bool) *wsOutcome {
								in := &wsInput{Name: s.name, Wire: wireHex, Cfg: cfg, Seg: seg, CloseCut: closeCut}
								o := wsRun(in)
								wsAccount(p, o, "ws-feed", in, in.String())
								return o
							}
							// one piece, plain; it tells how many callbacks and writes there are
							ref := run(base, wsgen.Seg{Kind: "one"}, false)
							p.Outcome(fmt.Sprintf("ws %s failed=%v callbacks=%d writes=%d viol=%d", s.name, ref.failed, ref.callbacks, ref.writes, len(ref.sigs)))
							// cleanup right after the closing handler
							cah := base
							cah.CloseAfterHandler = true
							run(cah, wsgen.Seg{Kind: "one"}, false)
							// the k-th callback panics
							for k := 1; k <= ref.callbacks; k++ {
								c := base
								c.PanicAtEvent = k
								run(c, wsgen.Seg{Kind: "one"}, false)
								if thorough {
									run(c, wsgen.Seg{Kind: "chunk", Chunk: 1}, false)
								}
							}
							// the k-th conn write fails
							for k := 1; k <= ref.writes; k++ {
								c := base
								c.FailWriteAt = k
								run(c, wsgen.Seg{Kind: "one"}, false)
							}
							// every single cut, with and without CloseAndClean at the cut
							if mode == "execute-false" && !thorough {
								continue
							}
							for cut := 1; cut < n; cut++ {
								if n > 400 && !thorough && cut > 40 && cut < n-40 && cut%7 != 0 {
									continue // long wires (quick tier): every 7th cut in the middle
								}
								run(base, wsgen.Seg{Kind: "cut1", Cuts: []int{cut}}, false)
								run(base, wsgen.Seg{Kind: "cut1", Cuts: []int{cut}}, true)
							}
							run(base, wsgen.Seg{Kind: "chunk", Chunk: 1}, false)
							if !sampled {
								sampled = true
								p.Sample(map[string]interface{}{"space": "ws", "sequence": s.name, "wire_bytes": n, "server": server, "callbacks": ref.callbacks, "writes": ref.writes})
							}
						}
					}
				}
			}
		}
	}

	// ---- sender side
	type sendMsg struct {
		Type int `json:"type"`
		Len  int `json:"len"`
	}
	programs := [][]sendMsg{
		{{1, 5}, {9, 2}, {2, 10}, {8, 2}},
		{{2, 0}, {1, 7}, {10, 0}},
		{{1, 300}, {8, 10}},
	}
	for pi, prog := range programs {
		for _, client := range []bool{false, true} {
			for _, comp := range []bool{false, true} {
				for _, av := range wsAllocs {
					if !sh.Mine() {
						continue
					}
					// first without failure to learn the number of writes
					nw := 0
					for fail := 0; fail <= nw; fail++ {
						in := &wsSendInput{Program: pi, Client: client, Comp: comp, Policy: av.policy, Move: av.move, FailAt: fail}
						for _, m := range prog {
							in.Msgs = append(in.Msgs, [2]int{m.Type, m.Len})
						}
						o := wsSend(in)
						if fail == 0 {
							nw = o.writes
						}
						wsAccount(p, o, "ws-send", in, fmt.Sprintf("ws send program %d client=%v comp=%v alloc=%d move=%v fail-write@%d", pi, client, comp, av.policy, av.move, fail))
					}
				}
			}
		}
	}
}

type wsSendInput struct {
	Program int      `json:"program"`
	Msgs    [][2]int `json:"msgs"`
	Client  bool     `json:"client"`
	Comp    bool     `json:"comp"`
	Policy  int      `json:"policy"`
	Move    bool     `json:"move"`
	FailAt  int      `json:"fail_at"`
}

func wsSend(in *wsSendInput) *wsOutcome {
	vrand.Reset()
	ep := wsgen.NewEndpoint(wsgen.Cfg{Client: in.Client, Compress: in.Comp, Level: 1, F: 3, Policy: in.Policy, Move: in.Move, Observe: true, FailWriteAt: in.FailAt})
	o := &wsOutcome{}
	for _, m := range in.Msgs {
		var pl []byte
		if m[0] == 8 && m[1] >= 2 {
			pl = append([]byte{0x03, 0xe8}, wsgen.Marked(m[1]-2, 1)...)
		} else {
			pl = wsgen.Marked(m[1], 2)
		}
		_ = ep.C.WriteMessage(websocket.MessageType(m[0]), pl)
		o.calls++
	}
	ep.Clean(nil)
	o.states = 1
	o.panics = len(wsgen.DrainLog())
	for _, v := range ep.T.Violations() {
		o.sigs = append(o.sigs, v.Sig)
		o.descs = append(o.descs, v.Desc)
	}
	o.mallocs, o.frees = ep.T.Mallocs, ep.T.Frees
	o.writes = len(ep.Fake.Writes)
	return o
}

func wsReplay(raw json.RawMessage) string {
	var in wsInput
	if err := json.Unmarshal(raw, &in); err != nil {
		return "bad replay input: " + err.Error()
	}
	o := wsRun(&in)
	fmt.Printf("case: %s\nParse calls=%d failed=%v callbacks=%d conn writes=%d recovered panics=%d allocator: %d mallocs %d frees\n",
		in.String(), o.calls, o.failed, o.callbacks, o.writes, o.panics, o.mallocs, o.frees)
	out := ""
	for i := range o.sigs {
		out += o.sigs[i] + " | " + o.descs[i] + "\n"
	}
	return out
}

func wsSendReplay(raw json.RawMessage) string {
	var in wsSendInput
	if err := json.Unmarshal(raw, &in); err != nil {
		return "bad replay input: " + err.Error()
	}
	o := wsSend(&in)
	fmt.Printf("send case %+v: conn writes=%d allocator: %d mallocs %d frees\n", in, o.writes, o.mallocs, o.frees)
	out := ""
	for i := range o.sigs {
		out += o.sigs[i] + " | " + o.descs[i] + "\n"
	}
	return out
}

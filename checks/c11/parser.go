package main

import (
	"encoding/json"
	"fmt"
	"strings"

	"verif/seqx/respgen"
	"verif/track"
	"verif/vkit"
)

// Space 2: HTTP parser feeds. Every stream below is fed to a fresh parser (server side with the
// real ServerProcessor and a handler that looks at the body and answers; client side with the
// real ClientProcessor) as one piece and in every single-cut segmentation; for every cut the
// connection is closed either only at the end or right at the cut (with the second segment
// still delivered, as a read already in flight would be); streams containing an Upgrade hand the
// connection over to a stub ParserCloser in both engine styles (blocking: the parser is closed
// and cleaned after the hand-over; non-blocking: it is abandoned). The parser's cache buffer
// (allocated / appended / replaced / freed on every exit path), the request body buffers and
// the response writer's buffers all come from the tracking allocator.

func init() {
	register(parserPart)
	registerReplay("parser-feed", parserReplay)
	rules = append(rules, "[parser] every stream of a fixed set (requests: no body / Content-Length / chunked with trailers / pipelines / Upgrade followed by foreign bytes / malformed; responses alike) x {one piece, every single cut (thorough: every double cut of streams up to 140 bytes)} x {close at the end, close at the first cut} x {blocking, non-blocking hand-over style} x 4 allocator variants;")
	assumptions = append(assumptions, "[parser] after Parse returns an error the harness does what the engine does: CloseAndClean and no further feeds; bytes delivered after a close are still passed to Parse (it must refuse them without touching released buffers)")
}

var serverStreams = []string{
	"GET / HTTP/1.1\r\nHost: a\r\n\r\n",
	"POST /p HTTP/1.1\r\nHost: a\r\nContent-Length: 10\r\n\r\n0123456789",
	"POST /q HTTP/1.1\r\nHost: a\r\nContent-Length: 10\r\n\r\n0123456789",
	"POST /n HTTP/1.1\r\nHost: a\r\nContent-Length: 10\r\n\r\n0123456789",
	"POST /c HTTP/1.1\r\nHost: a\r\nTransfer-Encoding: chunked\r\nTrailer: X-T\r\n\r\n5\r\nhello\r\n6\r\n world\r\n0\r\nX-T: v\r\n\r\n",
	"POST /q HTTP/1.1\r\nHost: a\r\nTransfer-Encoding: chunked\r\n\r\n5\r\nhello\r\n6\r\n world\r\n0\r\n\r\n",
	"GET /1 HTTP/1.1\r\nHost: a\r\n\r\nPOST /p HTTP/1.1\r\nHost: a\r\nContent-Length: 4\r\n\r\nabcdGET /3 HTTP/1.1\r\nHost: a\r\n\r\n",
	"GET /a HTTP/1.0\r\n\r\nGET /b HTTP/1.1\r\nHost: a\r\n\r\n",
	"POST /big HTTP/1.1\r\nHost: a\r\nTransfer-Encoding: chunked\r\n\r\n7d0\r\n" + strings.Repeat("x", 2000) + "\r\n3\r\nabc\r\n0\r\n\r\n",
	"GET /ws HTTP/1.1\r\nHost: a\r\nConnection: Upgrade\r\nUpgrade: websocket\r\n\r\n\x81\x05hello\x81\x03abc",
	"POST /p HTTP/1.1\r\nHost: a\r\nContent-Length: 4\r\n\r\nabcdGET /ws HTTP/1.1\r\nHost: a\r\nUpgrade: websocket\r\n\r\n\x81\x05hello",
	// malformed
	"G=T / HTTP/1.1\r\nHost: a\r\n\r\n",
	"POST /c HTTP/1.1\r\nHost: a\r\nTransfer-Encoding: chunked\r\n\r\nzz\r\nhello\r\n",
	"POST /p HTTP/1.1\r\nHost: a\r\nContent-Length: 4\r\n\r\nabcd\x00\x01garbage\r\n\r\n",
	"GET / HTTP/1.1\rX-broken\r\n\r\n",
	"POST /p HTTP/1.1\r\nHost: a\r\nContent-Length: 4x\r\n\r\nabcd",
	"POST /c HTTP/1.1\r\nHost: a\r\nTransfer-Encoding: chunked\r\nTrailer: X-T\r\n\r\n3\r\nabc\r\n0\r\nX-Other v\r\n\r\n",
	"GET / HTTP/1.1\r\nHost: a\r\nBad Header\r\n\r\n",
}

var clientStreams = []string{
	"HTTP/1.1 200 OK\r\nContent-Length: 5\r\n\r\nhello",
	"HTTP/1.1 204 No Content\r\n\r\n",
	"HTTP/1.1 200 OK\r\nTransfer-Encoding: chunked\r\nTrailer: X-T\r\n\r\n5\r\nhello\r\n6\r\n world\r\n0\r\nX-T: v\r\n\r\n",
	"HTTP/1.1 200 OK\r\nContent-Length: 5\r\n\r\nhelloHTTP/1.1 404 Not Found\r\nTransfer-Encoding: chunked\r\n\r\n3\r\nabc\r\n0\r\n\r\n",
	"HTTP/1.1 101 Switching Protocols\r\nUpgrade: websocket\r\nConnection: Upgrade\r\n\r\n\x81\x05hello\x81\x03abc",
	// malformed
	"HTTP/1.1 2x0 OK\r\nContent-Length: 5\r\n\r\nhello",
	"HTTP/1.1 200 OK\r\nTransfer-Encoding: chunked\r\n\r\n5\r\nhelloXX\r\n",
	"XTTP/1.1 200 OK\r\n\r\n",
	"HTTP/1.1 200 OK\r\nContent-Length: 5\r\n\r\nhello\x00garbage",
}

type parserInput struct {
	Case   respgen.FeedCase `json:"case"`
	Policy int              `json:"policy"`
	Move   bool             `json:"move"`
	Text   string           `json:"text"`
}

func parserPart(tier string, sh *vkit.Shard, p *vkit.Part) {
	env := respgen.GetEnv()
	type base struct {
		client bool
		s      string
	}
	var bases []base
	for _, s := range serverStreams {
		bases = append(bases, base{false, s})
	}
	for _, s := range clientStreams {
		bases = append(bases, base{true, s})
	}
	for bi, b := range bases {
		for _, v := range allocVariants {
			// work item: one stream under one allocator variant, all its segmentations
			if !sh.Mine() {
				continue
			}
			stream := []byte(b.s)
			n := len(stream)
			var ref *respgen.FeedResult
			seen := map[string]bool{}
			runCase := func(c respgen.FeedCase) {
				r := env.RunFeeds(c, v)
				t := r.T
				sig := fmt.Sprintf("%v|%q|%v|%v", r.Seen, r.Stub, r.Errs, r.HandOver)
				st := 0
				if !seen[sig] {
					seen[sig] = true
					st = 1
				}
				p.Case(t.Mallocs > 0 && t.Frees > 0, st, len(c.Cuts)+1)
				p.Count("parser_runs", 1)
				p.Count("parser_mallocs", t.Mallocs)
				p.Count("parser_frees", t.Frees)
				p.Count("parser_appends", t.Appends)
				if r.CachedCut > 0 {
					p.Count("parser_runs_with_bytes_cached_at_first_cut", 1)
				}
				if r.HandOver {
					p.Count("parser_runs_with_upgrade_handover", 1)
					if len(r.Stub) > 0 {
						p.Count("parser_runs_handing_bytes_to_the_ParserCloser", 1)
					}
				}
				if len(r.Errs) > 0 {
					p.Count("parser_runs_with_parse_error", 1)
				}
				if r.Panic != "" {
					p.Count("parser_runs_with_recovered_panic(C08)", 1)
				}
				if r.Hang {
					p.Errorf("parser: run did not return within the watchdog time: %s", c.String())
				}
				if ref != nil && c.CloseAfter < 0 && (fmt.Sprint(r.Seen) != fmt.Sprint(ref.Seen) || string(r.Stub) != string(ref.Stub)) {
					p.Count("parser_runs_whose_delivery_differs_from_the_one-piece_feed(C06)", 1)
				}
				p.Outcome(fmt.Sprintf("parser stream#%d msgs=%d errs=%d handover=%v viol=%d", bi, len(r.Seen), len(r.Errs), r.HandOver, len(r.Viol)))
				what := fmt.Sprintf("%s [allocator %s]", c.String(), v)
				for _, tv := range r.Viol {
					p.Report(tv.Sig, what+"\n  "+tv.Desc, "parser-feed", parserInput{Case: c, Policy: int(v.Policy), Move: v.Move, Text: what})
				}
				if len(r.Viol) > 0 {
					p.Count("parser_runs_with_violation", 1)
				}
				if ref == nil {
					ref = r
				}
			}
			modes := []string{"blocking", "nonblocking"}
			if b.client {
				// client connections are always read by the poller: after the dialer's hand-over the
				// session is the WebSocket connection and the HTTP parser is never touched again
				modes = []string{"nonblocking"}
			}
			for _, mode := range modes {
				runCase(respgen.FeedCase{Client: b.client, Stream: stream, CloseAfter: -1, Mode: mode})
				for cut := 1; cut < n; cut++ {
					runCase(respgen.FeedCase{Client: b.client, Stream: stream, Cuts: []int{cut}, CloseAfter: -1, Mode: mode})
					runCase(respgen.FeedCase{Client: b.client, Stream: stream, Cuts: []int{cut}, CloseAfter: 1, Mode: mode})
				}
				if tier == "thorough" && n <= 140 {
					for c1 := 1; c1 < n; c1++ {
						for c2 := c1 + 1; c2 < n; c2++ {
							runCase(respgen.FeedCase{Client: b.client, Stream: stream, Cuts: []int{c1, c2}, CloseAfter: -1, Mode: mode})
							runCase(respgen.FeedCase{Client: b.client, Stream: stream, Cuts: []int{c1, c2}, CloseAfter: 2, Mode: mode})
						}
					}
				}
			}
			p.Sample(map[string]interface{}{"space": "parser", "stream": b.s[:min(len(b.s), 60)], "client": b.client, "allocator": v.String(), "single_cuts": n - 1})
		}
	}
}

func parserReplay(in json.RawMessage) string {
	var inp parserInput
	if err := json.Unmarshal(in, &inp); err != nil {
		return "bad replay input: " + err.Error()
	}
	env := respgen.GetEnv()
	opt := respgen.RunOpt{Policy: track.Policy(inp.Policy), Move: inp.Move}
	r := env.RunFeeds(inp.Case, opt)
	fmt.Printf("case: %s [%s]\n", inp.Case.String(), opt)
	fmt.Printf("delivered: %q\nstub got: %q\nparse errors: %v\nhand-over: %v, cached after first segment: %d, allocator: %d mallocs %d frees %d appends\npanic: %s\n",
		r.Seen, r.Stub, r.Errs, r.HandOver, r.CachedCut, r.T.Mallocs, r.T.Frees, r.T.Appends, r.Panic)
	out := ""
	for _, v := range r.Viol {
		out += v.Sig + " | " + v.Desc + "\n"
	}
	return out
}

package main

import (
	"encoding/json"
	"fmt"
	"sort"
	"strings"

	"verif/seqx/respgen"
	"verif/track"
	"verif/vkit"
)

// Space 2: HTTP parser feeds. Every stream below is fed to a fresh parser (server side with the
// real ServerProcessor and a handler that looks at the body and answers; client side with the
// real ClientProcessor) in one piece and cut into two, three and four reads and into fixed-size
// pieces (byte at a time, 2, 3, 5, 7 bytes); the connection is closed (CloseAndClean) either only
// at the end or right at a cut, with the remaining pieces still delivered, as a read already in
// flight would be; streams containing an Upgrade hand the connection over to a stub ParserCloser
// in both engine styles (blocking: the parser is closed and cleaned after the hand-over;
// non-blocking: it is abandoned). The parser's cache buffer (allocated / appended / replaced /
// freed on every exit path), the request body buffers and the response writer's buffers all come
// from the tracking allocator.
//
// Why more than one cut: the cache has three exits per read - created (no cache yet, a tail is
// left), replaced (a cache exists, the read completed an element and left a tail again) and
// released (everything consumed) - and "replaced" needs a read that ends inside a token followed by
// a read that completes an element and ends inside the next one, i.e. at least three reads.
//
// Content oracle (seqx/respgen.RunFeeds): after every Parse call the retained cache is compared
// with the tail of the input fed so far, the body under assembly, everything the handler is
// given (method, URI, protocol, host, header keys and values, body, trailers; status etc. on the
// client side), the bytes handed to the ParserCloser and the error texts are searched for the
// allocator's poison pattern: the streams do not contain the poison byte, the allocator writes it
// only over freed buffers and never recycles memory, so a poison byte there was read out of a
// freed buffer (free, then copy out of it) although no allocator call or observation point sits
// between the Free and the read.

func init() {
	register(parserPart)
	registerReplay("parser-feed", parserReplay)
	rules = append(rules, "[parser] every stream of a fixed set (requests: no body / Content-Length / chunked with trailers / pipelines / Upgrade followed by foreign bytes / malformed; responses alike) x {one piece; every single cut x {close at the end, close at the cut}; every pair of cuts (streams up to 140 bytes; longer: every pair of structural positions = both sides of every SP, ':', CR, LF, the middle of every token, message boundaries, the 1024-byte cache threshold) x {close at the end, close at the second cut}; every triple of cuts (streams up to 32 bytes; longer: every triple out of 9 consecutive positions of {inside the first token of a line, between CR and LF, after LF, message boundaries}) x {close at the end, close at the third cut}; pieces of 1, 2, 3, 5, 7 bytes, byte at a time also with a close after every piece (longer streams: after structural positions)} x {blocking, non-blocking hand-over style, for the streams that hand over} x allocator variants {exact capacity + moving Append in poison mode; recycled contents and exact + moving Append in guard mode (freed buffers inaccessible); one and two reads also plain exact and recycled contents in poison mode}; thorough adds close at the first cut for pairs, every triple of streams up to 70 bytes and unwindowed structural triples;")
	assumptions = append(assumptions, "[parser] after Parse returns an error the harness does what the engine does: CloseAndClean and no further feeds; bytes delivered after a close are still passed to Parse (it must refuse them without touching released buffers)",
		"[parser] the unparsed bytes a parser holds back between two reads are the tail of what it was fed (it never rewrites them), so their expected value is known; only a poison byte in that tail (or in reported data) is an ownership violation, any other difference is counted and left to C06")
}

// feedStream is a byte stream given as its messages (the boundaries between them are structural
// cut positions that no separator byte marks, e.g. the end of a Content-Length body).
type feedStream []string

func (f feedStream) bytes() []byte { return []byte(strings.Join(f, "")) }

func (f feedStream) boundaries() []int {
	var out []int
	n := 0
	for _, p := range f[:len(f)-1] {
		n += len(p)
		out = append(out, n)
	}
	return out
}

var serverStreams = []feedStream{
	{"GET / HTTP/1.1\r\nHost: a\r\n\r\n"},
	{"POST /p HTTP/1.1\r\nHost: a\r\nContent-Length: 10\r\n\r\n0123456789"},
	{"POST /q HTTP/1.1\r\nHost: a\r\nContent-Length: 10\r\n\r\n0123456789"},
	{"POST /n HTTP/1.1\r\nHost: a\r\nContent-Length: 10\r\n\r\n0123456789"},
	{"POST /c HTTP/1.1\r\nHost: a\r\nTransfer-Encoding: chunked\r\nTrailer: X-T\r\n\r\n5\r\nhello\r\n6\r\n world\r\n0\r\nX-T: v\r\n\r\n"},
	{"POST /q HTTP/1.1\r\nHost: a\r\nTransfer-Encoding: chunked\r\n\r\n5\r\nhello\r\n6\r\n world\r\n0\r\n\r\n"},
	{"GET /1 HTTP/1.1\r\nHost: a\r\n\r\n", "POST /p HTTP/1.1\r\nHost: a\r\nContent-Length: 4\r\n\r\nabcd", "GET /3 HTTP/1.1\r\nHost: a\r\n\r\n"},
	{"GET /a HTTP/1.0\r\n\r\n", "GET /b HTTP/1.1\r\nHost: a\r\n\r\n"},
	{"POST /big HTTP/1.1\r\nHost: a\r\nTransfer-Encoding: chunked\r\n\r\n7d0\r\n" + strings.Repeat("x", 2000) + "\r\n3\r\nabc\r\n0\r\n\r\n"},
	{"GET /ws HTTP/1.1\r\nHost: a\r\nConnection: Upgrade\r\nUpgrade: websocket\r\n\r\n", "\x81\x05hello", "\x81\x03abc"},
	{"POST /p HTTP/1.1\r\nHost: a\r\nContent-Length: 4\r\n\r\nabcd", "GET /ws HTTP/1.1\r\nHost: a\r\nUpgrade: websocket\r\n\r\n", "\x81\x05hello"},
	// malformed
	{"G=T / HTTP/1.1\r\nHost: a\r\n\r\n"},
	{"POST /c HTTP/1.1\r\nHost: a\r\nTransfer-Encoding: chunked\r\n\r\nzz\r\nhello\r\n"},
	{"POST /p HTTP/1.1\r\nHost: a\r\nContent-Length: 4\r\n\r\nabcd", "\x00\x01garbage\r\n\r\n"},
	{"GET / HTTP/1.1\rX-broken\r\n\r\n"},
	{"POST /p HTTP/1.1\r\nHost: a\r\nContent-Length: 4x\r\n\r\nabcd"},
	{"POST /c HTTP/1.1\r\nHost: a\r\nTransfer-Encoding: chunked\r\nTrailer: X-T\r\n\r\n3\r\nabc\r\n0\r\nX-Other v\r\n\r\n"},
	{"GET / HTTP/1.1\r\nHost: a\r\nBad Header\r\n\r\n"},
}

var clientStreams = []feedStream{
	{"HTTP/1.1 200 OK\r\nContent-Length: 5\r\n\r\nhello"},
	{"HTTP/1.1 204 No Content\r\n\r\n"},
	{"HTTP/1.1 200 OK\r\nTransfer-Encoding: chunked\r\nTrailer: X-T\r\n\r\n5\r\nhello\r\n6\r\n world\r\n0\r\nX-T: v\r\n\r\n"},
	{"HTTP/1.1 200 OK\r\nContent-Length: 5\r\n\r\nhello", "HTTP/1.1 404 Not Found\r\nTransfer-Encoding: chunked\r\n\r\n3\r\nabc\r\n0\r\n\r\n"},
	{"HTTP/1.1 101 Switching Protocols\r\nUpgrade: websocket\r\nConnection: Upgrade\r\n\r\n", "\x81\x05hello", "\x81\x03abc"},
	// malformed
	{"HTTP/1.1 2x0 OK\r\nContent-Length: 5\r\n\r\nhello"},
	{"HTTP/1.1 200 OK\r\nTransfer-Encoding: chunked\r\n\r\n5\r\nhelloXX\r\n"},
	{"XTTP/1.1 200 OK\r\n\r\n"},
	{"HTTP/1.1 200 OK\r\nContent-Length: 5\r\n\r\nhello", "\x00garbage"},
}

type parserInput struct {
	Case   respgen.FeedCase `json:"case"`
	Policy int              `json:"policy"`
	Move   bool             `json:"move"`
	Guard  bool             `json:"guard,omitempty"`
	Text   string           `json:"text"`
}

func isSep(c byte) bool { return c == ' ' || c == ':' || c == '\r' || c == '\n' }

// structuralCuts returns two sets of cut positions of a stream. full: both sides of every
// separator byte (SP, ':', CR, LF), the middle of every token (maximal run of other bytes, 3 bytes
// or more), the message boundaries, the first and last position and, for streams longer than the
// pooled buffer capacity, the positions around every multiple of 1024 bytes after the start of a
// token longer than that (the carry-over cache crossing the capacity). reduced: one position
// inside the first token of every line, between CR and LF, after every LF (an element end), and
// the message boundaries.
func structuralCuts(s []byte, boundaries []int) (full, reduced []int) {
	n := len(s)
	fset, rset := map[int]bool{}, map[int]bool{}
	add := func(set map[int]bool, x int) {
		if x > 0 && x < n {
			set[x] = true
		}
	}
	add(fset, 1)
	add(fset, n-1)
	lineStart := true
	for i := 0; i < n; {
		if isSep(s[i]) {
			add(fset, i)
			add(fset, i+1)
			if s[i] == '\n' {
				add(rset, i+1)
				if i > 0 && s[i-1] == '\r' {
					add(rset, i)
				}
				lineStart = true
			}
			i++
			continue
		}
		j := i
		for j < n && !isSep(s[j]) {
			j++
		}
		if j-i >= 3 {
			add(fset, i+(j-i)/2)
		}
		if lineStart && j-i >= 2 {
			add(rset, i+(j-i)/2)
			lineStart = false
		}
		for k := 1024; k < j-i; k += 1024 {
			for d := -1; d <= 1; d++ {
				add(fset, i+k+d)
			}
		}
		i = j
	}
	for _, b := range boundaries {
		add(fset, b)
		add(rset, b)
	}
	for x := range fset {
		full = append(full, x)
	}
	for x := range rset {
		reduced = append(reduced, x)
	}
	sort.Ints(full)
	sort.Ints(reduced)
	return
}

// parserVariants are the allocator variants a family of segmentations runs under: poison mode
// (freed buffers overwritten; content oracle and sweep) and guard mode (freed buffers
// inaccessible; every touch faults where it happens), with the two capacity behaviours that
// differ in which buffers get freed - pooled capacity with recycled contents (appends extend in
// place) and exact capacity with a moving Append (every growing append frees the old buffer).
// Three and four reads: moving Append in poison mode and both in guard mode. One and two reads
// additionally under plain exact capacity and recycled contents in poison mode (thorough: plain
// pooled too; in the quick tier it is left to the recycled-contents variant, which has the same
// capacities).
func parserVariants(fam int, thorough bool) []respgen.RunOpt {
	vs := []respgen.RunOpt{
		{Policy: track.Exact, Move: true},
		{Policy: track.Stale, Guard: true},
		{Policy: track.Exact, Move: true, Guard: true},
	}
	if fam == famSingles {
		vs = append(vs, respgen.RunOpt{Policy: track.Exact}, respgen.RunOpt{Policy: track.Stale})
	}
	if fam == famSingles && thorough {
		vs = append(vs, respgen.RunOpt{Policy: track.Pooled})
	}
	if fam != famSingles && thorough {
		vs = append(vs, respgen.RunOpt{Policy: track.Stale})
	}
	return vs
}

const (
	famSingles = iota // one piece, every single cut, fixed-size pieces
	famPairs
	famTriples
	nFamilies
)

func parserPart(tier string, sh *vkit.Shard, p *vkit.Part) {
	env := respgen.GetEnv()
	thorough := tier == "thorough"
	type base struct {
		client bool
		s      feedStream
	}
	var bases []base
	for _, s := range serverStreams {
		bases = append(bases, base{false, s})
	}
	for _, s := range clientStreams {
		bases = append(bases, base{true, s})
	}
	for bi, b := range bases {
		stream := b.s.bytes()
		n := len(stream)
		full, reduced := structuralCuts(stream, b.s.boundaries())
		for fam := 0; fam < nFamilies; fam++ {
			for _, v := range parserVariants(fam, thorough) {
				// work item: one stream under one allocator variant, one family of segmentations
				if !sh.Mine() {
					continue
				}
				var ref *respgen.FeedResult
				seen := map[string]bool{}
				runCase := func(c respgen.FeedCase, account bool) *respgen.FeedResult {
					r := env.RunFeeds(c, v)
					if !account {
						return r
					}
					t := r.T
					sig := fmt.Sprintf("%v|%q|%v|%v", r.Seen, r.Stub, r.Errs, r.HandOver)
					st := 0
					if !seen[sig] {
						seen[sig] = true
						st = 1
					}
					p.Case(t.Mallocs > 0 && t.Frees > 0, st, r.Reads)
					p.Count("parser_runs", 1)
					p.Count(fmt.Sprintf("parser_runs_with_%d_reads", min(r.Reads, 5)), 1)
					p.Count("parser_mallocs", t.Mallocs)
					p.Count("parser_frees", t.Frees)
					p.Count("parser_appends", t.Appends)
					p.Count("parser_reads_replacing_the_cache(progress_and_a_tail_left)", r.ReplaceReads)
					p.Count("parser_retained_tail_compared_with_input", r.TailChecks)
					p.Count("parser_reported_strings_searched_for_poison", r.Reported)
					p.Count("parser_retained_tail_differs_from_input_without_poison(C06)", r.TailDiffs)
					p.Count("parser_stale_sentinel_in_reported_or_retained_data(not_judged)", r.StaleSeen)
					p.Count("parser_open_parser_keeping_a_released_cache_pointer(not_judged)", r.DanglingCache)
					if r.Guarded {
						p.Count("parser_runs_with_guard_pages", 1)
					} else if v.Guard {
						p.Count("parser_runs_guard_pages_unavailable(poison_mode_instead)", 1)
					}
					if r.ContentOff {
						p.Count("parser_runs_without_content_oracle(poison_byte_in_input)", 1)
					}
					if r.CachedCut > 0 {
						p.Count("parser_runs_with_bytes_cached_at_first_cut", 1)
					}
					if r.HandOver {
						p.Count("parser_runs_with_upgrade_handover", 1)
						if len(r.Stub) > 0 {
							p.Count("parser_runs_handing_bytes_to_the_ParserCloser", 1)
						}
					}
					if len(r.Errs) > 0 {
						p.Count("parser_runs_with_parse_error", 1)
					}
					if r.Panic != "" {
						p.Count("parser_runs_with_recovered_panic(C08)", 1)
					}
					if r.Hang {
						p.Errorf("parser: run did not return within the watchdog time: %s", c.String())
					}
					if ref != nil && c.CloseAfter < 0 && (fmt.Sprint(r.Seen) != fmt.Sprint(ref.Seen) || string(r.Stub) != string(ref.Stub)) {
						p.Count("parser_runs_whose_delivery_differs_from_the_one-piece_feed(C06)", 1)
					}
					p.Outcome(fmt.Sprintf("parser stream#%d msgs=%d errs=%d handover=%v viol=%d", bi, len(r.Seen), len(r.Errs), r.HandOver, len(r.Viol)))
					what := fmt.Sprintf("%s [allocator %s]", c.String(), v)
					for _, tv := range r.Viol {
						p.Report(tv.Sig, what+"\n  "+tv.Desc, "parser-feed", parserInput{Case: c, Policy: int(v.Policy), Move: v.Move, Guard: v.Guard, Text: what})
					}
					if len(r.Viol) > 0 {
						p.Count("parser_runs_with_violation", 1)
					}
					return r
				}
				// the one-piece feed: reference delivery, and whether the stream hands the connection over
				// (only then do the two engine styles differ). Accounted once, in the singles family.
				ref0 := runCase(respgen.FeedCase{Client: b.client, Stream: stream, CloseAfter: -1, Mode: "nonblocking"}, fam == famSingles)
				ref = ref0
				modes := []string{"nonblocking"}
				if ref0.HandOver && !b.client {
					// client connections are always read by the poller: after the dialer's hand-over the
					// session is the WebSocket connection and the HTTP parser is never touched again
					modes = []string{"blocking", "nonblocking"}
				}
				fc := func(mode string, closeAfter int, cuts ...int) respgen.FeedCase {
					return respgen.FeedCase{Client: b.client, Stream: stream, Cuts: cuts, CloseAfter: closeAfter, Mode: mode}
				}
				for _, mode := range modes {
					switch fam {
					case famSingles:
						if mode != "nonblocking" {
							runCase(fc(mode, -1), true)
						}
						for cut := 1; cut < n; cut++ {
							runCase(fc(mode, -1, cut), true)
							runCase(fc(mode, 1, cut), true)
						}
						// fixed-size pieces; byte at a time also with the close after every piece
						for _, k := range []int{1, 2, 3, 5, 7} {
							if k >= n {
								continue
							}
							c := fc(mode, -1)
							c.Chunk = k
							runCase(c, true)
						}
						closes := full
						if n <= 140 || thorough {
							closes = closes[:0:0]
							for j := 1; j < n; j++ {
								closes = append(closes, j)
							}
						}
						for _, j := range closes {
							c := fc(mode, j)
							c.Chunk = 1
							runCase(c, true)
						}
					case famPairs:
						set := full
						if n <= 140 {
							set = set[:0:0]
							for j := 1; j < n; j++ {
								set = append(set, j)
							}
						}
						for i1, c1 := range set {
							for _, c2 := range set[i1+1:] {
								runCase(fc(mode, -1, c1, c2), true)
								runCase(fc(mode, 2, c1, c2), true)
								if thorough {
									runCase(fc(mode, 1, c1, c2), true)
								}
							}
						}
					case famTriples:
						set, window := reduced, 9
						if n <= 32 || (thorough && n <= 70) {
							set, window = set[:0:0], n
							for j := 1; j < n; j++ {
								set = append(set, j)
							}
						} else if thorough {
							window = len(set)
						}
						for i1 := range set {
							hi := min(len(set), i1+window)
							for i2 := i1 + 1; i2 < hi; i2++ {
								for i3 := i2 + 1; i3 < hi; i3++ {
									runCase(fc(mode, -1, set[i1], set[i2], set[i3]), true)
									runCase(fc(mode, 3, set[i1], set[i2], set[i3]), true)
								}
							}
						}
					}
				}
				if fam == famSingles {
					p.Sample(map[string]interface{}{"space": "parser", "stream": string(stream[:min(n, 60)]), "client": b.client, "allocator": v.String(), "single_cuts": n - 1,
						"structural_positions": len(full), "reduced_structural_positions": len(reduced)})
				}
			}
		}
	}
}

func parserReplay(in json.RawMessage) string {
	var inp parserInput
	if err := json.Unmarshal(in, &inp); err != nil {
		return "bad replay input: " + err.Error()
	}
	env := respgen.GetEnv()
	opt := respgen.RunOpt{Policy: track.Policy(inp.Policy), Move: inp.Move, Guard: inp.Guard}
	r := env.RunFeeds(inp.Case, opt)
	fmt.Printf("case: %s [%s]\n", inp.Case.String(), opt)
	fmt.Printf("delivered: %q\nstub got: %q\nparse errors: %v\nhand-over: %v, cached after first segment: %d, allocator: %d mallocs %d frees %d appends\npanic: %s\n",
		r.Seen, r.Stub, r.Errs, r.HandOver, r.CachedCut, r.T.Mallocs, r.T.Frees, r.T.Appends, r.Panic)
	out := ""
	for _, v := range r.Viol {
		out += v.Sig + " | " + v.Desc + "\n"
	}
	return out
}

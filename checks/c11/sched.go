package main

// Scheduled part of C11: the connection layer's write queue. Queue entries are allocated by
// Write/Writev (newToWriteBuf, including the coalescing grow-and-free), released by the
// poller's flush as they drain, and released wholesale by closeWithErrorWithoutLock, which may
// run on another thread (user Close, overflow, a failing write, the poller's error branch).
// Every interleaving within the preemption bound is executed on the real engine over the
// simulated kernel with a fresh tracking allocator; the allocator is the oracle.

import (
	"fmt"
	"strings"
	"time"

	"github.com/lesismal/nbio"
	"github.com/lesismal/nbio/mempool"

	"verif/ekit"
	"verif/track"
	"verif/vkit"
	"verif/vsched"
	"verif/vshim/vsys"
)

type scfg struct {
	mode   ekit.Mode
	unix   bool
	pol    track.Policy
	move   bool
	ender  string // close | rst | overflow | peerclose | none
	writes []int
	vec    bool
	p, d   int
}

func (c scfg) name() string {
	t := "tcp"
	if c.unix {
		t = "unix"
	}
	return fmt.Sprintf("writequeue %s %s alloc=%s move=%v ender=%s writes=%v vec=%v", t, c.mode, c.pol, c.move, c.ender, c.writes, c.vec)
}

var schedCounters map[string]int

func schedBody(c scfg) func() {
	return func() {
		vsys.Configure(true, false)
		tr := track.New(c.pol)
		tr.MoveOnGrow = c.move
		mempool.DefaultMemPool = tr
		conf := nbio.Config{Name: "c11", NPoller: 1, ReadBufferSize: 16, BodyAllocator: tr}
		if c.ender == "overflow" {
			conf.MaxWriteBufferSize = 6
		}
		c.mode.Apply(&conf)
		g := nbio.NewEngine(conf)
		if err := g.Start(); err != nil {
			vsched.Fail("harness|engine start: %v", err)
			return
		}
		conn, peer := ekit.Stream(c.unix, 3, 64)
		doWrites := func() {
			for i, n := range c.writes {
				data := ekit.Payload(i+1, n)
				if c.vec {
					_, _ = conn.Writev([][]byte{data[:n/2], data[n/2:]})
				} else {
					_, _ = conn.Write(data)
				}
			}
		}
		inOpen := strings.HasPrefix(c.ender, "open")
		if inOpen {
			// the backlog is created, and the connection ended, while the connection is still being
			// registered: by the open handler itself, or by another thread while the handler runs
			g.OnOpen(func(*nbio.Conn) {
				doWrites()
				if c.ender == "open+close" {
					_ = conn.Close()
				} else {
					vsched.Point()
				}
			})
			if c.ender == "open|close" {
				vsched.GoNamed("closer", func() { _ = conn.Close() })
			}
			_, _ = g.AddConn(conn)
		} else if _, err := g.AddConn(conn); err != nil {
			vsched.Fail("harness|AddConn: %v", err)
			return
		}
		if !inOpen {
			vsched.GoNamed("writer", doWrites)
		}
		vsched.GoNamed("peer", func() {
			vsched.SetDaemon()
			for {
				peer.WaitReadable()
				if peer.Queued() == 0 {
					return
				}
				got := peer.Read(0)
				tr.Use(got, "peer-received") // what reached the wire must not come from freed memory
			}
		})
		switch c.ender {
		case "close":
			vsched.GoNamed("closer", func() { _ = conn.Close() })
		case "rst":
			vsched.GoNamed("closer", func() { peer.Reset() })
		case "peerclose":
			vsched.GoNamed("closer", func() { peer.Close() })
		case "overflow":
			vsched.GoNamed("closer", func() { _, _ = conn.Write(make([]byte, 7)) })
		}
		vsched.WaitIdle()
		st := vsys.GetStats()
		schedCounters = map[string]int{"mallocs": tr.Mallocs, "frees": tr.Frees, "eagain": st.Eagains}
		if tr.Mallocs > 0 && tr.Frees > 0 {
			schedCounters["alloc_and_free_execs"] = 1
		}
		for _, v := range tr.Violations() {
			vsched.Fail("%s|%s", v.Sig, v.Desc)
		}
	}
}

func schedCheck(r *vsched.Result) string {
	for _, b := range r.Blocked {
		if b.Name == "main" || b.Name == "writer" || b.Name == "closer" {
			return fmt.Sprintf("stuck|thread %s blocked at the end (%s)", b.Name, b.Why)
		}
		if strings.HasPrefix(b.Why, "mutex") {
			return fmt.Sprintf("deadlock-mutex|thread %s is blocked on a mutex forever", b.Name)
		}
	}
	return ""
}

func init() {
	rules = append(rules, "scheduled write-queue space: transport x epoll mode x allocator policy x write program (coalescing, growth) x ender (user Close, peer RST, peer close, overflow, backlog and Close inside the open handler, Close racing the open handler while the connection is still being registered) with every interleaving of writer, poller flush, peer and closer within the preemption bound.")
	buildScheduled = func(tier string) []*vkit.Scenario {
		thorough := tier == "thorough"
		var out []*vkit.Scenario
		for _, m := range ekit.Modes {
			for _, unix := range []bool{false, true} {
				for _, pol := range []track.Policy{track.Exact, track.Pooled} {
					for _, move := range []bool{false, true} {
						if move && pol != track.Exact {
							continue
						}
						for _, ender := range []string{"close", "rst", "peerclose", "overflow", "none", "open+close", "open|close"} {
							for wi, ws := range [][]int{{5, 2, 4}, {7}, {4, 4}} {
								for _, vec := range []bool{false, true} {
									if !thorough && (unix || pol == track.Pooled || wi != 0) {
										continue
									}
									c := scfg{mode: m, unix: unix, pol: pol, move: move, ender: ender, writes: ws, vec: vec, p: 1, d: 1}
									if !thorough && m == ekit.LT && !vec && !move && ender == "close" {
										c.p = 2
									}
									if thorough {
										c.p = 2
										if wi == 0 && !unix {
											c.p = 3
										}
									}
									out = append(out, &vkit.Scenario{Name: c.name(), Body: schedBody(c), Check: schedCheck, P: c.p, D: c.d,
										Counters:   func() map[string]int { return schedCounters },
										NonTrivial: func(mm map[string]int) bool { return mm["alloc_and_free_execs"] > 0 },
										Budget:     90 * time.Second})
								}
							}
						}
					}
				}
			}
		}
		return out
	}
}

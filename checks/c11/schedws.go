package main

// Scheduled part of C11: the pooled READ-side buffers against close. In poller mode Parse runs on
// the poller goroutine while CloseAndClean runs in the connection's close job on an executor
// goroutine; what keeps them apart is the connection mutex. The buffers at stake:
//
//	websocket.Conn.bytesCached  the unparsed input cache: created / appended to at the top of every
//	                            Parse call, compacted or released after every frame, released by
//	                            CloseAndClean
//	websocket.Conn.message      the message under assembly: created / appended to per data frame,
//	                            handed to the handler at FIN, released by CloseAndClean
//	nbhttp.Parser.bytesCached   the HTTP carry-over cache (and the body under assembly) against
//	                            Parser.CloseAndClean
//
// One thread ("reader") feeds a fixed wire in three pieces through Parse, cut so that every read
// after the first finds a cache (append branch) and the second leaves a tail again; a second
// thread ("closer") does what the close job does (CloseAndClean, optionally Close first); an
// optional third ("writer") sends a message, taking the same mutex. Every interleaving within the
// preemption bound is executed.
//
// Scheduling points: nbio's mutex operations (sync shim) - and the allocator calls. The tracking
// allocator is not instrumented code, so a window such as "load c.bytesCached, <close frees it>,
// Append" between an unlock and an allocator call would contain no scheduling point and could not
// be produced. The harness therefore installs the tracker behind a wrapper (pointAlloc) whose
// every method is first a scheduling point and a happens-before step on one shared object
// (vsched.Touch), then the tracker's method. track itself is unchanged.
//
// Oracle: the tracker (append / realloc / free after free, double free, read after free at
// conn.Write and the callbacks, poison sweep) and the content oracle of ws.go / respgen after every
// Parse call (cache against the tail of the input fed, message under assembly against the frames
// fed, reported payloads against the reference model; poison there is a read after free).

import (
	"bytes"
	"fmt"
	"io"
	"net/http"
	"os"
	"time"

	"github.com/lesismal/nbio/mempool"
	"github.com/lesismal/nbio/nbhttp"
	"github.com/lesismal/nbio/nbhttp/websocket"

	"verif/seqx/respgen"
	"verif/seqx/wsgen"
	"verif/track"
	"verif/vkit"
	"verif/vsched"
)

// pointAlloc makes every allocator call a scheduling point (see above).
type pointAlloc struct{ t *track.T }

// allocPoint: VERIF_C11_NO_ALLOC_POINTS=1 turns the scheduling points off (development aid: with
// them off the seeded change "unlock before the cache append" is not found - the window between
// loading c.bytesCached and the Append contains no instrumented operation).
var allocPointsOff = os.Getenv("VERIF_C11_NO_ALLOC_POINTS") != ""

func allocPoint() {
	if !allocPointsOff {
		vsched.Touch("c11.allocator", true)
	}
}

func (a pointAlloc) Malloc(size int) *[]byte {
	allocPoint()
	return a.t.Malloc(size)
}
func (a pointAlloc) Realloc(h *[]byte, size int) *[]byte {
	allocPoint()
	return a.t.Realloc(h, size)
}
func (a pointAlloc) Append(h *[]byte, more ...byte) *[]byte {
	allocPoint()
	return a.t.Append(h, more...)
}
func (a pointAlloc) AppendString(h *[]byte, more string) *[]byte {
	allocPoint()
	return a.t.AppendString(h, more)
}
func (a pointAlloc) Free(h *[]byte) {
	allocPoint()
	a.t.Free(h)
}

type rccfg struct {
	layer  string // ws | http
	move   bool
	ender  string // clean: CloseAndClean | close: Close, then CloseAndClean | none
	writer bool   // ws: a third thread sends a message
	rp     bool   // ws: ReleasePayload
	p      int
}

func (c rccfg) name() string {
	return fmt.Sprintf("readcache %s alloc=exact move=%v ender=%s writer=%v release=%v", c.layer, c.move, c.ender, c.writer, c.rp)
}

var rcCounters map[string]int

func rcFinish(tr *track.T, what string) {
	rcCounters = map[string]int{"mallocs": tr.Mallocs, "frees": tr.Frees, "appends": tr.Appends}
	if tr.Mallocs > 0 && tr.Frees > 0 {
		rcCounters["alloc_and_free_execs"] = 1
	}
	for _, v := range tr.Violations() {
		vsched.Fail("%s|%s (%s)", v.Sig, v.Desc, what)
	}
}

// rcWsWire: a text message in two fragments, then a ping. Cuts: inside the first frame's payload
// (the cache is created), inside the second frame's header (append; the first frame is consumed,
// the message under assembly is created, the cache is compacted and keeps a tail), inside the
// ping (append to the compacted cache; the message is appended to and delivered; tail again); the
// rest (append, pong written, cache released).
func rcWsWire() (wire []byte, cuts []int) {
	fr := []wsgen.Frame{
		{Fin: false, Op: wsgen.OpText, Payload: []byte("abc")},
		{Fin: true, Op: wsgen.OpCont, Payload: []byte("def")},
		{Fin: true, Op: wsgen.OpPing, Payload: []byte("p")},
	}
	for i := range fr {
		fr[i].Masked = true
		fr[i].Key = [4]byte{0x11, 0x22 + byte(i), 0x33, 0x44}
	}
	w := wsgen.Encode(fr)
	return w.Bytes, []int{w.Starts[0] + 7, w.Starts[1] + 3, w.Starts[2] + 1}
}

func rcWsBody(c rccfg) func() {
	wire, cuts := rcWsWire()
	return func() {
		tr := track.New(track.Exact)
		tr.MoveOnGrow = c.move
		al := pointAlloc{tr}
		mempool.DefaultMemPool = al
		eng := nbhttp.NewEngine(nbhttp.Config{Name: "c11r", NPoller: 1, BodyAllocator: al, SupportServerOnly: true,
			ServerExecutor: func(f func()) { f() }})
		u := websocket.NewUpgrader()
		u.Engine = eng
		u.KeepaliveTime = 0
		cfg := wsgen.Cfg{ReleasePayload: c.rp, Move: c.move, Observe: true}
		ep := &wsgen.Endpoint{Cfg: cfg, T: tr, Fake: &wsgen.FakeConn{}, U: u}
		ep.Fake.Observe = func(b []byte) { tr.Use(b, "conn.Write") }
		u.OnMessage(func(_ *websocket.Conn, mt websocket.MessageType, data []byte) {
			tr.Use(data, "OnMessage")
			ep.Events = append(ep.Events, wsgen.Event{Kind: 'M', Type: byte(mt), Payload: append([]byte{}, data...)})
		})
		u.SetPongHandler(func(_ *websocket.Conn, s string) {
			ep.Events = append(ep.Events, wsgen.Event{Kind: 'O', Payload: []byte(s)})
		})
		wsc := websocket.VerifSeqConn(u, ep.Fake, websocket.VerifSeqConnOpt{ReleasePayload: c.rp})
		wsc.Execute = func(f func()) bool { f(); return true }
		ep.C = wsc
		x := newWsOracle(ep, wire, cfg, &wsOutcome{})

		vsched.GoNamed("reader", func() {
			fed, lo := 0, 0
			for i, hi := range append(append([]int{}, cuts...), len(wire)) {
				buf := append([]byte(nil), wire[lo:hi]...)
				ep.LastPiece = buf
				err := wsc.Parse(buf)
				for j := range buf {
					buf[j] = wsgen.ScribbleByte // the poller reuses its read buffer
				}
				fed, lo = hi, hi
				x.after(i, fed, err)
				if err != nil {
					return
				}
			}
		})
		switch c.ender {
		case "clean":
			vsched.GoNamed("closer", func() { ep.Cleaned = true; wsc.CloseAndClean(io.EOF) })
		case "close":
			vsched.GoNamed("closer", func() { _ = wsc.Close(); ep.Cleaned = true; wsc.CloseAndClean(nil) })
		}
		if c.writer {
			vsched.GoNamed("writer", func() { _ = wsc.WriteMessage(websocket.TextMessage, []byte("hi")) })
		}
		vsched.WaitIdle()
		ep.Cleaned = true
		wsc.CloseAndClean(nil) // the connection goes away at the end of every case (no-op after the closer)
		rcFinish(tr, "WebSocket read cache / message under assembly vs. CloseAndClean")
	}
}

// rcHTTPStream: a request whose head and body arrive in three reads; the second completes the
// request line and a header and ends inside the next header name (the cache is replaced), the
// third completes the message (handler, response) and leaves the beginning of a pipelined one.
const rcHTTPStream = "POST /p HTTP/1.1\r\nHost: a\r\nContent-Length: 4\r\n\r\nabcdGET /n"

var rcHTTPCuts = []int{6, 30}

func rcHTTPBody(c rccfg) func() {
	stream := []byte(rcHTTPStream)
	return func() {
		tr := track.New(track.Exact)
		tr.MoveOnGrow = c.move
		al := pointAlloc{tr}
		mempool.DefaultMemPool = al
		conn := &respgen.Conn{T: tr}
		eng := nbhttp.NewEngine(nbhttp.Config{Name: "c11h", NPoller: 1, BodyAllocator: al, SupportServerOnly: true,
			ServerExecutor: func(f func()) { f() },
			Handler: http.HandlerFunc(func(w http.ResponseWriter, r *http.Request) {
				if br, ok := r.Body.(*nbhttp.BodyReader); ok && br != nil {
					for _, b := range br.RawBodyBuffers() {
						tr.Use(b, "handler.RawBodyBuffers")
					}
					if b, _ := io.ReadAll(br); bytes.IndexByte(b, track.PoisonByte) >= 0 {
						tr.PoisonRead(nil, "handler.Body", fmt.Sprintf(" (%q)", b))
					}
				}
				_, _ = w.Write([]byte("ok"))
			})})
		hc := &nbhttp.Conn{Conn: conn}
		parser := nbhttp.NewParser(hc, eng, nbhttp.NewServerProcessor(), false, nil)
		hc.Parser = parser

		vsched.GoNamed("reader", func() {
			lo := 0
			for i, hi := range append(append([]int{}, rcHTTPCuts...), len(stream)) {
				buf := append([]byte(nil), stream[lo:hi]...)
				err := parser.Parse(buf)
				for j := range buf {
					buf[j] = 0xEE
				}
				lo = hi
				if err != nil {
					return
				}
				// content oracle (as respgen.RunFeeds): the cache of an open parser is the tail of the input
				if h := parser.VerifCachedHandle(); h != nil && !parser.VerifParserClosed() && !tr.IsFreed(h) && len(*h) > 0 && len(*h) <= hi {
					if want := stream[hi-len(*h) : hi]; !bytes.Equal(*h, want) && track.HasPoison(*h) >= 0 {
						tr.PoisonRead(*h, "Parser.bytesCached", fmt.Sprintf(" after Parse call %d (cache %q, input tail %q)", i+1, *h, want))
					}
					if track.Overlaps(*h, buf) {
						tr.Note("read-buffer-retained", "read-buffer-retained use=Parser.bytesCached", "the parser's carry-over cache lies in the read buffer the caller passed to Parse")
					}
				}
			}
		})
		switch c.ender {
		case "clean":
			vsched.GoNamed("closer", func() { parser.CloseAndClean(io.EOF) })
		case "close":
			vsched.GoNamed("closer", func() { _ = conn.Close(); parser.CloseAndClean(nil) })
		}
		vsched.WaitIdle()
		parser.CloseAndClean(nil)
		rcFinish(tr, "HTTP parser carry-over cache / body under assembly vs. CloseAndClean")
	}
}

func init() {
	rules = append(rules, "scheduled read-cache space: {WebSocket Conn fed a fragmented message + ping, HTTP parser fed a request with body + the start of a pipelined one} in three / four reads (every read after the first appends to the cache, the middle ones leave a tail again) x allocator (exact, exact + moving Append; every allocator call is a scheduling point) x closer thread (CloseAndClean; Close then CloseAndClean) x optional WebSocket writer thread x ReleasePayload, with every interleaving of reader, closer and writer within the preemption bound.")
	prev := buildScheduled
	buildScheduled = func(tier string) []*vkit.Scenario {
		var out []*vkit.Scenario
		if prev != nil {
			out = prev(tier)
		}
		thorough := tier == "thorough"
		var cfgs []rccfg
		for _, move := range []bool{false, true} {
			for _, ender := range []string{"clean", "close"} {
				cfgs = append(cfgs, rccfg{layer: "ws", move: move, ender: ender, rp: move})
				if thorough {
					cfgs = append(cfgs, rccfg{layer: "ws", move: move, ender: ender, rp: !move})
				}
				if ender == "clean" || thorough {
					cfgs = append(cfgs, rccfg{layer: "http", move: move, ender: ender})
				}
			}
		}
		cfgs = append(cfgs, rccfg{layer: "ws", move: true, ender: "clean", writer: true})
		if thorough {
			cfgs = append(cfgs, rccfg{layer: "ws", move: false, ender: "close", writer: true, rp: true})
		}
		for _, c := range cfgs {
			c.p = 2
			if thorough {
				c.p = 3
			}
			body := rcWsBody(c)
			if c.layer == "http" {
				body = rcHTTPBody(c)
			}
			out = append(out, &vkit.Scenario{Name: c.name(), Body: body, Check: schedCheck, P: c.p, D: 1,
				Counters:   func() map[string]int { return rcCounters },
				NonTrivial: func(mm map[string]int) bool { return mm["alloc_and_free_execs"] > 0 },
				Budget:     30 * time.Second})
		}
		return out
	}
}

package main

// Scheduled part of C11: the WebSocket asynchronous send queue (blocking mode,
// BlockingModAsyncWrite). Frames are allocated by writeFrame, handed to the drainer goroutine
// slot by slot, freed by the drainer after the write, and freed wholesale by CloseAndClean (read
// loop ending on EOF / error, Close, a failing write), which may run on another thread. A real
// Upgrade over a fake net.Conn of unknown type (Upgrade scenario 4); the tracking allocator is
// the oracle. (The same scenarios, with the wire and callback oracles, are part of C14.)

import (
	"bufio"
	"fmt"
	"io"
	"net"
	"net/http"
	"time"

	"github.com/lesismal/nbio/mempool"
	"github.com/lesismal/nbio/nbhttp"
	"github.com/lesismal/nbio/nbhttp/websocket"

	"verif/track"
	"verif/vkit"
	"verif/vsched"
)

type qaddr struct{}

func (qaddr) Network() string { return "fake" }
func (qaddr) String() string  { return "fake:0" }

// qconn: Write is a scheduling point (the drainer can be overtaken between two frames), Read
// blocks until the harness ends the stream or the connection is closed.
type qconn struct {
	o       vsched.Obj
	tr      *track.T
	nwrites int
	failAt  int
	closed  bool
	eof     bool
}

func (f *qconn) Write(b []byte) (int, error) {
	vsched.Point()
	vsched.Record(&f.o, 2, true, uint64(len(b)))
	f.tr.Use(b, "conn.Write")
	if f.closed {
		return 0, net.ErrClosed
	}
	f.nwrites++
	if f.failAt > 0 && f.nwrites >= f.failAt {
		return 0, fmt.Errorf("injected write failure")
	}
	return len(b), nil
}

func (f *qconn) Read(b []byte) (int, error) {
	vsched.Block("fake.read", func() bool { return f.eof || f.closed })
	vsched.Record(&f.o, 3, true, 1)
	if f.closed {
		return 0, net.ErrClosed
	}
	return 0, io.EOF
}

func (f *qconn) Close() error {
	vsched.Point()
	f.closed = true
	vsched.Record(&f.o, 4, true, 1)
	return nil
}
func (f *qconn) LocalAddr() net.Addr                { return qaddr{} }
func (f *qconn) RemoteAddr() net.Addr               { return qaddr{} }
func (f *qconn) SetDeadline(t time.Time) error      { return nil }
func (f *qconn) SetReadDeadline(t time.Time) error  { return nil }
func (f *qconn) SetWriteDeadline(t time.Time) error { return nil }

type qhijack struct {
	conn net.Conn
	h    http.Header
}

func (h *qhijack) Header() http.Header         { return h.h }
func (h *qhijack) Write(b []byte) (int, error) { return len(b), nil }
func (h *qhijack) WriteHeader(int)             {}
func (h *qhijack) Hijack() (net.Conn, *bufio.ReadWriter, error) {
	return h.conn, nil, nil
}

type wqcfg struct {
	writers int
	msgs    int    // messages per writer (each three fragments)
	ender   string // eof | close | writefail | none
	pol     track.Policy
	p       int
}

func (c wqcfg) name() string {
	return fmt.Sprintf("ws-sendqueue writers=%d msgs=%d ender=%s alloc=%s", c.writers, c.msgs, c.ender, c.pol)
}

var wqCounters map[string]int

func wqBody(c wqcfg) func() {
	return func() {
		tr := track.New(c.pol)
		mempool.DefaultMemPool = tr
		eng := nbhttp.NewEngine(nbhttp.Config{Name: "c11q", NPoller: 1, MaxWebsocketFramePayloadSize: 2,
			BodyAllocator: tr, SupportServerOnly: true, ServerExecutor: func(f func()) { f() }})
		u := websocket.NewUpgrader()
		u.Engine = eng
		u.KeepaliveTime = 0
		u.CheckOrigin = func(*http.Request) bool { return true }
		u.BlockingModAsyncWrite = true
		u.BlockingModHandleRead = true
		u.BlockingModSendQueueInitSize = 1
		u.BlockingModReadBufferSize = 64
		fc := &qconn{tr: tr}
		r, _ := http.NewRequest("GET", "http://h/ws", nil)
		r.Header.Set("Connection", "Upgrade")
		r.Header.Set("Upgrade", "websocket")
		r.Header.Set("Sec-WebSocket-Version", "13")
		r.Header.Set("Sec-WebSocket-Key", "dGhlIHNhbXBsZSBub25jZQ==")
		wsc, err := u.Upgrade(&qhijack{conn: fc, h: http.Header{}}, r, nil)
		if err != nil {
			vsched.Fail("harness|Upgrade over the fake conn failed: %v", err)
			return
		}
		wsc.SetSession("s")
		if !wsc.IsAsyncWrite() {
			vsched.Fail("harness|no send queue")
			return
		}
		if c.ender == "writefail" {
			fc.failAt = fc.nwrites + 3
		}
		for i := 0; i < c.writers; i++ {
			i := i
			vsched.GoNamed(fmt.Sprintf("writer%d", i), func() {
				for j := 0; j < c.msgs; j++ {
					p := make([]byte, 5)
					for k := range p {
						p[k] = byte(16*i + j + k)
					}
					_ = wsc.WriteMessage(websocket.BinaryMessage, p)
				}
			})
		}
		switch c.ender {
		case "eof":
			vsched.GoNamed("ender", func() { vsched.Point(); fc.eof = true; vsched.Record(&fc.o, 5, true, 0) })
		case "close":
			vsched.GoNamed("ender", func() { _ = wsc.Close() })
		}
		vsched.WaitIdle()
		wqCounters = map[string]int{"mallocs": tr.Mallocs, "frees": tr.Frees}
		if tr.Mallocs > 0 && tr.Frees > 0 {
			wqCounters["alloc_and_free_execs"] = 1
		}
		for _, v := range tr.Violations() {
			vsched.Fail("%s|%s (WebSocket send queue: drainer vs. CloseAndClean)", v.Sig, v.Desc)
		}
	}
}

func init() {
	rules = append(rules, "scheduled WebSocket send-queue space: writers x messages (three fragments each) x ender (stream EOF, Close, failing write) x allocator policy with every interleaving of writers, drainer goroutine, read loop and closer within the preemption bound.")
	prev := buildScheduled
	buildScheduled = func(tier string) []*vkit.Scenario {
		var out []*vkit.Scenario
		if prev != nil {
			out = prev(tier)
		}
		thorough := tier == "thorough"
		for _, pol := range []track.Policy{track.Exact, track.Pooled} {
			for _, ender := range []string{"eof", "close", "writefail", "none"} {
				for _, wm := range [][2]int{{1, 2}, {2, 1}} {
					if !thorough && pol == track.Pooled && wm[0] == 2 {
						continue
					}
					c := wqcfg{writers: wm[0], msgs: wm[1], ender: ender, pol: pol, p: 2}
					if thorough {
						c.p = 3
					}
					out = append(out, &vkit.Scenario{Name: c.name(), Body: wqBody(c), Check: schedCheck, P: c.p,
						Counters:   func() map[string]int { return wqCounters },
						NonTrivial: func(mm map[string]int) bool { return mm["alloc_and_free_execs"] > 0 },
						Budget:     90 * time.Second})
				}
			}
		}
		return out
	}
}

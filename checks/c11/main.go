// C11: pooled-buffer ownership — every buffer taken from a pool is returned at most once and is
// neither read, written, appended to nor returned again after that.
//
// The oracle is the ownership monitor verif/track (a mempool.Allocator installed through the
// public seams mempool.DefaultMemPool and Engine.BodyAllocator, one fresh instance per run): double
// free, Append/Realloc after free, read after free at the observation points (the fake
// connection's Write, the handler's view of the request body, a ParserCloser's Parse), write after
// free by poison sweep. A read of a freed buffer that passes no observation point (free the cache,
// then copy the tail out of it; keep scanning a released cache) is seen in two ways: in poison
// mode a content oracle compares, after every Parse call, what the parser retains (carry-over
// cache, message / body under assembly) with the input and searches what it reports (callback
// arguments, error texts, written bytes) for the poison pattern; in guard mode (track.EnableGuard)
// a freed buffer is inaccessible memory and the access faults where it happens. The spaces are
// enumerated exhaustively within their bounds; each lives in its own file and registers itself:
//
//	resp.go    the C09 handler-program space (explicit-state BFS), every allocator policy, and for
//	           every program every position k at which the k-th connection write fails
//	parser.go  HTTP parser feeds: request / response streams in one to four reads (every single cut,
//	           every / every structural pair and triple of cuts) and in fixed-size pieces, with the
//	           connection closed (CloseAndClean) at a cut or at the end, and with an Upgrade
//	           hand-over to a stub ParserCloser
//	ws.go      WebSocket spaces: frame sequences x receiver configurations x faults, one to four
//	           reads and byte at a time; sender side with failing writes
//
// Scheduled scenarios (close racing in-flight work) are added by the coordinator through
// buildScheduled.
//
// A violation's signature is the monitor's: kind + allocating / freeing / using call sites
// (function names only). For poison found by the content oracle the freeing buffer is the one
// freed last before the buffer holding the poison was allocated; for a guard fault it is the
// buffer the faulting address lies in and the use site is the faulting function.
package main

import (
	"encoding/json"
	"fmt"
	"os"
	"strings"
	"time"

	"verif/vkit"
)

// parts are the sequential spaces, run in registration order by every worker.
var parts []func(tier string, sh *vkit.Shard, p *vkit.Part)

func register(f ...func(tier string, sh *vkit.Shard, p *vkit.Part)) { parts = append(parts, f...) }

// replayers re-run one recorded case of a space; keyed by the scenario name used in Report.
var replayers = map[string]func(input json.RawMessage) string{}

func registerReplay(scenario string, f func(input json.RawMessage) string) { replayers[scenario] = f }

// buildScheduled, when set (by a file of the coordinator), supplies the scheduled scenarios.
var buildScheduled func(tier string) []*vkit.Scenario

// rules / assumptions contributed by the space files.
var (
	rules       []string
	assumptions []string
)

func seq(tier string, sh *vkit.Shard, p *vkit.Part) {
	sh = seqShard(tier, sh)
	if sh == nil {
		return
	}
	for i, f := range parts {
		if only := os.Getenv("VERIF_C11_PART"); only != "" && only != fmt.Sprint(i) {
			continue // development aid: run one sequential space only (0 parser, 1 resp, 2 ws)
		}
		t0 := time.Now()
		f(tier, sh, p)
		if os.Getenv("VERIF_TIMING") != "" {
			// diagnostics only (which space costs what in which worker); decides nothing
			fmt.Fprintf(os.Stderr, "timing shard %d/%d part %d: %.1fs\n", sh.I, sh.N, i, time.Since(t0).Seconds())
		}
	}
}

// seqShard decides which worker enumerates which sequential work items. vkit deals the
// scheduled scenarios out round-robin and then hands the same selector to Seq; in the quick tier
// one scheduled scenario (the write queue with close racing at preemption bound 2) alone takes
// about as long as everything else a worker does, so the worker that holds it gets no sequential
// items and the others share them. This changes only who does what: every item is still
// enumerated by exactly one worker.
func seqShard(tier string, sh *vkit.Shard) *vkit.Shard {
	if sh.N < 4 || buildScheduled == nil {
		return sh
	}
	heavy, maxP, unique := -1, 0, false
	for i, sc := range buildScheduled(tier) {
		if !strings.HasPrefix(sc.Name, "writequeue ") {
			continue // the send-queue scenarios are small at any bound used here
		}
		switch {
		case sc.P > maxP:
			heavy, maxP, unique = i, sc.P, true
		case sc.P == maxP:
			unique = false
		}
	}
	if !unique {
		return sh
	}
	hs := heavy % sh.N
	switch {
	case sh.I == hs:
		return nil
	case sh.I > hs:
		return &vkit.Shard{I: sh.I - 1, N: sh.N - 1}
	}
	return &vkit.Shard{I: sh.I, N: sh.N - 1}
}

func replay(scenario string, input json.RawMessage) string {
	if f := replayers[scenario]; f != nil {
		return f(input)
	}
	return "no replayer registered for scenario " + scenario
}

func main() {
	rule := "a case is one execution of the real code under a fresh tracking allocator; it is non-trivial when the allocator saw at least one Malloc and one Free; "
	for _, r := range rules {
		rule += r + " "
	}
	spec := &vkit.Spec{
		Property: "C11", Level: "model_checking",
		Rule: rule,
		Assumptions: append([]string{
			"the tracking allocator never recycles memory, so a misuse is observed where it happens instead of as corruption elsewhere; capacity policies exact / pooled (cap >= 1024) / stale (pooled + recycled contents) and a moving Append (as mempool.NewAligned) are all run",
			"two ways to see a use of a freed buffer that passes no allocator call: poison mode (Free overwrites the buffer; observation points compare addresses, a content oracle looks for the poison in what the parsers retain and report, a sweep finds writes) and guard mode (Free makes the buffer's pages inaccessible, any read or write by the code under test faults at the instruction; nbio's recover logs the fault, the address identifies the buffer). A recovered fault lets the entry point return as after any recovered panic",
			"Free of memory the allocator never handed out (zero-capacity fabricated slices) is not a violation; leaks are not violations (pools are garbage collected)",
			"a failing connection write returns (0, err) and every later write fails too",
		}, assumptions...),
		Seq: seq, ReplaySeq: replay, MinNonTrivial: 1000,
	}
	if buildScheduled != nil {
		spec.Build = buildScheduled
	}
	vkit.Main(spec)
}

package main

import (
	"encoding/json"
	"fmt"
	"os"
	"time"

	"verif/seqx/respgen"
	"verif/track"
	"verif/vkit"
)

// Space 1: the handler-program space of C09 (same generator, same BFS), run under every
// allocator policy, and for every program once per position k with the k-th connection write
// (and all later ones) failing — the error paths of Write, writeChunk, ReadFrom, Flush, flush and
// flushResponse's release code.

func init() {
	register(respPart)
	registerReplay("resp-program", respReplay)
	rules = append(rules, "[resp] every handler program of the C09 alphabet up to length 3 (quick, quick alphabet) / 4 (thorough, thorough alphabet) x 4 request versions, executed through Parser.Parse -> handler -> flushResponse -> release under 4 allocator variants, plus one execution per (variant, k) with the k-th connection write failing, k = 1..number of writes of the failure-free run;")
	assumptions = append(assumptions, "[resp] the handler ignores the errors its operations return and carries on (worst case for the writer's error paths)")
}

var allocVariants = []respgen.RunOpt{
	{Policy: track.Exact},
	{Policy: track.Pooled},
	{Policy: track.Stale},
	{Policy: track.Exact, Move: true},
}

type respInput struct {
	Program respgen.Program `json:"program"`
	Policy  int             `json:"policy"`
	Move    bool            `json:"move"`
	FailAt  int             `json:"fail_at"`
	Text    string          `json:"text"`
}

func reportTrack(p *vkit.Part, r *respgen.Result, scenario string, in interface{}, what string) {
	for _, v := range r.Viol {
		p.Report(v.Sig, what+"\n  "+v.Desc, scenario, in)
	}
}

func accountRun(p *vkit.Part, space string, r *respgen.Result, newState bool) {
	t := r.T
	st := 0
	if newState {
		st = 1
	}
	p.Case(t.Mallocs > 0 && t.Frees > 0, st, 1)
	p.Count(space+"_runs", 1)
	p.Count(space+"_mallocs", t.Mallocs)
	p.Count(space+"_frees", t.Frees)
	p.Count(space+"_appends", t.Appends)
	if r.Failed > 0 {
		p.Count(space+"_runs_with_failed_conn_write", 1)
	}
	if r.Panic != "" {
		p.Count(space+"_runs_with_handler_panic(C09)", 1)
	}
	if r.Hang {
		p.Errorf("%s: run did not return within the watchdog time: %s", space, r.Prog.String())
	}
	if len(r.Viol) > 0 {
		p.Count(space+"_runs_with_violation", 1)
	}
}

func respPart(tier string, sh *vkit.Shard, p *vkit.Part) {
	cfg := respgen.QuickConfig()
	cfg.Depth = 3
	limit := 60 * time.Second
	if tier == "thorough" {
		cfg = respgen.ThoroughConfig()
		cfg.Depth = 4
		limit = 14 * time.Minute
	}
	if d := os.Getenv("VERIF_C11_DEPTH"); d != "" {
		fmt.Sscanf(d, "%d", &cfg.Depth)
	}
	deadline := time.Now().Add(limit)
	env := respgen.GetEnv()
	x := &respgen.Explorer{Env: env, Cfg: cfg, Opt: allocVariants[1]}
	x.Stop = func() bool { return time.Now().After(deadline) }
	x.Visit = func(n *respgen.Node) {
		for vi, v := range allocVariants {
			var r *respgen.Result
			if v == x.Opt {
				r = n.R
			} else {
				r = env.Run(n.Prog, v, false)
			}
			accountRun(p, "resp", r, n.New && vi == 0)
			p.Outcome(fmt.Sprintf("resp %s writes=%d mallocs=%d frees=%d viol=%d", v, r.NWrite, r.T.Mallocs, r.T.Frees, len(r.Viol)))
			what := fmt.Sprintf("%s [allocator %s]", n.Prog.String(), v)
			reportTrack(p, r, "resp-program", respInput{Program: n.Prog, Policy: int(v.Policy), Move: v.Move, Text: what}, what)
			nw := r.NWrite
			for k := 1; k <= nw; k++ {
				fv := v
				fv.FailAt = k
				fr := env.Run(n.Prog, fv, false)
				accountRun(p, "resp", fr, false)
				what := fmt.Sprintf("%s [allocator %s, connection write %d of %d fails]", n.Prog.String(), v, k, nw)
				reportTrack(p, fr, "resp-program", respInput{Program: n.Prog, Policy: int(v.Policy), Move: v.Move, FailAt: k, Text: what}, what)
				fr.Release(env)
			}
			if r != n.R {
				r.Release(env)
			}
		}
		if len(n.Prog.Ops) == cfg.Depth {
			p.Sample(map[string]interface{}{"space": "resp", "program": n.Prog.String(), "conn_writes": n.R.NWrite, "mallocs": n.R.T.Mallocs, "frees": n.R.T.Frees})
		}
	}
	x.Explore(sh)
	if x.Aborted {
		p.Incompletef("resp: wall-clock cap reached before all depth-%d sub-trees were explored", cfg.Depth)
	}
	p.Count("resp_probe_runs", x.Probes)
}

func respReplay(in json.RawMessage) string {
	var inp respInput
	if err := json.Unmarshal(in, &inp); err != nil {
		return "bad replay input: " + err.Error()
	}
	env := respgen.GetEnv()
	opt := respgen.RunOpt{Policy: track.Policy(inp.Policy), Move: inp.Move, FailAt: inp.FailAt}
	r := env.Run(inp.Program, opt, true)
	fmt.Printf("program: %s [%s]\n", inp.Program.String(), opt)
	for i, o := range r.Ops {
		fmt.Printf("  op %d %-16s -> n=%d err=%q wire %d->%d buffered=%d\n", i, inp.Program.Ops[i], o.N, o.Err, o.Wire0, o.Wire1, o.Buffered)
	}
	fmt.Printf("conn: %d calls, %d failed, writes %v, closed=%d; allocator: %d mallocs %d frees %d appends; panic=%q\n",
		r.NWrite, r.Failed, r.Writes, r.Closed, r.T.Mallocs, r.T.Frees, r.T.Appends, r.Panic)
	out := ""
	for _, v := range r.Viol {
		out += v.Sig + " | " + v.Desc + "\n"
	}
	return out
}

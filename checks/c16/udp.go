package main

// UDP session timeouts (added after seeded change C16-m7, which stopped renewing a session's
// deadline for every datagram but its first). A UDP server connection on the simulated kernel is
// served by the poller; every datagram is attributed to the session of its remote address
// (readUDP), and with Config.UDPReadTimeout = T > 0 every datagram sets ITS session's read
// deadline to now + T. One network thread sends the datagrams of one or two remotes at given
// virtual instants and waits for each to be handled; a datagram's handler may also call
// SetReadDeadline on its session itself (now + 9 s, or the zero time). Virtual timers fire when
// every thread is blocked (the main thread is the clock, as in the calm keep-alive scenarios); the
// placement of a firing relative to the setting calls is what the core half explores.
//
// Reference model per session: deadline = (instant its last datagram was read) + T, bracketed by
// [send + T, handler + T]; replaced by what the handler sets explicitly; none when T = 0 and
// nothing was set, or after an explicit clear. Oracle as for every other deadline: the session is
// closed with ErrReadTimeout by a firing inside the model's interval, never earlier, another
// session's datagrams change nothing, no timer of the session is armed at its close notification,
// a session without deadline is open at the end. A remote whose session was closed opens a new
// session with its next datagram.

import (
	"fmt"
	"net"
	"strings"
	"time"

	"github.com/lesismal/nbio"

	"verif/ekit"
	"verif/track"
	"verif/vkit"
	"verif/vsched"
	"verif/vshim/vsys"
	"verif/vshim/vtime"
)

const udpExplicit = 9 * time.Second // what a handler sets with an explicit SetReadDeadline

type ustep struct {
	gap    int  // seconds slept before the datagram
	remote byte // A | B
	act    byte // d plain datagram | h handler calls SetReadDeadline(now+9s) | z handler calls SetReadDeadline(zero)
}

type ucfg struct {
	mode  ekit.Mode
	t     int // UDPReadTimeout in seconds (0: disabled)
	steps []ustep
	p     int
}

func (c ucfg) name() string {
	var st []string
	for _, s := range c.steps {
		x := fmt.Sprintf("%d:%c", s.gap, s.remote)
		switch s.act {
		case 'h':
			x += "+set9"
		case 'z':
			x += "+clear"
		}
		st = append(st, x)
	}
	return fmt.Sprintf("udp %s T=%d steps=[%s]", c.mode, c.t, strings.Join(st, " "))
}

type usession struct {
	conn   *nbio.Conn
	remote byte
	has    bool // a deadline exists
	lo, hi time.Time
	why    string
	fires  []fireRec
	closed bool
}

type uworld struct {
	log      vsched.Obj
	seq      int
	t        time.Duration
	sessions []*usession
	byConn   map[*nbio.Conn]*usession
	sent     int
	handled  int
	sentAt   time.Time
	curAct   byte
	fails    []string
	counters map[string]int
	netEnd   bool
}

func (w *uworld) tick() {
	w.seq++
	vsched.Record(&w.log, 1, true, uint64(w.seq))
}

func (w *uworld) failf(format string, a ...interface{}) {
	w.fails = append(w.fails, fmt.Sprintf(format, a...))
}

func (s *usession) dlString() string {
	if !s.has {
		return "none (" + s.why + ")"
	}
	if s.hi.After(s.lo) {
		return fmt.Sprintf("%s..%s (%s)", rel(s.lo), rel(s.hi), s.why)
	}
	return fmt.Sprintf("%s (%s)", rel(s.lo), s.why)
}

func readArmed(c *nbio.Conn) tstate {
	r, _ := c.VerifDeadlineTimers()
	return readTimer(r)
}

// fireOne fires the earliest virtual timer and judges it if it was a session's read timer.
func (w *uworld) fireOne() {
	pre := make([]tstate, len(w.sessions))
	for i, s := range w.sessions {
		pre[i] = readArmed(s.conn)
	}
	if !vtime.FireNext() {
		return
	}
	at := vtime.VNow()
	for i, s := range w.sessions {
		if !pre[i].armed || readArmed(s.conn).armed {
			continue
		}
		w.counters["timers_fired"]++
		fr := fireRec{at: at}
		switch {
		case s.closed:
			fr.verdict = "stale"
			fr.detail = fmt.Sprintf("the read timer of the session of remote %c fired at %s after the session's close notification", s.remote, rel(at))
		case !s.has:
			fr.verdict = "stale"
			fr.detail = fmt.Sprintf("the read timer of the session of remote %c fired at %s although the session has no deadline: %s", s.remote, rel(at), s.dlString())
		case at.Before(s.lo):
			fr.verdict = "early"
			fr.detail = fmt.Sprintf("the read timer of the session of remote %c fired at %s; its deadline is %s", s.remote, rel(at), s.dlString())
		case at.After(s.hi):
			fr.verdict = "legit"
			w.failf("udp-late remote=%c|the deadline of the session of remote %c is %s, but its read timer fired only at %s", s.remote, s.remote, s.dlString(), rel(at))
		default:
			fr.verdict = "legit"
			w.counters["fire_legit"]++
		}
		s.fires = append(s.fires, fr)
		return
	}
	w.counters["sleep_wakeups"]++
}

func ubody(c ucfg) func() {
	return func() {
		vsys.Configure(false, false)
		tr := track.New(track.Exact)
		w := &uworld{counters: map[string]int{}, byConn: map[*nbio.Conn]*usession{}, t: time.Duration(c.t) * time.Second}
		lastCounters, lastOutcome = w.counters, "setup-failed"
		conf := nbio.Config{Name: "c16u", NPoller: 1, ReadBufferSize: 16, BodyAllocator: tr, UDPReadTimeout: w.t}
		c.mode.Apply(&conf)
		g := nbio.NewEngine(conf)
		g.OnOpen(func(cc *nbio.Conn) {
			w.tick()
			s := &usession{conn: cc, remote: '?', why: "new session"}
			w.sessions = append(w.sessions, s)
			w.byConn[cc] = s
			w.counters["udp_sessions_opened"]++
		})
		g.OnData(func(cc *nbio.Conn, data []byte) {
			w.tick()
			s := w.byConn[cc]
			if s == nil || len(data) == 0 {
				w.failf("harness|datagram delivered on an unknown connection")
				w.handled++
				return
			}
			s.remote = data[0]
			now := vtime.VNow()
			if s.closed {
				w.counters["datagram_delivered_on_closed_session"]++
			} else {
				if w.t > 0 {
					if s.has {
						w.counters["udp_deadline_renewed_by_later_datagram"]++
					}
					s.has, s.lo, s.hi = true, w.sentAt.Add(w.t), now.Add(w.t)
					s.why = fmt.Sprintf("datagram of %c read at %s + UDPReadTimeout %v", s.remote, rel(now), w.t)
				}
				switch w.curAct {
				case 'h':
					_ = cc.SetReadDeadline(vtime.Now().Add(udpExplicit))
					w.tick()
					s.has, s.lo, s.hi = true, now.Add(udpExplicit), vtime.VNow().Add(udpExplicit)
					s.why = fmt.Sprintf("SetReadDeadline(now+%v) in the handler at %s", udpExplicit, rel(now))
					w.counters["udp_explicit_deadline_set_in_handler"]++
				case 'z':
					_ = cc.SetReadDeadline(time.Time{})
					w.tick()
					s.has, s.why = false, "cleared in the handler at "+rel(now)
					w.counters["udp_deadline_cleared_in_handler"]++
				}
			}
			w.handled++
		})
		g.OnClose(func(cc *nbio.Conn, err error) {
			w.tick()
			s := w.byConn[cc]
			if s == nil {
				w.failf("harness|close notification for an unknown connection (%v)", err)
				return
			}
			if s.closed {
				w.counters["second_close_notification_judged_by_C03"]++
				return
			}
			s.closed = true
			at := vtime.VNow()
			w.counters["udp_sessions_closed"]++
			if errClass(err) != "rtimeout" {
				w.failf("udp-unexpected-close err=%s|the session of remote %c was closed with %v at %s; only its read deadline (%s) can end it in this scenario", errClass(err), s.remote, err, rel(at), s.dlString())
				return
			}
			ok := false
			for _, f := range s.fires {
				if f.verdict == "legit" {
					ok = true
				}
			}
			switch {
			case ok:
			case len(s.fires) > 0:
				w.failf("udp-%s-close|the session of remote %c was closed with %q at %s: %s", s.fires[0].verdict, s.remote, err, rel(at), s.fires[0].detail)
			default:
				w.failf("udp-timeout-close-without-expiry|the session of remote %c was closed with %q at %s although its read timer never fired", s.remote, err, rel(at))
			}
			if r, wt := cc.VerifDeadlineTimers(); readTimer(r).armed || readTimer(wt).armed {
				w.failf("udp-timer-armed-after-close|the session of remote %c is closed (notified at %s) but a deadline timer of it is still armed: %v", s.remote, rel(at), vtime.ArmedNames())
			}
			s.has, s.why = false, "closed at "+rel(at)
		})
		if err := g.Start(); err != nil {
			vsched.Fail("harness|engine start: %v", err)
			return
		}
		fd, up := vsys.NewUDPSocket(9000)
		server := nbio.VerifNewConn(fd, nbio.ConnTypeUDPServer, &net.UDPAddr{IP: net.IPv4(127, 0, 0, 1), Port: 9000}, nil)
		if _, err := g.AddConn(server); err != nil {
			vsched.Fail("harness|AddConn: %v", err)
			return
		}
		vsched.WaitIdle()
		vsched.GoNamed("network", func() {
			for i, st := range c.steps {
				if st.gap > 0 {
					vtime.Sleep(time.Duration(st.gap) * time.Second)
				}
				w.tick()
				w.sent++
				w.sentAt, w.curAct = vtime.VNow(), st.act
				up.Send(7001+int(st.remote-'A'), []byte{st.remote, byte(i)})
				vsched.Block("network: datagram in flight", func() bool { return w.handled >= w.sent })
				w.tick()
			}
			w.netEnd = true
		})
		for {
			vsched.WaitIdle()
			if vtime.Armed() == 0 {
				break
			}
			w.tick()
			w.fireOne()
		}
		// ---- final oracle
		w.tick()
		if !w.netEnd {
			w.failf("stuck|the network thread did not finish (a datagram was never delivered)")
		}
		open := 0
		for _, s := range w.sessions {
			closed, _ := s.conn.IsClosed()
			switch {
			case closed && !s.closed:
				w.counters["closed_without_notification_judged_by_C03"]++
			case !closed && s.has:
				w.failf("udp-deadline-not-enforced remote=%c|the session of remote %c has the deadline %s, every pending timer has fired (virtual time %s), and it is still open", s.remote, s.remote, s.dlString(), rel(vtime.VNow()))
			case !closed:
				open++
				w.counters["udp_sessions_open_at_end_without_deadline"]++
			}
		}
		if errs := vkit.Log.TakeErrors(); len(errs) > 0 {
			w.failf("logged-error|nbio logged an error (a recovered panic?): %s", errs[0])
		}
		if v := tr.Violations(); len(v) > 0 {
			w.counters["ownership_violations_reported_by_C11"] += len(v)
		}
		lastOutcome = fmt.Sprintf("udp sessions=%d closed=%d open=%d at %s", len(w.sessions), w.counters["udp_sessions_closed"], open, rel(vtime.VNow()))
		for _, f := range w.fails {
			vsched.Fail("%s", f)
		}
	}
}

func udpScenarios(tier string) []weighted {
	thorough := tier == "thorough"
	var out []weighted
	type ul struct {
		t     int
		steps string // "gap:remote[+h|+z] ..."
		quick bool
	}
	for _, x := range []ul{
		// one remote, T = 5 s: gaps below, equal to and above T
		{5, "0:A", true}, {5, "0:A 3:A", true}, {5, "0:A 3:A 3:A", true}, {5, "0:A 5:A", true}, {5, "0:A 6:A", true}, {5, "0:A 4:A 5:A", false}, {5, "2:A 3:A 6:A 1:A", false},
		// two remotes: each datagram renews its own session only
		{5, "0:A 2:B 2:A", true}, {5, "0:A 0:B 3:B", true}, {5, "0:A 2:B 2:A 2:B", true}, {5, "0:A 3:B 3:A 3:B", true}, {5, "0:A 5:B", false}, {5, "0:A 2:B 4:B 4:B", false},
		// explicit SetReadDeadline on the session from the handler; the next datagram sets now + T again
		{5, "0:A+h", true}, {5, "0:A+h 3:A", true}, {5, "0:A 3:A+z", true}, {5, "0:A+z 3:A", true}, {5, "0:A 2:B+h 2:A", true}, {5, "0:A+z 0:B", false}, {5, "0:A+h 8:A+h", false},
		// UDPReadTimeout disabled: no session is ever closed by a timer unless its handler sets a deadline
		{0, "0:A 8:A", true}, {0, "0:A 3:B", true}, {0, "0:A+h", true}, {0, "0:A+h 3:A", true}, {0, "0:A+h 3:A+z", true}, {0, "0:A+h 3:B 7:B", false},
	} {
		if !x.quick && !thorough {
			continue
		}
		var steps []ustep
		for _, f := range strings.Fields(x.steps) {
			st := ustep{act: 'd'}
			if i := strings.IndexByte(f, '+'); i >= 0 {
				st.act = f[i+1]
				f = f[:i]
			}
			if _, err := fmt.Sscanf(f, "%d:%c", &st.gap, &st.remote); err != nil {
				panic("c16: bad udp step list " + x.steps)
			}
			steps = append(steps, st)
		}
		for _, m := range ekit.Modes {
			c := ucfg{mode: m, t: x.t, steps: steps, p: 2}
			if thorough {
				c.p = 3
			}
			out = append(out, weighted{&vkit.Scenario{Name: c.name(), Body: ubody(c), Check: check, P: c.p,
				Counters: func() map[string]int { return lastCounters }, Outcome: func() string { return lastOutcome },
				NonTrivial: func(m map[string]int) bool {
					return m["timers_fired"] > 0 || m["udp_sessions_open_at_end_without_deadline"] > 0
				}}, 300})
		}
	}
	return out
}

package main

// Keep-alive half of C16: a real nbhttp.Engine (IOModNonBlocking, KeepaliveTime = 7 s) on a real
// nbio engine on the simulated kernel and virtual time. One connection is injected with
// AddConnNonTLSNonBlocking at virtual time 0. A client thread runs a list of steps "sleep g
// seconds, then send one complete HTTP/1.1 request" (or, in the WebSocket variant, an upgrade
// request followed by "sleep g, send one text message"); the clock thread fires virtual timers
// exactly as in the core half. Reference model: lastActivity = accept, end of each response
// (HTTP) / upgrade and each message (WebSocket); the connection must be closed by its read
// deadline at lastActivity + keep-alive time, not earlier, and with ErrReadTimeout.
//
// The kind of inbound activity is a dimension of its own (added after seeded change C16-m3, which
// stopped renewing for control frames and was invisible while the client only sent text
// messages): WebSocket text / binary message, ping, pong, and a fragmented message whose
// fragments arrive separated by gaps (also with a control frame between them); HTTP complete
// request and a POST whose head and body arrive separated by a gap. What renews on the unchanged
// tree is every *handled unit*: handleWsMessage's deferred SetReadDeadline runs for each complete
// data message and for each control frame (ping, pong), flushResponse's for each response. Bytes
// that do not complete a unit (a first or middle fragment, a request head without its body) run
// no handler and renew nothing; the statement does not say whether such a connection is "silent",
// so the model accepts a close anywhere between lastHandledUnit + keep-alive and
// lastInboundByte + keep-alive for them (see Assumptions).
//
// Two more dimensions (after seeded change C16-m5 and an observation of its author):
// Upgrader.KeepaliveTime is 0 (disabled: the upgrade must cancel the HTTP deadline, afterwards no
// timer may close the connection and "open at the end" is the expected outcome), smaller than,
// equal to or larger than the engine's HTTP keep-alive time (kcfg.wska); and the first request may
// already be in the socket when the connection is handed to AddConnNonTLSNonBlocking (kcfg.early),
// so that it can be handled while that call is still running.

import (
	"bytes"
	"fmt"
	"net"
	"net/http"
	"strings"
	"time"

	"github.com/lesismal/nbio"
	"github.com/lesismal/nbio/mempool"
	"github.com/lesismal/nbio/nbhttp"
	"github.com/lesismal/nbio/nbhttp/websocket"

	"verif/ekit"
	"verif/track"
	"verif/vkit"
	"verif/vsched"
	"verif/vshim/vsys"
	"verif/vshim/vtime"
)

const (
	httpKeepalive = 7 * time.Second
	// the default Upgrader.KeepaliveTime of the scenarios, in seconds: different from the HTTP value
	// so that a mix-up is visible. The value is a dimension (kcfg.wska): 0 (keep-alive disabled on
	// the WebSocket: the upgrade clears the HTTP deadline and nothing may close the connection any
	// more), smaller than (4), equal to (7) and larger than (9) the engine's HTTP keep-alive time
	defaultWSKA = 4
)

// kstep is one step of the client: sleep gap seconds, then send one unit of the given kind.
//
//	HTTP       Q complete GET request      H head of a POST (Content-Length: 4), nothing handled yet
//	           Y the 4 body bytes of that POST (completes the request)
//	WebSocket  T text message  B binary message  I ping  O (unsolicited) pong
//	           F first fragment of a text message (FIN=0)   M middle fragment (continuation, FIN=0)
//	           C last fragment (continuation, FIN=1: completes the message)
type kstep struct {
	gap  int
	kind byte
}

// partial: the unit does not complete anything the server handles.
func (s kstep) partial() bool { return s.kind == 'H' || s.kind == 'F' || s.kind == 'M' }

var kindNames = map[byte]string{'Q': "request", 'H': "post-head", 'Y': "post-body", 'T': "text", 'B': "binary", 'I': "ping", 'O': "pong", 'F': "frag-first", 'M': "frag-middle", 'C': "frag-last"}

type kcfg struct {
	mode  ekit.Mode
	exec  string // inline | go
	ws    bool
	steps []kstep
	work  int // virtual seconds the HTTP handler / WebSocket message or control-frame handler takes (0: none)
	// calm: virtual timers fire only when every thread is blocked (the main thread is the clock)
	// instead of wherever the scheduler can place the clock thread. Far fewer executions per
	// exchange, which pays for longer unit sequences; the placement of a firing relative to the
	// server's threads is what the other scenarios explore.
	calm bool
	// wska is Upgrader.KeepaliveTime in seconds (0: disabled)
	wska int
	// early: the client's first unit (the upgrade request / the first HTTP request) is already in
	// the socket when the connection is handed to AddConnNonTLSNonBlocking, so the server may handle
	// it while that call is still running (the call arms the accept-time deadline after it has
	// registered the connection with the poller)
	early bool
	p, d  int
}

func (c kcfg) name() string {
	kind, def := "http", byte('Q')
	if c.ws {
		kind, def = "ws", 'T'
	}
	plain := true
	gaps := []int{}
	var st []string
	for _, s := range c.steps {
		if s.kind != def {
			plain = false
		}
		gaps = append(gaps, s.gap)
		st = append(st, fmt.Sprintf("%d:%s", s.gap, kindNames[s.kind]))
	}
	what := fmt.Sprintf("gaps=%v", gaps)
	if !plain {
		what = "steps=[" + strings.Join(st, " ") + "]"
	}
	if c.calm {
		what = "calm " + what
	}
	if c.ws && c.wska != defaultWSKA {
		what = fmt.Sprintf("wska=%d ", c.wska) + what
	}
	if c.early {
		what = "early " + what
	}
	if c.work > 0 {
		return fmt.Sprintf("keepalive %s %s exec=%s %s work=%ds", kind, c.mode, c.exec, what, c.work)
	}
	return fmt.Sprintf("keepalive %s %s exec=%s %s", kind, c.mode, c.exec, what)
}

type kworld struct {
	log  vsched.Obj
	seq  int
	conn *nbio.Conn
	peer *vsys.Peer
	ka   time.Duration // the keep-alive time that currently applies

	// model: the read deadline lies in [lo, hi]
	lo, hi time.Time
	// activity in flight: units (requests / messages) handed to the kernel by the client and
	// not yet completely processed by the server
	sent, completed int
	started         int       // handler / message callback invocations
	startedAt       time.Time // virtual time of the latest one
	// the renewal cannot happen before this instant: the end of the handler for a response or a
	// message (the renewal follows the handler), the handler's entry for an upgrade (the renewal
	// happens inside Upgrade)
	renewNotBefore time.Time
	working        bool // a handler is spending virtual time (the clock may run)
	upgraded       bool
	// keep-alive is disabled on the upgraded connection (Upgrader.KeepaliveTime = 0): no deadline
	// exists, any firing of the connection's read timer is stale
	disabled   bool
	disabledAt time.Time
	// early variant: what was observed when AddConnNonTLSNonBlocking returned
	overrideNote string
	// the connection's read timer as the upgrade left it (read in the handler, right after
	// Upgrade returned)
	afterUpgrade    tstate
	afterUpgradeSet bool
	// bytes that completed nothing arrived (a fragment, a request head): whether they count as
	// activity is left open, a firing up to their arrival + keep-alive time is accepted
	slackHi time.Time
	// what the exchange in flight is / what the last renewal was for (signatures, counters)
	curKind, lastRenew string
	whenBefore         time.Time // the armed read deadline when the exchange in flight was sent

	fires     []fireRec
	orphanF   int
	closes    int
	closeErr  error
	closeAt   time.Time
	fails     []string
	counters  map[string]int
	clientEnd bool
}

func (w *kworld) tick() {
	w.seq++
	vsched.Record(&w.log, 1, true, uint64(w.seq))
}

func (w *kworld) failf(format string, a ...interface{}) {
	w.fails = append(w.fails, fmt.Sprintf(format, a...))
}

func (w *kworld) dlString() string {
	if w.hi.After(w.lo) {
		return fmt.Sprintf("%s..%s", rel(w.lo), rel(w.hi))
	}
	return rel(w.lo)
}

func (w *kworld) kind() string {
	if w.upgraded {
		return "ws"
	}
	return "http"
}

// clock fires timers while no exchange is in flight (the client sleeps or is done): that is
// where an idle connection expires. A firing *during* an exchange (the deadline passes while the
// request is being read, handled, answered) is offered at explicit points instead (maybeFire):
// letting the clock thread run at every blocking point of the HTTP / WebSocket stack makes the
// free-choice tree too large to finish.
func (w *kworld) clock() {
	vsched.SetDaemon()
	vsched.Block("clock: nothing to fire", func() bool {
		return vtime.Armed() > 0 && (w.sent == w.completed || w.closes > 0 || w.working)
	})
	// ---- atomic
	w.tick()
	w.fireOne()
	vsched.GoNamed("clock", w.clock)
}

// maybeFire is an explorer choice (a deviation): the virtual clock reaches the earliest pending
// timer right here, in the middle of an exchange. Only the connection's read deadline can be
// pending then (the client is waiting for the exchange to complete).
func (w *kworld) maybeFire(where string) {
	if vtime.Armed() == 0 || w.closes > 0 {
		return
	}
	if vsched.Choose(2, "fire@"+where) == 1 {
		w.tick()
		w.counters["fire_offered_mid_exchange"]++
		w.fireOne()
	}
}

func (w *kworld) fireOne() {
	pre := snapTimers(w.conn)
	if !vtime.FireNext() {
		return
	}
	at := vtime.VNow()
	post := snapTimers(w.conn)
	switch {
	case pre.t[0].armed && !post.t[0].armed:
		w.counters["timers_fired"]++
		fr := fireRec{dir: 0, at: at}
		switch {
		case w.closes > 0:
			fr.verdict = "stale"
			fr.detail = fmt.Sprintf("the read timer fired at %s after the connection's close notification", rel(at))
		case w.disabled:
			fr.verdict = "stale"
			fr.detail = fmt.Sprintf("the read timer fired at %s although keep-alive is disabled on this WebSocket connection (Upgrader.KeepaliveTime = 0; the upgrade, complete at %s, cancels the HTTP keep-alive deadline and nothing arms another)", rel(at), rel(w.disabledAt))
			w.counters["fire_while_keepalive_disabled"]++
		case at.Before(w.lo):
			fr.verdict = "early"
			fr.detail = fmt.Sprintf("the read timer fired at %s; last activity (%s, handled at %s) + keep-alive time (%v) = %s", rel(at), w.lastRenew, rel(w.lo.Add(-w.ka)), w.ka, w.dlString())
		case w.sent > w.completed:
			// the deadline is being renewed by an exchange in flight: either outcome is accepted
			fr.verdict = "racy"
			w.counters["fire_racing_exchange"]++
		case at.After(w.hi) && at.After(w.slackHi):
			fr.verdict = "legit"
			if w.overrideNote != "" {
				w.failf("accept-arming-overrides-upgrade-deadline|last activity (%s) + keep-alive time (%v) = %s, but the read timer fired only at %s: %s", w.lastRenew, w.ka, w.dlString(), rel(at), w.overrideNote)
			} else {
				w.failf("keepalive-late kind=%s after=%s|last activity (%s) + keep-alive time (%v) = %s, but the read timer fired only at %s", w.kind(), w.lastRenew, w.lastRenew, w.ka, w.dlString(), rel(at))
			}
		case at.After(w.hi):
			// between "last handled unit + keep-alive" and "last inbound byte + keep-alive"
			fr.verdict = "legit"
			w.counters["fire_after_partial_unit_counted_as_activity"]++
		default:
			fr.verdict = "legit"
			w.counters["fire_legit"]++
			if !w.slackHi.IsZero() {
				w.counters["fire_after_partial_unit_not_counted_as_activity"]++
			}
		}
		w.fires = append(w.fires, fr)
	case pre.t[1].armed && !post.t[1].armed:
		w.counters["write_timer_fired"]++
		w.failf("keepalive-unexpected-write-timer|a write deadline timer fired at %s; the scenario sets no write timeout", rel(at))
	case post.nSleep < pre.nSleep:
		w.counters["sleep_wakeups"]++
	case post.nFunc < pre.nFunc:
		w.orphanF++
		w.counters["orphan_timer_fired"]++
	}
}

// activityStart runs in the HTTP handler / WebSocket message callback.
func (w *kworld) activityStart() {
	w.tick()
	w.started++
	w.startedAt = vtime.VNow()
	w.maybeFire("handler")
	w.startedAt = vtime.VNow()
	w.renewNotBefore = w.startedAt
}

// activityWork lets the handler take virtual time, then notes when it ended: the keep-alive
// time counts from the end of the response / of the message handling, not from its beginning.
func (w *kworld) activityWork(seconds int) {
	if seconds > 0 {
		w.tick()
		w.working = true
		vtime.Sleep(time.Duration(seconds) * time.Second)
		w.tick()
		w.working = false
		w.counters["handler_took_virtual_time"]++
	}
	w.tick()
	w.renewNotBefore = vtime.VNow()
}

// executorDone runs after the connection's job batch returned (the response was flushed and
// the deadline renewed, or the message callback returned and the deferred renewal ran).
func (w *kworld) executorDone() {
	w.tick()
	if w.started > w.completed {
		w.completed = w.started
		if w.closes == 0 && w.upgraded && w.ka == 0 {
			if !w.disabled {
				w.disabled, w.disabledAt = true, vtime.VNow()
				w.lastRenew = w.curKind
			}
			w.counters["units_handled_with_keepalive_disabled"]++
		} else if w.closes == 0 {
			w.lo, w.hi = w.renewNotBefore.Add(w.ka), vtime.VNow().Add(w.ka)
			w.slackHi = time.Time{}
			w.lastRenew = w.curKind
			w.counters["renewals"]++
			w.counters["renewals_after_"+w.curKind]++
			// observed, not modelled: the armed read deadline moved forward during this exchange
			if t := snapTimers(w.conn).t[0]; t.armed && t.when.After(w.whenBefore) {
				w.counters["deadline_moved_by_"+w.curKind]++
				switch w.curKind {
				case "ping", "pong":
					w.counters["control_frames_that_renewed_the_deadline"]++
				case "frag-last":
					w.counters["fragmented_messages_that_renewed_the_deadline"]++
				case "post-body":
					w.counters["requests_in_two_parts_that_renewed_the_deadline"]++
				}
			}
		}
	}
}

func (w *kworld) onClose(c net.Conn, err error) {
	w.tick()
	w.closes++
	if w.closes > 1 {
		w.counters["second_close_notification_judged_by_C03"]++
		return
	}
	w.closeErr, w.closeAt = err, vtime.VNow()
	if errClass(err) != "rtimeout" {
		w.failf("keepalive-unexpected-close kind=%s err=%s|the %s connection was closed with %v at %s; an idle keep-alive connection is closed by its read deadline (last activity + %v = %s)", w.kind(), errClass(err), w.kind(), err, rel(w.closeAt), w.ka, w.dlString())
		return
	}
	ok := false
	for _, f := range w.fires {
		if f.verdict == "legit" || f.verdict == "racy" {
			ok = true
		}
	}
	switch {
	case ok:
	case w.disabled && w.overrideNote != "":
		w.failf("accept-arming-overrides-upgrade-deadline|closed with %q at %s although keep-alive is disabled on this WebSocket connection: %s", err, rel(w.closeAt), w.overrideNote)
	case w.disabled:
		detail := "the connection's read timer never fired"
		if n := len(w.fires); n > 0 {
			detail = w.fires[n-1].detail
		}
		w.failf("keepalive-close-while-disabled kind=ws|closed with %q at %s: %s", err, rel(w.closeAt), detail)
	case len(w.fires) > 0 && w.overrideNote != "":
		w.failf("accept-arming-overrides-upgrade-deadline|closed with %q at %s: %s: %s", err, rel(w.closeAt), w.fires[0].detail, w.overrideNote)
	case len(w.fires) > 0:
		w.failf("keepalive-%s-close kind=%s after=%s|closed with %q at %s: %s", w.fires[0].verdict, w.kind(), w.lastRenew, err, rel(w.closeAt), w.fires[0].detail)
	default:
		w.failf("keepalive-timeout-close-without-expiry kind=%s|closed with %q at %s although the connection's read timer never fired", w.kind(), err, rel(w.closeAt))
	}
	ts := snapTimers(w.conn)
	if ts.t[0].armed || ts.t[1].armed || ts.orphans() > 0 {
		w.failf("keepalive-timer-armed-after-close kind=%s|deadline timers still armed at the close notification: %v", w.kind(), vtime.ArmedNames())
	}
}

func httpRequest(i int) []byte {
	return []byte(fmt.Sprintf("GET /r%d HTTP/1.1\r\nHost: h\r\n\r\n", i))
}

func upgradeRequest() []byte {
	return []byte("GET /ws HTTP/1.1\r\nHost: h\r\nConnection: Upgrade\r\nUpgrade: websocket\r\nSec-WebSocket-Version: 13\r\nSec-WebSocket-Key: dGhlIHNhbXBsZSBub25jZQ==\r\n\r\n")
}

// wsFrame is one masked client frame (payload < 126 bytes).
func wsFrame(opcode byte, fin bool, payload []byte) []byte {
	mask := [4]byte{1, 2, 3, 4}
	b0 := opcode
	if fin {
		b0 |= 0x80
	}
	b := []byte{b0, 0x80 | byte(len(payload))}
	b = append(b, mask[:]...)
	for j, c := range payload {
		b = append(b, c^mask[j%4])
	}
	return b
}

// unitBytes is what the client sends for step i of the given kind.
func unitBytes(kind byte, i int) []byte {
	switch kind {
	case 'Q':
		return httpRequest(i)
	case 'H':
		return []byte(fmt.Sprintf("POST /p%d HTTP/1.1\r\nHost: h\r\nContent-Length: 4\r\n\r\n", i))
	case 'Y':
		return []byte("body")
	case 'T':
		return wsFrame(1, true, []byte(fmt.Sprintf("m%d", i)))
	case 'B':
		return wsFrame(2, true, []byte{0xff, byte(i)})
	case 'I':
		return wsFrame(9, true, []byte(fmt.Sprintf("p%d", i)))
	case 'O':
		return wsFrame(10, true, []byte(fmt.Sprintf("q%d", i)))
	case 'F':
		return wsFrame(1, false, []byte(fmt.Sprintf("f%d", i)))
	case 'M':
		return wsFrame(0, false, []byte(fmt.Sprintf("g%d", i)))
	case 'C':
		return wsFrame(0, true, []byte(fmt.Sprintf("h%d", i)))
	}
	panic("c16: unknown unit kind")
}

func kbody(c kcfg) func() {
	return func() {
		vsys.Configure(false, false)
		tr := track.New(track.Pooled)
		mempool.DefaultMemPool = tr
		w := &kworld{counters: map[string]int{}, ka: httpKeepalive, lastRenew: "accept"}
		lastCounters, lastOutcome = w.counters, "setup-failed"
		var executor func(f func())
		switch c.exec {
		case "inline":
			executor = func(f func()) { f(); w.executorDone() }
		default:
			executor = func(f func()) { vsched.GoNamed("exec", func() { f(); w.executorDone() }) }
		}
		up := websocket.NewUpgrader()
		wsKA := time.Duration(c.wska) * time.Second
		up.KeepaliveTime = wsKA
		up.OnMessage(func(_ *websocket.Conn, _ websocket.MessageType, data []byte) {
			w.activityStart()
			w.counters["ws_messages_delivered"]++
			if len(data) > 2 {
				w.counters["ws_fragmented_messages_delivered"]++
			}
			w.activityWork(c.work)
		})
		// control frames: the default handlers' behaviour (a ping is answered with a pong, a pong
		// is ignored) plus the bookkeeping
		up.SetPingHandler(func(wc *websocket.Conn, data string) {
			w.activityStart()
			w.counters["ws_pings_handled"]++
			w.activityWork(c.work)
			_ = wc.WriteMessage(websocket.PongMessage, []byte(data))
		})
		up.SetPongHandler(func(_ *websocket.Conn, _ string) {
			w.activityStart()
			w.counters["ws_pongs_handled"]++
			w.activityWork(c.work)
		})
		conf := nbhttp.Config{
			Name: "c16", NPoller: 1, ReadBufferSize: 4096, KeepaliveTime: httpKeepalive,
			BodyAllocator: tr, SupportServerOnly: true, ServerExecutor: executor,
			Handler: http.HandlerFunc(func(rw http.ResponseWriter, r *http.Request) {
				w.activityStart()
				if r.URL.Path == "/ws" {
					// from here on the deadline may already be the WebSocket one
					if t := vtime.VNow().Add(wsKA); wsKA > 0 && t.Before(w.lo) {
						w.lo = t
					}
					if _, err := up.Upgrade(rw, r, nil); err != nil {
						if closed, _ := w.conn.IsClosed(); !closed {
							w.failf("harness|websocket upgrade failed on an open connection: %v", err)
						}
						w.counters["upgrade_lost_race_with_close"]++
						return
					}
					// from here on the WebSocket keep-alive time applies
					w.tick()
					w.afterUpgrade, w.afterUpgradeSet = snapTimers(w.conn).t[0], true
					w.upgraded = true
					w.ka = wsKA
					w.maybeFire("upgraded")
					return
				}
				w.activityWork(c.work)
				_, _ = rw.Write([]byte("ok"))
			}),
		}
		switch c.mode {
		case ekit.ET:
			conf.EpollMod = nbio.EPOLLET
		case ekit.ONESHOT:
			conf.EpollMod = nbio.EPOLLET
			conf.EPOLLONESHOT = nbio.EPOLLONESHOT
		}
		engine := nbhttp.NewEngine(conf)
		engine.OnClose(w.onClose)
		if err := engine.Start(); err != nil {
			vsched.Fail("harness|engine start: %v", err)
			return
		}
		w.conn, w.peer = ekit.Stream(false, 1<<20, 1<<20)
		w.lo, w.hi = vtime.VNow().Add(httpKeepalive), vtime.VNow().Add(httpKeepalive)
		firstUnit := upgradeRequest()
		firstKind := "upgrade"
		if !c.ws && len(c.steps) > 0 {
			firstUnit, firstKind = unitBytes(c.steps[0].kind, 0), kindNames[c.steps[0].kind]
		}
		if c.early {
			// the client was quick: its first unit is in the socket before the server registers the
			// connection, the poller reads it as soon as the descriptor is in the epoll set
			w.tick()
			w.sent++
			w.curKind = firstKind
			w.peer.WriteAll(firstUnit)
		}
		engine.AddConnNonTLSNonBlocking(&nbhttp.Conn{Conn: w.conn}, nil, func() {})
		// ---- atomic until WaitIdle
		w.tick()
		handledInsideAccept := c.early && w.completed >= w.sent
		if !c.early {
			w.hi = vtime.VNow().Add(httpKeepalive)
		}
		vsched.WaitIdle()
		w.tick()
		if c.early {
			// the first exchange is complete. Whatever the order of the accept-time arming and the
			// handling of the unit was, the deadline that is armed now must be the one that follows
			// from the unit (the model's [lo, hi], or none when keep-alive is disabled); what is
			// observed here only NAMES the cause, the verdict is taken where the statement speaks:
			// at the firing / the close
			if handledInsideAccept {
				w.counters["first_unit_handled_inside_AddConnNonTLSNonBlocking"]++
			}
			// (named only when somebody re-armed the timer AFTER the upgrade had left it cancelled or
			// set: a wrong deadline that the upgrade itself left behind is not this defect)
			t := snapTimers(w.conn).t[0]
			rearmed := w.afterUpgradeSet && t.armed && (!w.afterUpgrade.armed || !t.when.Equal(w.afterUpgrade.when))
			if w.closes == 0 && rearmed && (w.disabled || t.when.After(w.hi) || t.when.Before(w.lo)) {
				want := fmt.Sprintf("the %s at %s had set %s", firstKind, rel(w.lo.Add(-w.ka)), w.dlString())
				if w.disabled {
					want = fmt.Sprintf("the upgrade at %s had cancelled the deadline (Upgrader.KeepaliveTime = 0)", rel(w.disabledAt))
				}
				w.overrideNote = fmt.Sprintf("the first request was already in the socket when the connection was accepted; AddConnNonTLSNonBlocking registers the connection with the poller (engine.AddConn) BEFORE it arms the accept-time deadline, the request was handled in between (handled before the call returned: %v), %s, and the late SetReadDeadline(accept + %v) overrode that: the read timer is armed for %s", handledInsideAccept, want, httpKeepalive, rel(t.when))
			}
		} else if names := vtime.ArmedNames(); len(names) != 1 {
			vsched.Fail("keepalive-not-armed-at-accept|after AddConnNonTLSNonBlocking %d timers are armed (%v); expected exactly the connection's read deadline", len(names), names)
			return
		}
		vsched.GoNamed("client", func() {
			// one exchange at a time: the client waits until the server has processed what it sent
			// (or the connection was closed) before it sleeps again
			send := func(b []byte, kind string) {
				w.tick()
				w.sent++
				w.curKind = kind
				w.whenBefore = snapTimers(w.conn).t[0].when
				w.peer.WriteAll(b)
				w.maybeFire("sent")
				vsched.Block("client: exchange in flight", func() bool { return w.completed >= w.sent || w.closes > 0 })
				w.tick()
			}
			// bytes that complete nothing: no handler will run, the client does not wait (whether
			// the server has consumed them when the client goes on is up to the scheduler)
			sendPartial := func(b []byte, kind string) {
				w.tick()
				w.counters["partial_units_sent"]++
				if w.closes == 0 {
					w.slackHi = vtime.VNow().Add(w.ka)
				}
				w.peer.WriteAll(b)
				w.tick()
			}
			if c.ws && !c.early {
				send(upgradeRequest(), "upgrade")
			}
			for i, st := range c.steps {
				if c.early && !c.ws && i == 0 {
					continue // sent before the accept
				}
				if st.gap > 0 {
					vtime.Sleep(time.Duration(st.gap) * time.Second)
				}
				if st.partial() {
					sendPartial(unitBytes(st.kind, i), kindNames[st.kind])
				} else {
					send(unitBytes(st.kind, i), kindNames[st.kind])
				}
			}
			w.tick()
			w.clientEnd = true
		})
		if c.calm {
			for {
				vsched.WaitIdle()
				if vtime.Armed() == 0 {
					break
				}
				w.tick()
				w.fireOne()
			}
		} else {
			vsched.GoNamed("clock", w.clock)
			vsched.WaitIdle()
		}
		// ---- final oracle
		w.tick()
		if !w.clientEnd {
			w.failf("stuck|the client thread did not finish")
		}
		if n := vtime.Armed(); n != 0 {
			w.failf("harness|%d timers still armed at quiescence: %v", n, vtime.ArmedNames())
		}
		closed, _ := w.conn.IsClosed()
		if !closed && w.disabled {
			// keep-alive is off: open for ever is the expected outcome
			w.counters["ws_open_at_end_keepalive_disabled"]++
		} else if !closed {
			w.failf("keepalive-not-enforced kind=%s after=%s|the %s connection has been idle since %s (last activity: %s; keep-alive time %v), every pending timer has fired (virtual time %s), and it is still open", w.kind(), w.lastRenew, w.kind(), rel(w.lo.Add(-w.ka)), w.lastRenew, w.ka, rel(vtime.VNow()))
		} else if w.closes == 0 {
			w.counters["closed_without_notification_judged_by_C03"]++
		}
		nresp := bytes.Count(w.peer.Got, []byte("HTTP/1.1 200"))
		w.peer.Read(0)
		nresp = bytes.Count(w.peer.Got, []byte("HTTP/1.1 200"))
		w.counters["responses"] += nresp
		w.counters["exchanges_completed"] += w.completed
		if w.upgraded {
			w.counters["ws_upgrades"]++
		}
		if errs := vkit.Log.TakeErrors(); len(errs) > 0 {
			w.failf("logged-error|nbio logged an error (a recovered panic?): %s", errs[0])
		}
		if v := tr.Violations(); len(v) > 0 {
			w.counters["ownership_violations_reported_by_C11"] += len(v)
		}
		if w.closes > 0 {
			lastOutcome = fmt.Sprintf("%s closed %s at %s after %d exchanges", w.kind(), errClass(w.closeErr), rel(w.closeAt), w.completed)
		} else if w.disabled {
			lastOutcome = fmt.Sprintf("ws open, keep-alive disabled, after %d exchanges", w.completed)
		} else {
			lastOutcome = "open"
		}
		for _, f := range w.fails {
			vsched.Fail("%s", f)
		}
	}
}

func keepaliveScenarios(tier string) []weighted {
	thorough := tier == "thorough"
	var out []weighted
	add := func(c kcfg) {
		nz := 0
		for i, st := range c.steps {
			if st.gap > 0 || i == 0 {
				nz++
			}
		}
		weight := 300.0
		switch {
		case nz >= 3:
			weight = 20000
		case nz == 2:
			weight = 3000
		}
		if c.ws {
			weight *= 1.5
		}
		for i := 0; i < c.p; i++ {
			weight *= 4
		}
		out = append(out, weighted{&vkit.Scenario{Name: c.name(), Body: kbody(c), Check: check, P: c.p, D: c.d,
			Opts:     vsched.Options{Horizon: 60000},
			Counters: func() map[string]int { return lastCounters }, Outcome: func() string { return lastOutcome },
			NonTrivial: func(m map[string]int) bool {
				return m["timers_fired"] > 0 || m["ws_open_at_end_keepalive_disabled"] > 0
			}}, weight})
	}
	// both tiers use gap lists of length <= 2; thorough adds a gap value, all epoll modes for the
	// two-gap HTTP lists, the two-gap WebSocket lists and one more preemption for the short lists
	maxLen := 2
	for _, ws := range []bool{false, true} {
		// gaps: shorter than, equal to (tie between the client's wake-up and the deadline) and
		// longer than the keep-alive time that applies (HTTP 7 s, WebSocket 4 s)
		gapSet := []int{0, 3, 7, 8}
		if thorough {
			gapSet = []int{0, 3, 6, 7, 8}
		}
		if ws {
			gapSet = []int{0, 2, 4, 5}
			if thorough {
				gapSet = []int{0, 2, 3, 4, 5}
			}
		}
		var glists [][]int
		var rec func(cur []int)
		rec = func(cur []int) {
			glists = append(glists, append([]int(nil), cur...))
			if len(cur) == maxLen {
				return
			}
			for _, g := range gapSet {
				rec(append(append([]int(nil), cur...), g))
			}
		}
		rec(nil)
		for _, m := range ekit.Modes {
			for _, e := range []string{"go"} {
				for _, gl := range glists {
					// bounds: the WebSocket stack has about three times as many blocking points per
					// exchange as the HTTP one; the longest lists run with free choices only (every
					// order at blocking points, ties, and the offered mid-exchange firings)
					var p, d int
					switch {
					case !thorough && !ws:
						switch {
						case len(gl) <= 1:
							p, d = 1, 1
						case m == ekit.LT:
							p, d = 0, 1
						default:
							continue // the epoll mode only matters for how the request is read
						}
					case !thorough && ws:
						if len(gl) > 1 {
							continue
						}
						p, d = 0, 1
					case thorough && !ws:
						switch {
						case len(gl) <= 1:
							p, d = 1, 2
						default:
							p, d = 0, 1
						}
					default:
						switch {
						case len(gl) <= 1:
							p, d = 1, 1
						case m == ekit.LT:
							p, d = 0, 1
						default:
							continue
						}
					}
					def := byte('Q')
					if ws {
						def = 'T'
					}
					var steps []kstep
					for _, g := range gl {
						steps = append(steps, kstep{g, def})
					}
					add(kcfg{mode: m, exec: e, ws: ws, steps: steps, wska: defaultWSKA, p: p, d: d})
					// the same list with a handler that takes virtual time (3 of 7 s / 2 of 4 s): the
					// keep-alive time must count from the end of the exchange
					if (len(gl) == 1 && (thorough || !ws || m == ekit.LT)) || (len(gl) == 2 && m == ekit.LT && (thorough || (gl[0] == 3 || (gl[0] == 0 && gl[1] != 8)))) {
						work := 3
						if ws {
							work = 2
						}
						// (with the quick tier's bounds in both tiers: the sleeping handler adds a thread
						// that is enabled throughout the exchange)
						wp, wd := 0, 1
						if !ws && len(gl) == 1 && (thorough || m == ekit.LT) {
							wp = 1
						}
						if thorough && ws && len(gl) == 2 {
							continue
						}
						add(kcfg{mode: m, exec: e, ws: ws, steps: steps, work: work, wska: defaultWSKA, p: wp, d: wd})
					}
				}
			}
		}
	}
	// the kind of inbound activity. Gaps are chosen so that a renewal is observable (a unit
	// handled at time 0 moves nothing) and so that the next-to-last unit decides when the
	// connection has to go: WebSocket keep-alive 4 s, HTTP 7 s.
	type kl struct {
		ws    bool
		steps string // "gap:kind gap:kind ..."
		quick bool
		work  int
		calm  bool
		wska  int
		early bool
	}
	type kl4 struct {
		ws    bool
		steps string
		quick bool
		work  int
	}
	var klists []kl
	for _, x := range []kl4{
		// every kind on its own, 2 s after the upgrade: the close moves from +4s to +6s
		{true, "2:B", true, 0}, {true, "2:I", true, 0}, {true, "2:O", true, 0},
		// a control frame after a data message, two control frames: only the last unit counts
		{true, "2:T 3:I", false, 0}, {true, "2:I 3:O", false, 0}, {true, "3:O 3:T", false, 0}, {true, "2:I 3:I", false, 0}, {true, "2:B 2:B", false, 0},
		// control frames arriving exactly at / after the deadline
		{true, "4:I", false, 0}, {true, "5:I", false, 0}, {true, "4:O", false, 0}, {true, "5:O", false, 0}, {true, "4:B", false, 0}, {true, "0:I", false, 0}, {true, "0:O", false, 0},
		// a control-frame handler that takes virtual time: the keep-alive time counts from its end
		{true, "2:I", false, 2}, {true, "2:O", false, 2},
		// fragmented message: first fragment at +2s (completes nothing), last fragment 1 s later
		// (message handled at +3s: close at +7s); first fragment alone; last fragment too late
		{true, "2:F 1:C", true, 0}, {true, "2:F", true, 0}, {true, "2:F 3:C", false, 0}, {true, "2:F 2:C", false, 0},
		{true, "2:F 1:M 1:C", false, 0}, {true, "1:F 2:I 2:C", false, 0}, {true, "2:T 1:F 2:C", false, 0}, {true, "2:F 1:C", false, 2},
		// HTTP: a POST whose head arrives at +3s and whose body arrives 2 s later (response at +5s:
		// close at +12s), 5 s later (after the keep-alive time counted from the accept), or never
		{false, "3:H 2:Y", true, 0}, {false, "3:H", true, 0}, {false, "3:H 5:Y", true, 0}, {false, "3:H 4:Y", false, 0}, {false, "0:H 3:Y", false, 0},
		{false, "3:Q 3:H 2:Y", false, 0}, {false, "3:H 2:Y 3:Q", false, 0}, {false, "3:H 2:Y", false, 3},
	} {
		klists = append(klists, kl{x.ws, x.steps, x.quick, x.work, false, defaultWSKA, false})
	}
	// longer sequences, timers fired at quiescence only ("calm"): every ordered pair (quick) and
	// triple (thorough) of WebSocket unit kinds, 2 s after the upgrade and then 3 s apart - each unit
	// arrives later than the previous deadline would have allowed, so it is only handled if its
	// predecessor renewed -, fragmented messages with control frames in between, HTTP sequences
	wsKinds := []string{"T", "B", "I", "O"}
	for _, a := range wsKinds {
		for _, b := range wsKinds {
			klists = append(klists, kl{true, "2:" + a + " 3:" + b, true, 0, true, defaultWSKA, false})
			for _, c := range wsKinds {
				// quick: the three cyclic orders of text, ping, pong
				t := a + b + c
				klists = append(klists, kl{true, "2:" + a + " 3:" + b + " 3:" + c, t == "TIO" || t == "IOT" || t == "OTI", 0, true, defaultWSKA, false})
			}
		}
	}
	klists = append(klists, kl{true, "2:I", true, 2, true, defaultWSKA, false}, kl{true, "4:I", true, 0, true, defaultWSKA, false}, kl{true, "4:O", true, 0, true, defaultWSKA, false})
	for _, x := range []string{"2:F 1:C 3:I", "1:F 2:I 2:C", "1:F 2:O 2:C 3:T", "2:F 1:M 1:C", "2:I 3:F 1:C", "2:F 1:M", "2:T 3:F", "2:I 3:I 3:I 3:I"} {
		klists = append(klists, kl{true, x, true, 0, true, defaultWSKA, false})
	}
	for _, x := range []string{"3:Q 5:H 1:Y 6:Q", "3:H 2:Y 6:H 1:Y", "3:Q 5:H", "3:H 2:Y 6:Q 8:Q"} {
		klists = append(klists, kl{false, x, true, 0, true, defaultWSKA, false})
	}
	// Upgrader.KeepaliveTime: disabled (0: after the upgrade nothing may close the connection, it
	// is open at the end whatever the gaps - also gaps beyond the HTTP keep-alive time of 7 s, which
	// is the deadline the upgrade has to cancel), equal to (7) and larger than (9) the HTTP
	// keep-alive time. Calm, and for the disabled case also with the scheduler-placed clock.
	type kw struct {
		wska  int
		steps string
		calm  bool
		quick bool
	}
	for _, x := range []kw{
		{0, "", true, true}, {0, "8:T", true, true}, {0, "3:T 5:T", true, true}, {0, "3:I 5:O", true, true}, {0, "6:F 2:C 8:B", true, true},
		{0, "8:T", false, true}, {0, "", false, true}, {0, "3:I 5:T", false, false}, {0, "7:T", false, false}, {0, "7:I", true, false},
		{7, "3:T 6:I", true, true}, {7, "7:T", true, true}, {7, "8:O", true, true}, {7, "6:T", false, false},
		{9, "8:T", true, true}, {9, "5:T 8:I", true, true}, {9, "9:O", true, true}, {9, "10:T", true, true}, {9, "8:T", false, true}, {9, "", false, false}, {9, "9:T", false, false},
	} {
		klists = append(klists, kl{true, x.steps, x.quick, 0, x.calm, x.wska, false})
	}
	// the first unit is in the socket before the connection is accepted (calm; one preemption lets
	// the server handle it inside AddConnNonTLSNonBlocking)
	for _, x := range []kw{{defaultWSKA, "", true, true}, {0, "", true, true}, {0, "8:T", true, true}, {9, "8:T", true, true}, {defaultWSKA, "2:I", true, true}, {7, "", true, false}} {
		klists = append(klists, kl{true, x.steps, x.quick, 0, x.calm, x.wska, true})
	}
	klists = append(klists, kl{false, "0:Q 3:Q", true, 0, true, defaultWSKA, true}, kl{false, "0:H 2:Y", true, 0, true, defaultWSKA, true})
	for _, x := range klists {
		if !x.quick && !thorough {
			continue
		}
		var steps []kstep
		for _, f := range strings.Fields(x.steps) {
			var st kstep
			if _, err := fmt.Sscanf(f, "%d:%c", &st.gap, &st.kind); err != nil {
				panic("c16: bad step list " + x.steps)
			}
			steps = append(steps, st)
		}
		modes := []ekit.Mode{ekit.LT}
		if thorough && (len(steps) == 1 || x.calm) {
			modes = ekit.Modes
		}
		for _, m := range modes {
			// free choices (every order at blocking points, ties) plus one offered mid-exchange firing
			p, d := 0, 1
			if thorough && len(steps) == 1 && x.work == 0 && steps[0].gap != x.wska {
				// (a unit that arrives at the very instant of the deadline multiplies the outcomes:
				// free choices and one offered firing only)
				p = 1
			}
			complete := 0
			for _, st := range steps {
				if !st.partial() {
					complete++
				}
			}
			if x.calm {
				p, d = 1, 1
			} else if !thorough && len(steps) >= 2 && x.ws {
				// a fragment followed by more: the poller consumes the fragment concurrently with the
				// clock thread; free choices only in the quick tier
				d = 0
			}
			add(kcfg{mode: m, exec: "go", ws: x.ws, steps: steps, work: x.work, calm: x.calm, wska: x.wska, early: x.early, p: p, d: d})
		}
	}
	return out
}

package main

import "verif/vkit"

func keepaliveScenarios(tier string) []*vkit.Scenario { return nil }

// C16: deadlines. A real nbio engine (one poller) on the simulated kernel and on virtual time.
// Thread A runs an operation list over SetReadDeadline / SetWriteDeadline / SetDeadline (now+5s,
// now+9s, zero time), Write / Writev that do or do not leave a backlog (socket capacity K=3), a
// peer drain, a 3 s sleep (virtual time passes) and Close. A *clock* thread fires the earliest
// pending virtual timer; it is an ordinary scheduled thread, so a firing can be placed at every
// scheduling point of every other thread, the timer callback runs as its own thread and races
// with A and with the poller. A reference model in the harness keeps, per direction, the
// current deadline; the oracle judges every firing against the model as it was at the instant
// of the firing, every close notification against the firings, and the armed virtual timers
// after every operation.
//
// Deviation from DESIGN section 4 / the builder's brief: the firing is done by a harness clock
// thread calling vtime.FireNext() (one fresh clock thread per firing) instead of
// Options.AutoTimers. The schedules are the same (the scheduler may switch to the clock thread
// wherever it could have fired an automatic timer, at the same preemption cost), but the harness
// learns exactly which timer fired, at which virtual time and in which model state; after a
// firing the choice between the interrupted thread, the callback and the next firing is free
// (no preemption cost), which is a superset of what AutoTimers explores with the same bound.
//
// The connection's ORIGIN is a dimension (added after seeded change C16-m4, which only showed on
// a connection from DialAsyncTimeout): the lists run on a connection that was added to the engine
// (as an accepted one is), and a representative subset runs on connections obtained through
// DialAsync, through DialAsyncTimeout whose timeout is cleared by the completing connect (the
// network thread completes the handshake concurrently with the call), through DialAsyncTimeout
// with a synchronous connect (thorough) and on the closed connection that a fired dial timeout
// leaves behind. DialAsyncTimeout keeps the dial timeout in the write-deadline slot; once the dial
// has reported success no close may carry ErrDialTimeout and no timer may be armed.
//
// Origins dialcb / dialTcb (after seeded change C16-m8) issue the operation list INSIDE the dial
// callback. udp.go (after C16-m7) covers the read timeout of UDP sessions.
//
// The second half (keepalive.go) drives a real nbhttp.Engine with KeepaliveTime = 7 s.
package main

import (
	"errors"
	"fmt"
	"io"
	"net"
	"reflect"
	"sort"
	"strings"
	"time"
	"unsafe"

	"github.com/lesismal/nbio"

	"verif/ekit"
	"verif/track"
	"verif/vkit"
	"verif/vsched"
	"verif/vshim/vsys"
	"verif/vshim/vtime"
)

// K is the socket capacity towards the peer: Write(1) fits, Write(5) leaves a backlog of 2.
const K = 3

// ---------------------------------------------------------------------------------------------
// operations

type op struct {
	kind byte // R W D (deadline, d = seconds, 0 = zero time)  w (Write d bytes)  v (Writev d one-byte buffers)  P (peer drains)  Z (sleep d s)  C (Close)
	//           O (a Write beyond MaxWriteBufferSize: the connection closes itself with ErrOverflow)  X (the peer resets, then Write(1): EPIPE)
	//           I (the peer sends one byte: inbound traffic, which renews nothing)
	d int
}

func (o op) String() string {
	switch o.kind {
	case 'P', 'C', 'O', 'X', 'I':
		return string(o.kind)
	}
	if o.isSet() && o.d == dNow {
		return string(o.kind) + "now"
	}
	if o.isSet() && o.d == dPast {
		return string(o.kind) + "past"
	}
	return fmt.Sprintf("%c%d", o.kind, o.d)
}

// deadline arguments besides "now + d seconds" (d > 0) and the zero time (d == 0): the current
// instant and an instant that has passed. Both are non-zero times, so they SET a deadline - one
// that is already reached.
const (
	dNow  = -1
	dPast = -2 // now - 2 s
)

// targetOf is the time.Time handed to Set*Deadline.
func (o op) targetOf(now time.Time) time.Time {
	switch {
	case o.d > 0:
		return now.Add(time.Duration(o.d) * time.Second)
	case o.d == dNow:
		return now
	case o.d == dPast:
		return now.Add(-2 * time.Second)
	}
	return time.Time{}
}

// armedFor is the model's deadline after a set that began at vs and ended at ve: the timer is
// armed at some instant a in [vs, ve] for max(0, target - (an earlier clock reading)) and hence
// fires in [max(target, vs), max(target, vs) + (ve - vs)]. A deadline that is already reached
// fires "at once", i.e. at the instant it was armed.
func armedFor(target, vs, ve time.Time) deadline {
	eff := target
	if eff.Before(vs) {
		eff = vs
	}
	return deadline{state: dlSet, lo: eff, hi: eff.Add(ve.Sub(vs)), reached: !target.After(vs)}
}

func (o op) isSet() bool     { return o.kind == 'R' || o.kind == 'W' || o.kind == 'D' }
func (o op) isNonZero() bool { return o.isSet() && o.d != 0 }
func (o op) isWrite() bool   { return o.kind == 'w' || o.kind == 'v' }

// affects reports whether the operation can change the deadline of direction dir (0 read, 1 write).
func (o op) affects(dir int) bool {
	switch o.kind {
	case 'R':
		return dir == 0
	case 'W', 'w', 'v':
		return dir == 1
	case 'D', 'C', 'O', 'X':
		return true
	}
	return false
}

func (o op) isErrClose() bool { return o.kind == 'O' || o.kind == 'X' }

var dirName = [2]string{"read", "write"}

type cfg struct {
	mode ekit.Mode
	// origin of the connection: "" = built around a connected descriptor and added with AddConn
	// (as an accepted connection is); dial = Engine.DialAsync, connect in progress, then accepted
	// by the network; dialT = Engine.DialAsyncTimeout(7 s), connect in progress, then accepted
	// (the connect clears the dial timeout, which lives in the write-timer slot); dialTimm =
	// DialAsyncTimeout whose connect succeeds synchronously (no dial timer); dialTfired =
	// DialAsyncTimeout whose timeout fires first: the operations run on the connection the
	// failed dial handed to its callback
	origin string
	ops    []op
	p      int
}

// dialTimeout differs from every deadline the operation lists can produce together with the
// instant they are set at (5, 9, 3+5, 3+9 ...), so that a dial timer that survives the connect is
// recognisable by its time alone.
const dialTimeout = 7 * time.Second

// maxWB is MaxWriteBufferSize in the scenarios that contain an overflowing Write (O).
const maxWB = 4

func opsString(ops []op) string {
	var s []string
	for _, o := range ops {
		s = append(s, o.String())
	}
	return strings.Join(s, ",")
}

func (c cfg) name() string {
	if c.origin != "" {
		return fmt.Sprintf("core %s origin=%s ops=%s", c.mode, c.origin, opsString(c.ops))
	}
	return fmt.Sprintf("core %s ops=%s", c.mode, opsString(c.ops))
}

// ---------------------------------------------------------------------------------------------
// reading the virtual timers of the connection (oracle only)

var offArmed, offWhen uintptr

func init() {
	t := reflect.TypeOf(vtime.Timer{})
	fa, ok1 := t.FieldByName("armed")
	fw, ok2 := t.FieldByName("when")
	if !ok1 || !ok2 || fa.Type.Kind() != reflect.Bool || fw.Type != reflect.TypeOf(time.Time{}) {
		panic("c16: vtime.Timer layout changed (fields armed/when)")
	}
	offArmed, offWhen = fa.Offset, fw.Offset
}

type tstate struct {
	ptr   unsafe.Pointer
	armed bool
	when  time.Time
}

func readTimer(p unsafe.Pointer) tstate {
	if p == nil {
		return tstate{}
	}
	return tstate{ptr: p, armed: *(*bool)(unsafe.Add(p, offArmed)), when: *(*time.Time)(unsafe.Add(p, offWhen))}
}

type tsnap struct {
	t      [2]tstate // read, write
	nFunc  int       // armed AfterFunc timers in the whole system (only the connection creates them)
	nSleep int
}

func (s tsnap) orphans() int {
	n := s.nFunc
	for _, t := range s.t {
		if t.armed {
			n--
		}
	}
	return n
}

func snapTimers(conn *nbio.Conn) tsnap {
	var s tsnap
	r, w := conn.VerifDeadlineTimers()
	s.t[0], s.t[1] = readTimer(r), readTimer(w)
	for _, n := range vtime.ArmedNames() {
		switch {
		case strings.HasPrefix(n, "func@"):
			s.nFunc++
		case strings.HasPrefix(n, "sleep@"):
			s.nSleep++
		}
	}
	return s
}

// ---------------------------------------------------------------------------------------------
// reference model and event log

const (
	dlNone  = iota
	dlSet   // the deadline exists
	dlMaybe // the deadline exists or was cleared (a Write raced with the poller's flush)
)

type deadline struct {
	state  int
	lo, hi time.Time // the timer must fire in [lo, hi] (hi > lo only if the clock moved during the setting call)
	via    string    // how it got into state none (for messages)
	// the deadline was not in the future when it was set (SetXDeadline(now), a past instant)
	reached bool
}

type fireRec struct {
	dir     int
	at      time.Time
	verdict string // legit | racy | early | stale
	detail  string
	// a racy firing (a call that affects the direction was in flight) is re-judged when the call
	// has returned: it must fit the deadline before the call or the one the call set
	pending bool
	old     deadline
}

func (d deadline) fits(at time.Time) bool {
	return d.state != dlNone && !at.Before(d.lo) && !at.After(d.hi)
}

type world struct {
	log  vsched.Obj
	seq  int
	conn *nbio.Conn
	peer *vsys.Peer

	origin   string
	dialDone bool // the asynchronous dial reported success: from here on no close may report the dial timeout
	// a timer was armed when the dial callback (reporting success) was entered: the dial timeout
	dialTimerInCallback bool
	dialAt              time.Time // virtual time of that report

	dl       [2]deadline
	inflight *op
	fires    [2][]fireRec
	orphanF  int

	userClose bool // Close() was called by A (begin)
	// a backlog existed while a write deadline was set; if the poller's flush empties it later, an
	// implementation that drops the write deadline then is not reported (see Assumptions)
	backlogUnderWDeadline bool
	errClose              bool // the scenario contains an operation that makes nbio close the connection with an error
	closes                int
	closeErr              error
	closeAt               time.Time
	closeSeen             bool
	aDone                 bool
	fails                 []string
	counters              map[string]int
	flushPossible         bool
}

func (w *world) tick() {
	w.seq++
	vsched.Record(&w.log, 1, true, uint64(w.seq))
}

func (w *world) failf(format string, a ...interface{}) {
	w.fails = append(w.fails, fmt.Sprintf(format, a...))
}

func rel(t time.Time) string { return fmt.Sprintf("+%v", t.Sub(vtime.Base)) }

func (w *world) dlString(dir int) string {
	d := w.dl[dir]
	switch d.state {
	case dlNone:
		if d.via != "" {
			return "none (" + d.via + ")"
		}
		return "none (never set)"
	case dlMaybe:
		return fmt.Sprintf("%s or cleared", rel(d.lo))
	}
	if d.hi.After(d.lo) {
		return fmt.Sprintf("%s..%s", rel(d.lo), rel(d.hi))
	}
	return rel(d.lo)
}

// clock fires one timer and hands over to a fresh clock thread.
func (w *world) clock() {
	vsched.SetDaemon()
	vsched.Block("clock: no timer armed", func() bool { return vtime.Armed() > 0 })
	// ---- atomic from here (no scheduling point until the thread ends)
	w.tick()
	pre := snapTimers(w.conn)
	if !vtime.FireNext() {
		vsched.GoNamed("clock", w.clock)
		return
	}
	at := vtime.VNow()
	post := snapTimers(w.conn)
	fired := -1
	for dir := 0; dir < 2; dir++ {
		if pre.t[dir].armed && !post.t[dir].armed {
			fired = dir
		}
	}
	switch {
	case fired >= 0:
		w.judgeFire(fired, at)
	case post.nSleep < pre.nSleep:
		w.counters["sleep_wakeups"]++
	case post.nFunc < pre.nFunc:
		// an armed AfterFunc timer that the connection no longer refers to
		w.orphanF++
		w.counters["orphan_timer_fired"]++
	}
	vsched.GoNamed("clock", w.clock)
}

func (w *world) judgeFire(dir int, at time.Time) {
	fr := fireRec{dir: dir, at: at}
	w.counters["timers_fired"]++
	d := w.dl[dir]
	switch {
	case w.inflight != nil && w.inflight.affects(dir):
		fr.verdict = "racy"
		fr.pending, fr.old = true, d
		fr.detail = fmt.Sprintf("fired at %s while %s was in flight", rel(at), *w.inflight)
		w.counters["fire_racing_call"]++
		if w.inflight.isNonZero() && d.state != dlNone {
			w.counters["renewal_racing_fire"]++
		}
		if w.inflight.isSet() && w.inflight.d == 0 {
			w.counters["clear_racing_fire"]++
		}
		if w.inflight.kind == 'C' {
			w.counters["close_racing_fire"]++
		}
	case d.state == dlNone:
		fr.verdict = "stale"
		fr.detail = fmt.Sprintf("the %s timer fired at %s although the %s deadline was %s", dirName[dir], rel(at), dirName[dir], w.dlString(dir))
	case at.Before(d.lo):
		fr.verdict = "early"
		fr.detail = fmt.Sprintf("the %s timer fired at %s, the %s deadline was %s", dirName[dir], rel(at), dirName[dir], w.dlString(dir))
	case at.After(d.hi):
		fr.verdict = "legit"
		// the virtual clock cannot pass a correctly armed timer without firing it
		w.failf("late-fire dir=%s|the %s deadline was %s, but the connection's %s timer fired only at %s (the connection stayed open past its deadline)", dirName[dir], dirName[dir], w.dlString(dir), dirName[dir], rel(at))
	default:
		fr.verdict = "legit"
		w.counters["fire_legit"]++
	}
	w.fires[dir] = append(w.fires[dir], fr)
}

func errClass(err error) string {
	switch {
	case err == nil:
		return "nil"
	case errors.Is(err, nbio.ErrReadTimeout):
		return "rtimeout"
	case errors.Is(err, nbio.ErrWriteTimeout):
		return "wtimeout"
	case errors.Is(err, nbio.ErrOverflow):
		return "overflow"
	case errors.Is(err, nbio.ErrDialTimeout):
		return "dialtimeout"
	case errors.Is(err, vsys.EPIPE), errors.Is(err, vsys.ECONNRESET):
		return "ioerr"
	case errors.Is(err, io.EOF):
		return "EOF"
	}
	return "other:" + err.Error()
}

func (w *world) onClose(c *nbio.Conn, err error) {
	// runs on the engine's notification thread, after the closing thread left its critical
	// section; the mutex orders the reads below with A's calls (see begin/end)
	c.Lock()
	defer c.Unlock()
	w.tick()
	w.closes++
	if w.closes > 1 {
		w.counters["second_close_notification_judged_by_C03"]++
		return
	}
	w.closeErr, w.closeAt, w.closeSeen = err, vtime.VNow(), true
	dir := -1
	switch errClass(err) {
	case "rtimeout":
		dir = 0
	case "wtimeout":
		dir = 1
	case "nil":
		if !w.userClose {
			w.failf("unexpected-close|the connection was closed with a nil error at %s although Close was never called", rel(w.closeAt))
		}
	case "overflow", "ioerr", "EOF":
		if !w.errClose {
			w.failf("unexpected-close|the connection was closed with %v at %s; nothing in this scenario can cause that", err, rel(w.closeAt))
		}
		w.counters["error_closes"]++
	case "dialtimeout":
		if !w.dialDone {
			// the dial timeout fired while the connect was still in progress (origin dialTfired); the
			// callback and the number of notifications are C03's subject
			w.counters["dial_timeout_closes"]++
			break
		}
		// the dial completed long ago: whatever deadline expired, "dial timeout" is not the
		// corresponding error
		want, detail := "none", "no deadline timer of the connection had fired"
		for dir := 0; dir < 2; dir++ {
			if n := len(w.fires[dir]); n > 0 {
				f := w.fires[dir][n-1]
				want = dirName[dir]
				detail = fmt.Sprintf("what had expired was its %s deadline (the %s timer fired at %s, %s; %s deadline in the model: %s)", dirName[dir], dirName[dir], rel(f.at), f.verdict, dirName[dir], w.dlString(dir))
			}
		}
		w.failf("wrong-timeout-error got=dial want=%s|the connection (origin %s, dial reported success at %s) was closed with %q at %s: %s", want, w.origin, rel(w.dialAt), err, rel(w.closeAt), detail)
	default:
		w.failf("unexpected-close|the connection was closed with %v at %s; nothing in this scenario can cause that", err, rel(w.closeAt))
	}
	if dir >= 0 {
		w.counters["timeout_closes"]++
		ok := false
		for _, f := range w.fires[dir] {
			if f.verdict == "legit" || f.verdict == "racy" {
				ok = true
				if f.verdict == "racy" {
					w.counters["close_by_racy_fire_not_judged"]++
				}
				break
			}
		}
		switch {
		case ok:
		case len(w.fires[dir]) > 0:
			f := w.fires[dir][0]
			w.failf("%s-timeout-close dir=%s|closed with %q at %s: %s", f.verdict, dirName[dir], err, rel(w.closeAt), f.detail)
		case len(w.fires[1-dir]) > 0:
			w.failf("wrong-timeout-error got=%s|closed with %q at %s, but only the %s timer had fired (%s); the %s deadline was %s", dirName[dir], err, rel(w.closeAt), dirName[1-dir], w.fires[1-dir][0].detailOr(), dirName[dir], w.dlString(dir))
		default:
			w.failf("timeout-close-without-expiry dir=%s|closed with %q at %s although no deadline timer of the connection had fired (orphan timers fired: %d); %s deadline: %s", dirName[dir], err, rel(w.closeAt), w.orphanF, dirName[dir], w.dlString(dir))
		}
	}
	// closing cancels both deadlines: the timers are stopped before the notification is queued,
	// and a call on the closed connection arms nothing
	ts := snapTimers(c)
	for d := 0; d < 2; d++ {
		if ts.t[d].armed {
			w.failf("timer-armed-after-close dir=%s via=%s|the connection was closed (%s, notified at %s) but its %s deadline timer is still armed for %s", dirName[d], closeVia(err), errClass(err), rel(w.closeAt), dirName[d], rel(ts.t[d].when))
		}
	}
	if n := ts.orphans(); n > 0 {
		w.failf("orphan-timer after=close|%d deadline timer(s) the connection no longer refers to are still armed at its close notification: %v", n, vtime.ArmedNames())
	}
	for d := 0; d < 2; d++ {
		w.dl[d] = deadline{state: dlNone, via: "closed with " + errClass(err) + " at " + rel(w.closeAt)}
	}
}

// closeVia names the way a connection was closed for signatures.
func closeVia(err error) string {
	switch c := errClass(err); c {
	case "nil":
		return "Close"
	case "rtimeout", "wtimeout":
		return "timeout"
	case "dialtimeout":
		return "dial-timeout"
	default:
		return "error-" + c
	}
}

func (f fireRec) detailOr() string {
	if f.detail != "" {
		return f.detail
	}
	return fmt.Sprintf("fired at %s, %s", rel(f.at), f.verdict)
}

// opRun is one operation of thread A between its begin and end bookkeeping.
type opRun struct {
	o      op
	sb     nbio.ConnSnapshot
	vs     time.Time
	target time.Time
	werr   error
}

// begin and end run under the connection mutex (conn.Lock): the harness reads private state of
// the connection there, and the mutex is what orders those reads with the closing / flushing
// threads in the scheduler's happens-before relation. No closing thread is inside its critical
// section while the harness holds the mutex, so "closed" implies "its timers were stopped".
func (w *world) begin(o op) *opRun {
	w.tick()
	r := &opRun{o: o, sb: w.conn.VerifSnapshot(), vs: vtime.VNow()}
	w.inflight = &r.o
	if o.isNonZero() {
		r.target = o.targetOf(r.vs)
		if o.d < 0 {
			w.counters["sets_of_a_deadline_already_reached"]++
		}
	}
	if o.kind == 'C' {
		w.userClose = true
	}
	return r
}

func (w *world) call(r *opRun) {
	o := r.o
	switch o.kind {
	case 'R':
		_ = w.conn.SetReadDeadline(r.target)
	case 'W':
		_ = w.conn.SetWriteDeadline(r.target)
	case 'D':
		_ = w.conn.SetDeadline(r.target)
	case 'w':
		_, r.werr = w.conn.Write(ekit.Payload(1, o.d))
	case 'v':
		var in [][]byte
		for i := 0; i < o.d; i++ {
			in = append(in, ekit.Payload(2+i, 1))
		}
		_, r.werr = w.conn.Writev(in)
	case 'P':
		w.peer.Read(0)
	case 'Z':
		vtime.Sleep(time.Duration(o.d) * time.Second)
	case 'C':
		_ = w.conn.Close()
	case 'O':
		_, r.werr = w.conn.Write(ekit.Payload(3, maxWB+1))
	case 'X':
		w.peer.Reset()
		_, r.werr = w.conn.Write(ekit.Payload(4, 1))
	case 'I':
		w.peer.Write([]byte{7})
	}
}

func (w *world) end(r *opRun) {
	w.tick()
	o, sb, vs, target := r.o, r.sb, r.vs, r.target
	w.inflight = nil
	se := w.conn.VerifSnapshot()
	ve := vtime.VNow()
	switch {
	case sb.Closed:
		// no effect expected on a closed connection
		w.counters["op_on_closed_conn"]++
		if o.isNonZero() {
			w.counters["set_after_close"]++
		}
	case se.Closed && o.kind != 'C':
		// closed concurrently (by a timeout) or by the call itself (O, X): whatever else the call
		// did, the close cancelled it
		if !o.isErrClose() {
			w.counters["op_raced_with_close"]++
		}
		for dir := 0; dir < 2; dir++ {
			if o.isErrClose() && w.dl[dir].state != dlNone {
				w.counters["error_close_with_live_deadline"]++
			}
			w.dl[dir] = deadline{state: dlNone, via: "closed (" + errClass(se.CloseErr) + ") while " + o.String() + " was in flight"}
		}
	default:
		switch o.kind {
		case 'R', 'W', 'D':
			for dir := 0; dir < 2; dir++ {
				if !o.affects(dir) {
					continue
				}
				if o.d == 0 {
					if w.dl[dir].state != dlNone {
						w.counters["clears_of_live_deadline"]++
					}
					w.dl[dir] = deadline{state: dlNone, via: "cleared by " + o.String() + " at " + rel(ve)}
				} else {
					if w.dl[dir].state != dlNone {
						w.counters["renewals"]++
						if target.Before(w.dl[dir].lo) {
							w.counters["renewals_to_earlier"]++
						}
					}
					w.dl[dir] = armedFor(target, vs, ve)
				}
			}
		case 'O', 'X':
			w.failf("harness|%s did not close the connection (Write returned %v)", o, r.werr)
		case 'w', 'v':
			if r.werr != nil && errors.Is(r.werr, vsys.EAGAIN) {
				// Writev into a full socket with an empty queue returns (0, EAGAIN) and queues nothing
				// (Write queues instead); the call still "returned with an empty backlog"
				w.counters["writev_eagain_nothing_accepted"]++
			} else if r.werr != nil {
				w.failf("harness|%s returned %v on an open connection", o, r.werr)
				break
			}
			had := w.dl[1].state != dlNone
			switch {
			case se.QueueLen > 0:
				// the backlog was not empty when the call looked at it (only the flusher shrinks it)
				if had {
					w.counters["write_left_backlog_wdeadline_kept"]++
				}
			case sb.QueueLen == 0:
				// nothing queued before and nothing after, and the peer did not read in between (it
				// only reads in A's own P operation): every byte went straight to the kernel and the
				// call saw an empty backlog
				if had {
					w.counters["write_cleared_wdeadline"]++
				}
				w.dl[1] = deadline{state: dlNone, via: o.String() + " returned with an empty backlog at " + rel(ve)}
			default:
				// a backlog existed before the call and is gone now: either the poller flushed it before
				// the call looked (cleared) or after (kept)
				if had {
					w.counters["write_vs_flush_ambiguous"]++
					w.dl[1].state = dlMaybe
				}
			}
		case 'C':
			for dir := 0; dir < 2; dir++ {
				if w.dl[dir].state != dlNone {
					w.counters["close_with_live_deadline"]++
				}
				w.dl[dir] = deadline{state: dlNone, via: "Close returned at " + rel(ve)}
			}
		}
	}
	if !se.Closed && se.QueueLen > 0 && w.dl[1].state != dlNone {
		w.backlogUnderWDeadline = true
	}
	// firings that raced with this call: the timer that fired was armed either by an earlier
	// call (then it fits the deadline that was current before this call) or by this call (then it
	// fits [target, target + clock movement during the call])
	for dir := 0; dir < 2; dir++ {
		misfit := -1
		good := false
		for i := range w.fires[dir] {
			f := &w.fires[dir][i]
			if !f.pending {
				if f.verdict == "legit" {
					good = true
				}
				continue
			}
			f.pending = false
			cand := deadline{}
			if o.isNonZero() && o.affects(dir) {
				cand = armedFor(target, vs, ve)
			}
			switch {
			case f.old.fits(f.at) || cand.fits(f.at):
				good = true
				w.counters["racy_fire_fits_old_or_new_deadline"]++
			case f.old.state == dlNone && cand.state == dlNone:
				f.verdict = "stale"
				f.detail = fmt.Sprintf("the %s timer fired at %s while %s was in flight; there was no %s deadline before the call and the call sets none", dirName[dir], rel(f.at), o, dirName[dir])
				misfit = i
			default:
				f.verdict = "early"
				if (f.old.state == dlNone || f.at.After(f.old.hi)) && (cand.state == dlNone || f.at.After(cand.hi)) {
					f.verdict = "late"
				}
				before, after := "none", "none"
				if f.old.state != dlNone {
					before = rel(f.old.lo)
				}
				if cand.state != dlNone {
					after = fmt.Sprintf("%s..%s", rel(cand.lo), rel(cand.hi))
				}
				f.detail = fmt.Sprintf("the %s timer fired at %s while %s was in flight; that is neither the deadline before the call (%s) nor the one the call sets (%s)", dirName[dir], rel(f.at), o, before, after)
				misfit = i
			}
		}
		if misfit >= 0 && !good && se.Closed && errClass(se.CloseErr) == [2]string{"rtimeout", "wtimeout"}[dir] {
			f := w.fires[dir][misfit]
			w.failf("%s-timeout-close dir=%s|closed with %q: %s", f.verdict, dirName[dir], se.CloseErr, f.detail)
		}
	}
	// cancelled / at most one timer per direction
	ts := snapTimers(w.conn)
	how := "after " + o.String()
	if sb.Closed && o.isNonZero() {
		how = "after " + o.String() + " on the closed connection"
	}
	for dir := 0; dir < 2; dir++ {
		if w.dl[dir].state == dlNone && ts.t[dir].armed {
			sig := "clear"
			switch {
			case sb.Closed && o.isNonZero():
				sig = "set-after-close"
			case se.Closed:
				// same defect as seen from the close notification: same signature
				w.failf("timer-armed-after-close dir=%s via=%s|%s: the connection is closed (%s) but its %s deadline timer is still armed for %s", dirName[dir], closeVia(se.CloseErr), how, errClass(se.CloseErr), dirName[dir], rel(ts.t[dir].when))
				continue
			case o.isWrite():
				sig = "write-emptied-backlog"
			}
			if w.dialTimerInCallback && dir == 1 && w.dl[1].via == "" {
				w.failf("dial-timer-armed-after-success origin=%s|%s (issued inside the dial callback, which reported success at %s): no write deadline was ever set, yet the connection's write timer is armed for %s - the dial timeout was not cleared before the callback ran", w.origin, how, rel(w.dialAt), rel(ts.t[dir].when))
				continue
			}
			w.failf("timer-armed-after-cancel dir=%s via=%s|%s: the %s deadline is %s but the connection's %s timer is armed for %s", dirName[dir], sig, how, dirName[dir], w.dlString(dir), dirName[dir], rel(ts.t[dir].when))
		}
	}
	if n := ts.orphans(); n > 0 {
		w.failf("orphan-timer after=%c|%s: %d armed deadline timer(s) that the connection no longer refers to (armed: %v)", o.kind, how, n, vtime.ArmedNames())
	}
}

// dial obtains the connection through an asynchronous dial on the simulated kernel. The network
// (a thread of its own, started before the call) completes the three-way handshake as soon as a
// connect is in progress, so the completion - the poller's EPOLLOUT, the internal clearing of the
// dial timeout, the user callback - is interleaved with the rest of DialAsyncTimeout wherever
// the preemption bound allows. It returns false when the execution ends here.
func (w *world) dial(g *nbio.Engine, ops []op) bool {
	vsys.DialSndCap = K
	calls := 0
	armedAtAccept := 0 // timers armed when the network completed the handshake
	var cbErr error
	var cbConn *nbio.Conn
	// origins dialcb / dialTcb: the operation list is issued INSIDE the dial callback (on the
	// poller thread, before DialAsyncTimeout's completion handler returns); the clock starts with
	// the callback, so virtual time can pass while it runs (a sleep inside the callback lets it
	// outlast the dial timeout)
	inCB := strings.HasSuffix(w.origin, "cb")
	base := strings.TrimSuffix(w.origin, "cb")
	cb := func(cc *nbio.Conn, err error) {
		w.tick()
		calls++
		cbErr, cbConn = err, cc
		if inCB && err == nil && cc != nil {
			w.conn, w.dialDone, w.dialAt = cc, true, vtime.VNow()
			if w.peer == nil {
				w.peer = vsys.Dials()[0].Peer()
			}
			if vtime.Armed() > 0 {
				w.counters["timers_armed_at_dial_callback_entry"]++
				w.dialTimerInCallback = true
			}
			w.counters["operation_lists_run_inside_the_dial_callback"]++
			vsched.GoNamed("clock", w.clock)
			w.threadA(ops)
		}
	}
	switch base {
	case "dialTimm":
		vsys.SetDialPlan(vsys.DialPlan{Immediate: true})
	case "dial", "dialT":
		vsched.GoNamed("network", func() {
			vsched.Block("network: no connect in progress", func() bool { return len(vsys.Dials()) > 0 })
			w.tick()
			armedAtAccept = vtime.Armed()
			w.peer = vsys.Dials()[0].Accept()
			w.tick()
		})
	}
	var err error
	if base == "dial" {
		err = g.DialAsync("tcp", "127.0.0.1:80", cb)
	} else {
		err = g.DialAsyncTimeout("tcp", "127.0.0.1:80", dialTimeout, cb)
	}
	if err != nil {
		vsched.Fail("harness|%s returned %v", w.origin, err)
		return false
	}
	// ---- atomic until WaitIdle
	w.tick()
	armedAtReturn, reportedAtReturn := vtime.Armed(), calls > 0
	vsched.WaitIdle()
	w.tick()
	if w.origin == "dialTfired" {
		// nobody answers the connect: the dial timeout is the only thing that can happen
		if calls != 0 || vtime.Armed() != 1 {
			w.failf("dial-timeout-not-armed|DialAsyncTimeout(%v) returned with the connect in progress; callbacks so far %d, armed timers %v (expected exactly the dial timeout)", dialTimeout, calls, vtime.ArmedNames())
			return false
		}
		vtime.FireNext()
		w.counters["timers_fired"]++
		w.counters["dial_timers_fired"]++
		vsched.WaitIdle()
		w.tick()
		if calls != 1 || cbConn == nil || !errors.Is(cbErr, nbio.ErrDialTimeout) {
			w.failf("dial-timeout-not-reported|the dial timeout fired at %s; callbacks %d, error %v (the callback itself is judged by C03)", rel(vtime.VNow()), calls, cbErr)
			return false
		}
		w.conn = cbConn
		w.peer = vsys.Dials()[0].Peer()
		if closed, _ := w.conn.IsClosed(); !closed {
			w.failf("dial-timeout-left-connection-open|the dial callback reported %v but the connection is not closed", cbErr)
			return false
		}
		for dir := 0; dir < 2; dir++ {
			w.dl[dir] = deadline{state: dlNone, via: "the dial timed out at " + rel(vtime.VNow())}
		}
		if n := vtime.Armed(); n != 0 {
			w.failf("timer-armed-after-close dir=write via=dial-timeout|the dial timed out and the connection is closed, but %d timer(s) are still armed: %v", n, vtime.ArmedNames())
			return false
		}
		return true
	}
	if inCB {
		if calls != 1 || cbErr != nil || cbConn == nil {
			w.failf("dial-not-completed origin=%s|the connect was accepted by the network but the dial callback ran %d times (error %v); judged in detail by C03", w.origin, calls, cbErr)
			return false
		}
		w.counters["dialed_connections"]++
		return true
	}
	if calls != 1 || cbErr != nil || cbConn == nil {
		w.failf("dial-not-completed origin=%s|the connect was accepted by the network but the dial callback ran %d times (error %v); judged in detail by C03", w.origin, calls, cbErr)
		return false
	}
	w.conn, w.dialDone, w.dialAt = cbConn, true, vtime.VNow()
	if w.peer == nil {
		w.peer = vsys.Dials()[0].Peer()
	}
	switch {
	case w.origin != "dialT":
	case reportedAtReturn:
		// the connect completed (and cleared nothing) before DialAsyncTimeout got to arm its timeout
		w.counters["connect_reported_before_dial_returned"]++
	case armedAtReturn == 1:
		w.counters["dial_timers_cleared_by_connect"]++
	}
	if n := vtime.Armed(); n != 0 {
		ts := snapTimers(w.conn)
		slot := "none"
		for dir := 0; dir < 2; dir++ {
			if ts.t[dir].armed {
				slot = dirName[dir] + " timer, armed for " + rel(ts.t[dir].when)
			}
		}
		// two different defects: a dial timer that was armed when the handshake completed and that
		// the completion did not clear, and a dial timer that was armed only after the completion
		// had found nothing to clear
		armed, how := "after-connect", "the dial timeout was armed after the connect had completed"
		if armedAtAccept > 0 {
			armed, how = "before-connect", "the dial timeout was armed when the connect completed and the completion did not clear it"
		}
		if reportedAtReturn {
			how += "; the dial callback ran while DialAsyncTimeout was still running"
		}
		w.failf("stale-dial-timer origin=%s armed=%s|the dial reported success, the connection is established and idle, yet %d timer(s) are armed: %v (connection slot: %s): %s. It would close the established connection with the dial timeout %v after the dial", w.origin, armed, n, vtime.ArmedNames(), slot, how, dialTimeout)
		return false
	}
	w.counters["dialed_connections"]++
	return true
}

// threadA runs the operation list.
func (w *world) threadA(ops []op) {
	var prev *opRun
	for _, o := range ops {
		w.conn.Lock()
		if prev != nil {
			w.end(prev)
		}
		prev = w.begin(o)
		w.conn.Unlock()
		w.call(prev)
	}
	w.conn.Lock()
	if prev != nil {
		w.end(prev)
	}
	w.aDone = true
	w.conn.Unlock()
}

var lastCounters map[string]int
var lastOutcome string

func body(c cfg) func() {
	return func() {
		vsys.Configure(false, false)
		tr := track.New(track.Exact)
		conf := nbio.Config{Name: "c16", NPoller: 1, ReadBufferSize: 16, BodyAllocator: tr}
		c.mode.Apply(&conf)
		w := &world{counters: map[string]int{}}
		for _, o := range c.ops {
			if o.isErrClose() {
				w.errClose = true
			}
			if o.kind == 'O' {
				conf.MaxWriteBufferSize = maxWB
			}
		}
		g := nbio.NewEngine(conf)
		lastCounters, lastOutcome = w.counters, "setup-failed"
		g.OnClose(w.onClose)
		g.OnData(func(_ *nbio.Conn, data []byte) { w.tick(); w.counters["inbound_bytes_delivered"] += len(data) })
		if err := g.Start(); err != nil {
			vsched.Fail("harness|engine start: %v", err)
			return
		}
		w.origin = "add"
		if strings.HasPrefix(c.origin, "udpdial") {
			// a datagram socket that reads for itself (what a dialed UDP connection handed to
			// AddConn becomes), after n completed read rounds: the read loop of such a
			// connection ends with EAGAIN every time, which must not leave anything behind that
			// a later expiry could report instead of its own error
			w.origin = c.origin
			fd, up := vsys.NewUDPSocket(9001)
			w.conn = nbio.VerifNewConn(fd, nbio.ConnTypeUDPClientFromDial, &net.UDPAddr{IP: net.IPv4(127, 0, 0, 1), Port: 9001}, &net.UDPAddr{IP: net.IPv4(10, 0, 0, 1), Port: 7001})
			if _, err := g.AddConn(w.conn); err != nil {
				vsched.Fail("harness|AddConn: %v", err)
				return
			}
			for i := 0; i < int(c.origin[len(c.origin)-1]-'0'); i++ {
				up.Send(7001, []byte{byte(i + 1)})
				vsched.WaitIdle()
			}
			vsched.WaitIdle()
			w.counters["udp_dialed_datagrams_delivered_before_the_operations"] += w.counters["inbound_bytes_delivered"]
			if vtime.Armed() != 0 {
				vsched.Fail("harness|timers armed before the first operation: %v", vtime.ArmedNames())
				return
			}
		} else if c.origin != "" {
			w.origin = c.origin
			if !w.dial(g, c.ops) {
				for _, f := range w.fails {
					vsched.Fail("%s", f)
				}
				return
			}
		} else {
			w.conn, w.peer = ekit.Stream(false, K, 64)
			if _, err := g.AddConn(w.conn); err != nil {
				vsched.Fail("harness|AddConn: %v", err)
				return
			}
			vsched.WaitIdle()
			if vtime.Armed() != 0 {
				vsched.Fail("harness|timers armed before the first operation: %v", vtime.ArmedNames())
				return
			}
		}
		if !strings.HasSuffix(c.origin, "cb") {
			vsched.GoNamed("A", func() { w.threadA(c.ops) })
			vsched.GoNamed("clock", w.clock)
		}
		vsched.WaitIdle() // returns when A is done and the clock has fired every timer
		// ---- final oracle
		w.tick()
		snap := w.conn.VerifSnapshot()
		if !w.aDone {
			w.failf("stuck|thread A did not finish its operations")
		}
		if n := vtime.Armed(); n != 0 {
			w.failf("harness|%d timers still armed at quiescence: %v", n, vtime.ArmedNames())
		}
		if !snap.Closed {
			for dir := 0; dir < 2; dir++ {
				switch w.dl[dir].state {
				case dlSet:
					if dir == 1 && w.backlogUnderWDeadline && snap.QueueLen == 0 {
						w.counters["open_at_end_write_deadline_after_flush_emptied_backlog_not_judged"]++
						continue
					}
					if w.dl[dir].reached {
						w.failf("deadline-not-enforced dir=%s reached-when-set|the %s deadline was set to an instant that was already reached (a non-zero time, not a clear): it expires at once, at %s. It was never renewed, cleared or cancelled, every pending timer has fired (virtual time %s), and the connection is still open", dirName[dir], dirName[dir], w.dlString(dir), rel(vtime.VNow()))
						continue
					}
					w.failf("deadline-not-enforced dir=%s|the %s deadline %s was never renewed, cleared or cancelled, every pending timer has fired (virtual time %s), and the connection is still open", dirName[dir], dirName[dir], w.dlString(dir), rel(vtime.VNow()))
				case dlMaybe:
					w.counters["open_at_end_after_ambiguous_write"]++
				}
			}
		} else if w.closes == 0 {
			w.counters["closed_without_notification_judged_by_C03"]++
		}
		if snap.Closed && w.closes > 0 && w.dl[0].state == dlNone {
			// (bookkeeping only)
		}
		if errs := vkit.Log.TakeErrors(); len(errs) > 0 {
			w.failf("logged-error|nbio logged an error (a recovered panic?): %s", errs[0])
		}
		if v := tr.Violations(); len(v) > 0 {
			w.counters["ownership_violations_reported_by_C11"] += len(v)
		}
		if w.closes > 0 {
			lastOutcome = fmt.Sprintf("closed %s at %s", errClass(w.closeErr), rel(w.closeAt))
		} else {
			lastOutcome = "open"
		}
		for _, f := range w.fails {
			vsched.Fail("%s", f)
		}
	}
}

func check(r *vsched.Result) string {
	for _, b := range r.Blocked {
		if strings.HasPrefix(b.Why, "mutex") {
			return fmt.Sprintf("deadlock-mutex thread=%s|thread %s is blocked on a mutex forever (%s)", strings.SplitN(b.Name, ":", 2)[0], b.Name, b.Why)
		}
	}
	for _, b := range r.Blocked {
		if b.Name == "main" || b.Name == "A" || b.Name == "network" || strings.HasPrefix(b.Name, "timer:") || b.Name == "sleeper" || strings.HasPrefix(b.Name, "client") {
			return fmt.Sprintf("stuck|thread %s blocked at the end (%s)", b.Name, b.Why)
		}
	}
	return ""
}

// ---------------------------------------------------------------------------------------------
// enumeration of operation lists

var alphabet = []op{
	{'R', 5}, {'R', 9}, {'R', 0}, {'W', 5}, {'W', 9}, {'W', 0}, {'D', 5}, {'D', 9}, {'D', 0},
	{'w', 1}, {'w', 5}, {'v', 2}, {'P', 0}, {'Z', 3}, {'C', 0},
}

// admissible prunes lists whose last operation adds nothing to a shorter list (documented in
// Rule): every kept list is evaluated in full.
func admissible(ops []op, complete bool) bool {
	n := len(ops)
	last := ops[n-1]
	prev := ops[:n-1]
	has := func(f func(op) bool) bool {
		for _, o := range prev {
			if f(o) {
				return true
			}
		}
		return false
	}
	if n == 1 {
		// the first operation sets a deadline or creates a backlog
		return last.isNonZero() || (last.kind == 'w' && last.d > K)
	}
	closed := has(func(o op) bool { return o.kind == 'C' })
	if closed {
		// after Close only one more operation: a deadline set on the closed connection
		return prev[n-2].kind == 'C' && last.isNonZero() && last.d == 5
	}
	switch last.kind {
	case 'R':
		if last.d == 0 {
			return has(func(o op) bool { return o.isNonZero() && o.affects(0) }) && prev[n-2] != last
		}
	case 'W':
		if last.d == 0 {
			return has(func(o op) bool { return o.isNonZero() && o.affects(1) }) && prev[n-2] != last
		}
	case 'D':
		if last.d == 0 {
			return has(func(o op) bool { return o.isNonZero() }) && prev[n-2] != last
		}
	case 'w', 'v':
		// writes matter for the write deadline only
		if last.kind == 'w' && last.d > K {
			return true
		}
		return has(func(o op) bool { return o.isNonZero() && o.affects(1) })
	case 'P':
		return has(func(o op) bool { return o.isWrite() }) && prev[n-2].kind != 'P'
	}
	return true
}

func usesSocket(ops []op) bool {
	for _, o := range ops {
		if o.isWrite() || o.kind == 'P' {
			return true
		}
	}
	return false
}

func hasBacklog(ops []op) bool {
	for _, o := range ops {
		if o.kind == 'w' && o.d > K {
			return true
		}
	}
	return false
}

func final(ops []op) bool {
	// a list is a scenario if it sets at least one deadline and does not end with a sleep (time
	// passes anyway once A is done) and, when it starts with a backlog, sets a write deadline
	last := ops[len(ops)-1]
	if last.kind == 'Z' {
		return false
	}
	set := false
	wset := false
	for _, o := range ops {
		if o.isNonZero() {
			set = true
			if o.affects(1) {
				wset = true
			}
		}
	}
	if !set {
		return false
	}
	if usesSocket(ops) && !wset {
		return false
	}
	return true
}

func lists(maxLen int) [][]op { return listsOver(alphabet, maxLen) }

// reached are the deadline arguments that are non-zero but not in the future.
var reached = []op{{'R', dNow}, {'R', dPast}, {'W', dNow}, {'W', dPast}, {'D', dNow}, {'D', dPast}}

func hasReached(l []op) bool {
	for _, o := range l {
		if o.isSet() && o.d < 0 {
			return true
		}
	}
	return false
}

// reachedLists are the operation lists with a deadline that is already reached when it is set
// (the current instant, an instant in the past): every setter alone, after an earlier future
// deadline of the same direction, across directions, after time has passed, followed by a
// renewal / a clear / a Write, and behind a backlog. Thorough: every admissible list of length
// <= 2 over the alphabet extended by these six arguments.
func reachedLists(thorough bool) [][]op {
	var out [][]op
	if thorough {
		for _, l := range listsOver(append(append([]op(nil), alphabet...), reached...), 2) {
			if hasReached(l) {
				out = append(out, l)
			}
		}
	} else {
		for _, r := range reached {
			out = append(out, []op{r}, []op{{r.kind, 5}, r})
		}
		out = append(out, [][]op{
			{{'R', 5}, {'D', dNow}}, {{'W', 9}, {'D', dPast}}, {{'D', 5}, {'R', dNow}}, {{'D', 5}, {'W', dPast}},
		}...)
	}
	out = append(out, [][]op{
		{{'R', 5}, {'Z', 3}, {'R', dPast}}, {{'W', 5}, {'Z', 3}, {'W', dNow}}, {{'D', 9}, {'Z', 3}, {'D', dPast}},
		{{'R', dNow}, {'R', 9}}, {{'W', dNow}, {'W', 0}}, {{'D', dPast}, {'D', 0}}, {{'W', dPast}, {'w', 1}}, {{'R', dPast}, {'C', 0}},
		{{'w', 5}, {'W', dNow}}, {{'w', 5}, {'D', dPast}, {'P', 0}},
	}...)
	seen := map[string]bool{}
	var uniq [][]op
	for _, l := range out {
		if k := opsString(l); !seen[k] {
			seen[k] = true
			uniq = append(uniq, l)
		}
	}
	return uniq
}

func listsOver(alphabet []op, maxLen int) [][]op {
	var out [][]op
	var rec func(cur []op)
	rec = func(cur []op) {
		if len(cur) > 0 && final(cur) {
			out = append(out, append([]op(nil), cur...))
		}
		if len(cur) == maxLen {
			return
		}
		for _, o := range alphabet {
			next := append(append([]op(nil), cur...), o)
			if admissible(next, false) {
				rec(next)
			}
		}
	}
	rec(nil)
	return out
}

// weighted is a scenario with a rough cost estimate; build sorts by it (heaviest first) so that
// the round-robin sharding of vkit deals the expensive scenarios evenly over the workers.
type weighted struct {
	sc *vkit.Scenario
	w  float64
}

func build(tier string) []*vkit.Scenario {
	thorough := tier == "thorough"
	var all []weighted
	add := func(c cfg, weight float64) {
		all = append(all, weighted{&vkit.Scenario{Name: c.name(), Body: body(c), Check: check, P: c.p,
			Counters: func() map[string]int { return lastCounters }, Outcome: func() string { return lastOutcome },
			NonTrivial: func(m map[string]int) bool { return m["timers_fired"] > 0 }}, weight})
	}
	maxLen := 3
	if thorough {
		maxLen = 4
	}
	for _, l := range append(lists(maxLen), reachedLists(thorough)...) {
		// the epoll mode only matters when the poller has something to do (a backlog to flush)
		modes := []ekit.Mode{ekit.LT}
		if hasBacklog(l) {
			modes = ekit.Modes
		}
		nD, nSet, nZ := 0, 0, 0
		for _, o := range l {
			switch {
			case o.kind == 'D':
				nD++
			case o.isSet():
				nSet++
			case o.kind == 'Z':
				nZ++
			}
		}
		// preemption bound by cost: SetDeadline arms two timers at once, every armed timer is one
		// more firing + callback thread + free choices after it. Every list is explored completely
		// within its bound (bounds are reported per scenario in the evidence samples).
		var p int
		switch {
		case len(l) <= 2 && nD <= 1:
			p = 2
		case len(l) <= 2:
			p = 1
		case len(l) == 3 && nD <= 1:
			p = 1
		default:
			p = 0
		}
		if hasReached(l) && len(l) == 2 && l[0].isSet() && l[1].isSet() && l[0].kind != l[1].kind {
			p = 1 // an already reached deadline across directions: SetDeadline arms two timers
		}
		if thorough {
			switch {
			case len(l) <= 2:
				p++
			case len(l) == 3 && nD == 0:
				p = 2
			case len(l) == 3:
				p = 1
			case nD == 0 && nZ == 0 && !usesSocket(l):
				p = 1 // length 4, only read/write deadline sets, clears and Close
			default:
				p = 0
			}
		}
		weight := float64(len(l)) * float64(1+nSet+4*nD) * float64(1+nZ)
		for i := 0; i < p; i++ {
			weight *= 6
		}
		for _, m := range modes {
			add(cfg{mode: m, ops: l, p: p}, weight)
		}
	}
	// error closes: nbio closes the connection itself (write overflow / EPIPE after a peer reset)
	// while deadlines are pending
	for _, l := range [][]op{
		{{'R', 5}, {'O', 0}}, {{'W', 5}, {'O', 0}}, {{'D', 5}, {'O', 0}}, {{'R', 5}, {'W', 9}, {'O', 0}},
		{{'R', 5}, {'X', 0}}, {{'W', 5}, {'X', 0}}, {{'D', 9}, {'X', 0}}, {{'R', 5}, {'O', 0}, {'R', 5}},
	} {
		modes := []ekit.Mode{ekit.LT}
		if l[len(l)-1].kind == 'X' {
			// level-triggered epoll re-reports the reset socket in a busy loop while the writer is
			// between "closed = true" and close(fd); those executions only end through the
			// scheduler's fairness rule (400 steps each). Edge-triggered modes report it once.
			modes = []ekit.Mode{ekit.ET}
			if thorough {
				modes = []ekit.Mode{ekit.ET, ekit.ONESHOT}
			}
		} else if thorough {
			modes = ekit.Modes
		}
		for _, m := range modes {
			add(cfg{mode: m, ops: l, p: 2}, 500)
		}
	}
	// inbound traffic renews nothing in the core engine ("users should update the read deadline in
	// time"): the deadlines must fire exactly as without it, in every epoll mode
	for _, l := range [][]op{
		{{'R', 5}, {'I', 0}}, {{'D', 5}, {'I', 0}, {'R', 9}}, {{'R', 5}, {'I', 0}, {'Z', 3}, {'I', 0}}, {{'W', 5}, {'I', 0}, {'w', 1}},
	} {
		for _, m := range ekit.Modes {
			p := 2
			if len(l) > 2 {
				p = 1
			}
			if thorough {
				p++
			}
			add(cfg{mode: m, ops: l, p: p}, 400)
		}
	}
	// origin of the connection: the lists above run on a connection that was added/accepted.
	// DialAsyncTimeout keeps the dial timeout in the connection's write-timer slot (with
	// ErrDialTimeout as its error) and clears it through SetWriteDeadline(zero) when the connect
	// completes, so a dialed connection starts its life with a used slot. A representative
	// subset of the lists - one expiry per kind of deadline, set-clear-set, renewal, a Write that
	// empties / does not empty the backlog, Close - runs on every origin.
	R, W, D := func(d int) op { return op{'R', d} }, func(d int) op { return op{'W', d} }, func(d int) op { return op{'D', d} }
	wr, P, Z, C := func(n int) op { return op{'w', n} }, op{'P', 0}, op{'Z', 3}, op{'C', 0}
	type dl struct {
		ops     []op
		origins []string
		quick   bool
	}
	both, onlyT := []string{"dial", "dialT"}, []string{"dialT"}
	dlists := []dl{
		{[]op{W(5)}, both, true}, {[]op{R(5)}, both, true}, {[]op{D(5)}, both, true},
		{[]op{W(5), W(0), W(9)}, onlyT, true}, {[]op{R(5), R(0), R(9)}, onlyT, false}, {[]op{D(5), D(0), D(9)}, onlyT, true},
		{[]op{W(5), D(0), W(9)}, onlyT, false}, {[]op{W(0), W(5)}, onlyT, true},
		{[]op{W(5), W(9)}, onlyT, true}, {[]op{W(9), W(5)}, onlyT, false}, {[]op{W(5), Z, W(5)}, onlyT, true}, {[]op{D(5), R(9)}, onlyT, false},
		{[]op{W(5), wr(1)}, both, true}, {[]op{D(5), wr(1)}, onlyT, false}, {[]op{wr(1), W(5)}, onlyT, true},
		{[]op{wr(5), W(5)}, both, true}, {[]op{W(5), wr(5), P}, both, true}, {[]op{wr(5), W(5), P}, onlyT, false}, {[]op{W(5), wr(5), wr(1)}, onlyT, false},
		{[]op{W(5), C}, onlyT, true}, {[]op{D(5), C, R(5)}, onlyT, false}, {[]op{R(5), W(9)}, onlyT, true},
		{[]op{W(dNow)}, onlyT, true}, {[]op{D(dPast)}, onlyT, true},
	}
	if thorough {
		// every list of length <= 2 on a connection from DialAsyncTimeout
		seen := map[string]bool{}
		for _, x := range dlists {
			seen[opsString(x.ops)] = true
		}
		for _, l := range lists(2) {
			if !seen[opsString(l)] {
				dlists = append(dlists, dl{l, onlyT, false})
			}
		}
	}
	for _, x := range dlists {
		l := x.ops
		nD := 0
		for _, o := range l {
			if o.kind == 'D' {
				nD++
			}
		}
		// bounds as for the added connection; one preemption is what it takes to let the connect
		// complete inside DialAsyncTimeout
		p := 0
		switch {
		case len(l) <= 2 && nD <= 1:
			p = 2
		case len(l) <= 2, len(l) == 3 && nD <= 1:
			p = 1
		}
		if !thorough && len(l) == 2 && nD == 1 {
			p = 1 // SetDeadline arms two timers: the two-operation lists with it are the heavy ones
		}
		if thorough && len(l) == 3 && nD <= 1 {
			p = 2
		}
		modes := []ekit.Mode{ekit.LT}
		if hasBacklog(l) {
			modes = ekit.Modes
		}
		origins := x.origins
		if thorough {
			origins = both
			if x.quick && len(l) <= 2 {
				origins = []string{"dial", "dialT", "dialTimm"}
			}
		}
		for _, o := range origins {
			for _, m := range modes {
				add(cfg{mode: m, origin: o, ops: l, p: p}, 600*float64(len(l)))
			}
		}
	}
	// the operations are issued inside the dial callback (seeded change C16-m8 cleared the dial
	// timeout AFTER the callback): a write deadline with a backlog that must expire, a read and a
	// combined deadline, and a callback that takes 8 s of virtual time - longer than the dial timeout
	for _, x := range []struct {
		ops     []op
		origins []string
		p       int
	}{
		{[]op{W(5), wr(5)}, []string{"dialTcb", "dialcb"}, 2}, {[]op{wr(5), W(5)}, []string{"dialTcb"}, 1}, {[]op{W(5)}, []string{"dialTcb"}, 2},
		{[]op{R(5)}, []string{"dialTcb", "dialcb"}, 2}, {[]op{D(5)}, []string{"dialTcb"}, 1}, {[]op{{'Z', 8}, R(5)}, []string{"dialTcb"}, 1},
		{[]op{W(5), wr(5), {'Z', 8}}, []string{"dialTcb"}, 1}, {[]op{W(9), W(0), W(5), wr(5)}, []string{"dialTcb"}, 0},
	} {
		modes := []ekit.Mode{ekit.LT}
		if thorough && hasBacklog(x.ops) {
			modes = ekit.Modes
		}
		for _, o := range x.origins {
			for _, m := range modes {
				p := x.p
				if thorough && p < 2 {
					p++
				}
				add(cfg{mode: m, origin: o, ops: x.ops, p: p}, 500)
			}
		}
	}
	// a dialed UDP connection (a datagram socket that reads for itself) that has received 0, 1 or 2
	// datagrams before the operations: one expiry per kind of deadline, renewal, clear, Close
	for _, l := range [][]op{{R(5)}, {W(5)}, {D(5)}, {R(5), R(0), R(9)}, {W(5), W(9)}, {D(5), C}, {R(5), Z, R(5)}, {D(5), D(0)}} {
		for _, o := range []string{"udpdial0", "udpdial1", "udpdial2"} {
			if !thorough && (len(l) > 1 && o != "udpdial1") {
				continue
			}
			p := 1
			if thorough || len(l) == 1 {
				p = 2
			}
			add(cfg{mode: ekit.LT, origin: o, ops: l, p: p}, 300)
			if thorough {
				add(cfg{mode: ekit.ET, origin: o, ops: l, p: p}, 300)
			}
		}
	}
	// the dial timeout fires first: the operations find a closed connection (nothing may be armed,
	// nothing may fire later)
	for _, l := range [][]op{{W(5)}, {R(5)}, {D(5)}, {D(5), D(0), W(9)}} {
		modes := []ekit.Mode{ekit.LT}
		if thorough {
			modes = ekit.Modes
		}
		for _, m := range modes {
			add(cfg{mode: m, origin: "dialTfired", ops: l, p: 2}, 200)
		}
	}
	all = append(all, keepaliveScenarios(tier)...)
	all = append(all, udpScenarios(tier)...)
	sort.SliceStable(all, func(i, j int) bool { return all[i].w > all[j].w })
	out := make([]*vkit.Scenario, len(all))
	for i, x := range all {
		out[i] = x.sc
	}
	return out
}

func main() {
	vkit.Main(&vkit.Spec{
		Property: "C16", Level: "model_checking",
		Rule: "core: one scenario = epoll mode x operation list of thread A (length <= 3 quick / <= 4 thorough) over SetReadDeadline/SetWriteDeadline/SetDeadline(now+5s | now+9s | zero time; plus lists with the current instant and a past instant for each setter: alone, after a future deadline of the same direction, across directions, after time passed, followed by renewal / clear / Write / Close, behind a backlog - thorough: every list of length <= 2 over the extended alphabet), Write(1) / Writev(2x1) (fit into the socket, K=3), Write(5) (leaves a backlog of 2), peer drain, 3 s sleep, Close; lists are pruned only where the last operation cannot matter (a clear with nothing to clear, a write without a write deadline, a drain with nothing sent, anything but one deadline set after Close, a trailing sleep); plus 8 lists that end in a close by nbio itself (write overflow, EPIPE after a peer reset); x origin of the connection: every list on an added connection, 22 representative lists (one expiry per kind of deadline, set-clear-set, renewal, Write that empties / leaves a backlog, drain, Close; thorough: every list of length <= 2) on connections from DialAsync / DialAsyncTimeout(7 s) whose connect is completed by a network thread that runs concurrently with the dial call (thorough: also a synchronous connect), 8 deadline-only lists (one expiry per kind, renewal, clear, Close) on a dialed UDP connection - a datagram socket that reads for itself - that has received 0, 1 or 2 datagrams before the operations, 4 lists on the connection left by a dial timeout that fired, 8 lists issued INSIDE the dial callback (a write deadline with a backlog that must expire, read / combined deadline, a callback that sleeps 8 s > dial timeout; the clock starts with the callback). A clock thread fires the earliest virtual timer; every placement of a firing relative to A, the poller and the timer callbacks within the preemption bound (listed per scenario; free choices - which thread runs when one blocks or ends, which of two timers with equal deadlines fires - are always complete). keepalive: one scenario = HTTP | WebSocket x epoll mode x list of steps (seconds slept before each unit, drawn from values below, equal to and above the keep-alive time; kind of unit: HTTP complete request | POST head | POST body, WebSocket text | binary | ping | pong | first / middle / last fragment of a message; the gap lists with the default kind - request, text message - up to length 2, every other kind alone and in the listed combinations; 'calm' scenarios - timers fire only when every thread is blocked - cover every ordered pair (thorough: triple) of WebSocket kinds with gaps that make each unit depend on its predecessor's renewal, fragmented messages with control frames in between and HTTP sequences of up to 4 units; Upgrader.KeepaliveTime 4 s by default and 0 (disabled) | 7 | 9 s in dedicated lists with gaps below and beyond the HTTP keep-alive time; 'early' scenarios put the first request into the socket before AddConnNonTLSNonBlocking is called) x handler duration (instantaneous, or 3 of the 7 s / 2 of the 4 s of virtual time spent inside the HTTP handler / the WebSocket message handler, during which the clock runs); firings while no exchange is in flight are placed by the scheduler, firings in the middle of an exchange at three offered points (after the client's write, at handler entry, after the upgrade) within the deviation bound. udp: one scenario = epoll mode x Config.UDPReadTimeout (0 = disabled | 5 s) x list of datagrams (gap in seconds below / equal to / above the timeout, remote A | B, handler action: none | SetReadDeadline(now+9s) | SetReadDeadline(zero) on the session) sent to a UDP server connection served by the poller; timers fire at quiescence, every interleaving of the poller, the timer callbacks and the notification thread within the preemption bound. non-trivial = at least one deadline timer of the connection fired in the scenario (or, with keep-alive / the UDP timeout disabled, the connection / session was open at the end as it must be)",
		Assumptions: []string{
			"virtual time: the clock only moves when a timer fires and then jumps exactly to that timer's deadline; nbio reads it through time.Now/time.Until/AfterFunc/Reset. 'Never early' and 'at the deadline' are judged on the virtual time of the FIRING (the instant the runtime starts the AfterFunc callback), not on the time of the close notification, which nbio delivers asynchronously",
			"reference model per direction: deadline = last non-zero Set*Deadline that returned; none after a zero-time set, after Close, after any close notification, and (write direction) after a Write/Writev call that returned with an empty backlog. A backlog emptied later by the poller's flush does not clear the write deadline in the model (SetWriteDeadline's doc comment), but a connection that is still open at the end in that situation would not be reported either",
			"a deadline armed by a call during which the virtual clock moved by d (a timer fired between the call's time.Now and its AfterFunc/Reset) may fire up to d late: the model keeps an interval [t, t+d]",
			"races, defined on happens-before-recorded harness events: a firing while a call that affects the same direction (Set*Deadline on it, SetDeadline, Write/Writev for the write direction, Close) is between its begin and end bookkeeping is not judged as early/stale; it must still fit the deadline that was current before the call or the one the call sets, and a close it causes is accepted. A firing at any other moment is judged against the model exactly: no deadline -> stale, before it -> early, after it -> late; a timeout close notification must be backed by a legitimate or racing firing of the same direction (this is also what detects a wrong error value)",
			"begin/end bookkeeping of A's calls and the close notification handler take the connection mutex (conn.Lock) to read private state: the window 'call in flight' is therefore slightly wider than the call itself (permissive)",
			"cancelled = disarmed: after a clearing call returned, after Close returned, at every close notification, and after a Set*Deadline on a closed connection, the connection's deadline timers must not be armed and no armed AfterFunc timer may exist that the connection no longer refers to (the connection is the only creator of AfterFunc timers in these scenarios). A stale timer that would fire into a closed connection closes nothing, but the statement says closing cancels the deadline; such findings carry 'timer-armed-after-close ... via=<how it was closed>' and say so",
			"fires: once thread A is done the clock thread keeps firing until no timer is armed; a connection that is then still open although the model has a deadline is reported (deadline-not-enforced)",
			"the firing is done by a harness clock thread through vtime.FireNext instead of Options.AutoTimers so that the harness knows which timer fired, when, and in which model state; the schedules are a superset of AutoTimers' at the same bound (after a firing the choice between the interrupted thread, the callback and the next firing is free)",
			"keep-alive: nbhttp.Engine with IOModNonBlocking, KeepaliveTime 7 s, ServerExecutor = one thread per job batch (the inline executor func(f){f()} deadlocks the poller when a close notification is queued behind a request that is being parsed - Parser.Parse holds the parser mutex while the job list runs CloseAndClean; already recorded under C18, notes/repro/C18_http_inline_executor_self_deadlock), websocket.Upgrader.KeepaliveTime 4 s. lastActivity = AddConnNonTLSNonBlocking, the end of each response (flushResponse's renewal, bracketed by the END of the handler and the return of the job batch - a handler that takes 3 virtual seconds moves the expected close by 3 s), the upgrade (renewal inside Upgrade, bracketed by handler entry and return), the end of the handling of each text message. The client waits for each exchange that completes a unit to be processed before it sleeps again and does not wait after bytes that complete nothing (pipelining is a C10 subject). Expected: closed with ErrReadTimeout by a firing at exactly lastActivity + keep-alive time (interval as above), never earlier; a firing while an exchange is in flight may go either way. TLS and the blocking I/O modes are not covered (DESIGN section 5)",
			"origin of the connection: for a connection from DialAsync/DialAsyncTimeout the reference model starts when the dial callback has reported success and the dial call has returned: from then on no deadline exists until one is set, no virtual timer may be armed (stale-dial-timer: armed=before-connect - the completion did not clear the dial timeout; armed=after-connect - the dial timeout was armed after the completion had found nothing to clear), and a close notification that carries ErrDialTimeout is a wrong error whatever expired (wrong-timeout-error got=dial). A dial timeout that fires while the connect is still in progress is legitimate (callback and notification count are C03's); afterwards the connection is closed and the operations must arm nothing",
			"keep-alive, what counts as activity (read off the unchanged code, the statement only says 'idle' / 'silent'): every unit the server HANDLES renews - the end of each HTTP response (flushResponse), the upgrade, and every WebSocket message passed to handleWsMessage: complete text/binary messages (for a fragmented message: when its last fragment arrived) and every control frame (ping, pong), whose handlers run through the same deferred renewal. Inbound bytes that complete nothing (a first or middle fragment, a POST head without its body) renew nothing in the code; whether such a connection is still 'idle/silent' is left open by the statement, so for them the model accepts a firing anywhere in [last handled unit + keep-alive, last inbound byte + keep-alive] and still requires the close (counters fire_after_partial_unit_*)",
			"a deadline that is already reached when it is set (SetXDeadline(time.Now()), an instant in the past; any non-zero time.Time) is a deadline, not a clear: read off the unchanged code, every setter tests t.IsZero() only and arms a timer for max(0, time.Until(t)), so the connection is closed 'at once' with the corresponding timeout error; in the model such a deadline lies at the instant it was armed ([begin, end] of the setting call), it replaces a pending later deadline of the same direction, a connection that stays open is reported as deadline-not-enforced ... reached-when-set, and a renewal / clear / emptying Write that follows races with the immediate firing like any other",
			"Upgrader.KeepaliveTime = 0 means keep-alive is disabled on the WebSocket connection (read off Upgrade: it clears the read deadline then, and handleWsMessage never re-arms): once the upgrade exchange is complete no deadline exists, every firing of the connection's read timer is stale (keepalive-close-while-disabled) and 'open at the end' is the expected outcome. With a positive value the deadline after the upgrade is upgrade + that value, whether it is smaller or larger than the HTTP keep-alive time",
			"early first request: when the client's first request is in the socket before the connection is handed to AddConnNonTLSNonBlocking, the order 'request handled, then accept-time arming' is possible; the model does not care about the order - the last activity is the handled request (same virtual instant as the accept), so the deadline must be the one that follows from it. The cause is named in the signature (accept-arming-overrides-upgrade-deadline) only when the harness saw, on return of the call, a read timer armed for something else than the model's deadline",
			"operations inside the dial callback: the callback's report of success is the completion of the dial; a deadline armed inside it is a deadline like any other (a write deadline with a backlog to a peer that does not read must close the connection with ErrWriteTimeout), and from the callback's entry on no close may carry ErrDialTimeout and the write-timer slot must be free until the application sets a write deadline (dial-timer-armed-after-success)",
			"UDP sessions (read off readUDP): with Config.UDPReadTimeout = T > 0 every datagram read for a session sets that session's read deadline to now + T, before the data handler runs; the model's interval is [send + T, handler entry + T]. A deadline the handler sets explicitly replaces it and is itself replaced by the next datagram's now + T; with T = 0 datagrams touch no deadline. A session is ended only by its own deadline (ErrReadTimeout), datagrams of another remote change nothing, a session without deadline is open at the end, and a remote whose session was closed opens a new session with its next datagram. The UDP server connection itself has no deadline",
			"not judged here: number of close notifications and errors returned by calls on a closed connection (C03), byte stream contents (C01), buffer ownership (C11; a fresh tracking allocator is installed per execution for isolation)",
		},
		Build: build, QuickBudget: 45 * time.Second, ThoroughBudget: 6 * time.Minute, MinNonTrivial: 300,
	})
}

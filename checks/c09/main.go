// C09: HTTP response framing — what the handler writes is what a client decodes.
//
// Explicit-state breadth-first search over handler programs (sequences of header settings,
// WriteHeader, Write, WriteString, Flush, ReadFrom) executed on the real nbhttp.Response through
// the production path: the request bytes go into a real server-side nbhttp.Parser with a real
// ServerProcessor, the engine's handler runs the program, and ServerProcessor.flushResponse and
// the release code run after it exactly as for a live connection. The connection is a recording
// fake net.Conn. The oracle is independent of nbio: net/http's client-side parser plus a small
// reference model of what http.ResponseWriter owes a handler (verif/seqx/respgen/model.go).
//
// Deviations from DESIGN §4 C09 (spirit kept):
//   - "Content-Length = the program's total" cannot be bound when the operation is applied in a
//     BFS over prefixes; instead the declaration takes a value computed at that point (probe run:
//     head+body lands on a threshold target) or a fixed one, a "fill" write completes the
//     declared length, and programs whose body differs from their declaration are not judged.
//   - the trailer operation is split (declare / declare+value / late value) because
//     http.ResponseWriter lets a handler set a declared trailer's value after the body.
//   - the connection kind (with / without a Sendfile method, as *nbio.Conn vs. *net.TCPConn / TLS)
//     is a dimension of the programs that read from a file.
//   - the ReadFrom alphabet has, besides "the rest of the file" and "100 bytes of it", the general
//     file segment OpRFX = ReadFrom(&io.LimitedReader{R: file, N: n}) after Seek(off) (io.CopyN of a
//     byte range): n in {0, 1, what is left of the file, that + 1, more than the whole file} x off in
//     {0, middle, end of file} x connection {with Sendfile, without} (thorough: + Sendfile disabled),
//     under a declared Content-Length that the segment completes or not (the rest is then written by
//     a "fill" Write). The body is then no longer a prefix of the pattern; the model keeps the list
//     of pattern spans. Quick tier: the whole family where a positive Content-Length is declared (the
//     only situation in which nbio may take the sendfile path), the reduced family {0, 1, beyond the
//     end} on a connection without Sendfile, the empty segment and "limit 1 at the end of the file"
//     (on a connection with Sendfile) elsewhere; a displaced segment is
//     only completed (fill, Flush), not expanded further. The thorough tier applies the same rule
//     at depth 5 with the third connection kind (the wider variant respgen.Config.RFXWide - whole
//     family on every connection kind, more outside declared lengths, displaced states expanded -
//     exceeds the thorough budget together with the allocator dimension; VERIF_C09_WIDE=1).
//   - programs that read from a file are, on the two keep-alive request versions, followed by a
//     second pipelined request on the same connection whose handler answers a fixed response: what
//     the first response puts on the wire beyond its framing is seen in front of the second one.
//   - overrun attempts: wherever a positive Content-Length is in force (declared before anything was
//     committed, no chunked framing / trailers asked for) the handler may try to write MORE than it
//     leaves room for: Write of rest+1 and rest+64 KiB bytes, WriteString and ReadFrom(bytes.Reader)
//     of rest+1 (thorough: both sizes). The call must be refused - return 0 and
//     http.ErrContentLength, which is what net/http's ResponseWriter and the unchanged tree do - and
//     put nothing on the wire; the program goes on (fill, more attempts) and the final wire must
//     still be exactly the declared body; such programs get the pipelined follow-up request too.
//   - the allocator is a dimension: the BFS itself runs under the tracking allocator with pooled
//     capacities (buffers grow in place, like the stock pool); every program that is clean there is
//     run again under mempool.NewAligned() (a growing Append returns a NEW handle and frees the old
//     one), under the tracking allocator with exact capacities + MoveOnGrow (every growing
//     Append/Realloc relocates and poisons the old buffer) and under mempool.NewSTD(), and judged by
//     the same oracle. Quick tier: one history per distinct (implementation, model) state pair - the
//     programs that are new states - for the two moving allocators, those of length <= 3 for NewSTD;
//     thorough: every program under the two moving allocators, the new states under NewSTD.
//   - levels 1..2 of the BFS are computed by every worker (global visited set); each level-2
//     state is the root of a sub-tree owned by one worker, whose visited set is seeded with the
//     global one. "states" therefore counts distinct (implementation, model) state pairs per
//     sub-tree plus the global ones, not globally distinct pairs.
package main

import (
	"encoding/json"
	"fmt"
	"os"
	"runtime/pprof"
	"sort"
	"strings"
	"time"

	"verif/seqx/respgen"
	"verif/track"
	"verif/vkit"
)

func main() {
	if f := os.Getenv("VERIF_CPUPROFILE"); f != "" {
		if fh, err := os.Create(fmt.Sprintf("%s.%d", f, os.Getpid())); err == nil {
			_ = pprof.StartCPUProfile(fh)
			go func() { time.Sleep(20 * time.Second); pprof.StopCPUProfile(); fh.Close() }()
		}
	}
	vkit.Main(&vkit.Spec{
		Property: "C09", Level: "model_checking",
		Rule: "every handler program over the operation alphabet {Header().Set(Content-Length | Content-Type | Trailer | Trailer+value | trailer value | Transfer-Encoding: chunked), " +
			"WriteHeader(200|204|404), Write, WriteString, Flush, overrun attempts Write/WriteString/ReadFrom of rest+1 | rest+64KiB bytes under a Content-Length in force, ReadFrom(bytes.Reader | *os.File | io.LimitedReader{*os.File, N} after Seek(off) with N in {0,1,100,left,left+1,file+1000} x off in {0,middle,EOF} x conn {Sendfile, no Sendfile})} up to length 4 (quick) / 5 (thorough), " +
			"programs with a file operation being followed by a pipelined second request on the keep-alive versions, " +
			"each program that is clean under the explorer's allocator (track, pooled capacities) run again under mempool.NewAligned(), track+MoveOnGrow and mempool.NewSTD() (quick: the programs that are new states, NewSTD up to length 3; thorough: every program, NewSTD the new states), " +
			"for the request versions HTTP/1.0, HTTP/1.0+keep-alive, HTTP/1.1, HTTP/1.1+close, is executed through Parser.Parse -> ServerProcessor.OnComplete -> handler -> flushResponse; " +
			"write sizes are {0,1,100,70000,131072}, the rest of a declared Content-Length, and sizes computed from a probe run of the same history so that the measured internal buffer " +
			"(pending bytes + framing + data) lands on 65534/65535/65536/65537; BFS states are deduplicated on a canonical dump of the Response's private fields + wire so far + model state. " +
			"A case (= one program) is non-trivial when it is judged (the handler does not contradict its own Content-Length / 204 status) and puts at least one body byte, a Flush or a trailer on the wire; " +
			"states = distinct (implementation state, model state) pairs per sub-tree (see main.go), transitions = programs executed (each replays its history on a fresh Response)",
		Assumptions: []string{
			"the independent client is net/http's http.ReadResponse for a GET request; 'well-formed' means it decodes without error and nothing is left over",
			"status: the first WriteHeader before any body operation, else 200; after an empty Write both 200 and a later WriteHeader's code are accepted (net/http commits on an empty Write, nbio does not)",
			"only headers set before the first WriteHeader/Write/Flush/ReadFrom must appear; headers set later may or may not appear",
			"a trailer declared (Trailer header) before the head is committed must arrive with the last value the handler gave it before returning, as http.ResponseWriter documents; a declared trailer that never gets a value may be absent or empty",
			"when the handler itself asks for chunked framing or trailers on an HTTP/1.0 request the chunked response is accepted and decoded as chunked (net/http would ignore Transfer-Encoding on an HTTP/1.0 status line)",
			"programs whose body length differs from a Content-Length they declared, or that write a body after choosing status 204, are outside the quantifier (handler's fault) and are executed but not judged",
			"Flush is a legitimate operation on every request version: the complete wire must still decode to the written body",
			"header operations other than Content-Length and the trailer value are only offered before body data is committed; Content-Length is declared at most once per program (alphabet bound)",
			"request method is always GET (HEAD responses are not in the quantifier)",
			"a ReadFrom that contributes no bytes (limit 0, file at its end) is like an empty Write: the status and the headers may or may not be committed by it",
			"the connection's Sendfile (harness double of (*nbio.Conn).Sendfile) sends 'remain' bytes from the file's offset, everything up to the end of the file when remain <= 0 or beyond it - the documented contract of nbio.Conn.Sendfile, which C09 does not verify",
			"an overrun attempt (more bytes than a Content-Length in force leaves room for) must return 0 and http.ErrContentLength and emit nothing (net/http's contract for Write; the unchanged tree does the same for WriteString and for ReadFrom of a bytes.Reader, which go through Write); like an empty Write it may or may not commit status and headers; afterwards the handler can still complete the declared body (nbio's behaviour; net/http refuses every later Write). ReadFrom of a file through the connection's Sendfile is not offered beyond the declared length (neither nbio nor net/http checks it there)",
			"allocator dimension: only failures of a program that is clean under the explorer's own allocator are reported there (with the allocator in the signature); a program whose proper prefix already fails under that allocator is not reported again",
		},
		Seq: run, ReplaySeq: replay, MinNonTrivial: 1000,
	})
}

type input struct {
	Program respgen.Program `json:"program"`
	Text    string          `json:"text"`
	// the allocator the program fails under ("" / zero: the explorer's own, track pooled)
	Alt    bool   `json:"alt,omitempty"`
	Alloc  string `json:"alloc,omitempty"`
	Policy int    `json:"policy,omitempty"`
	Move   bool   `json:"move,omitempty"`
}

// base is the allocator the BFS itself runs under (buffers behave like the stock pool's: capacity
// at least 1024, growth in place); alts are the other values of the allocator dimension.
var base = respgen.RunOpt{Policy: track.Pooled, NoSweep: true}

var alts = []respgen.RunOpt{
	{Alloc: respgen.AllocAligned},     // mempool.NewAligned(): a growing Append returns a new handle, the old one is freed
	{Policy: track.Exact, Move: true}, // tracking allocator, exact capacities, every growing Append/Realloc relocates and poisons the old buffer
	{Alloc: respgen.AllocSTD},         // mempool.NewSTD()
}

func altOf(in input) respgen.RunOpt {
	return respgen.RunOpt{Alloc: in.Alloc, Policy: track.Policy(in.Policy), Move: in.Move, NoSweep: in.Alloc == ""}
}

func run(tier string, sh *vkit.Shard, p *vkit.Part) {
	cfg := respgen.QuickConfig().WithFileSegments(false)
	limit := 80 * time.Second
	if tier == "thorough" {
		// RFXWide (the family beyond where nbio can take the sendfile path, displaced states expanded,
		// connection kind in the state key) does not fit the thorough budget together with the
		// allocator dimension at depth 5 (> 10^7 programs x 4 allocators); VERIF_C09_WIDE=1 runs it
		cfg = respgen.ThoroughConfig().WithFileSegments(os.Getenv("VERIF_C09_WIDE") != "")
		limit = 17 * time.Minute
	}
	cfg.OverrunWide = tier == "thorough"
	if os.Getenv("VERIF_C09_NORFX") != "" { // development: the alphabet without the file-segment family
		cfg = respgen.QuickConfig()
		if tier == "thorough" {
			cfg = respgen.ThoroughConfig()
		}
	}
	if d := os.Getenv("VERIF_C09_DEPTH"); d != "" {
		fmt.Sscanf(d, "%d", &cfg.Depth)
	}
	deadline := time.Now().Add(limit)
	env := respgen.GetEnv()
	var clusters map[string]map[string]int
	var clusterEx map[string]string
	if os.Getenv("VERIF_C09_CLUSTERS") != "" {
		clusters = map[string]map[string]int{}
		clusterEx = map[string]string{}
	}
	x := &respgen.Explorer{Env: env, Cfg: cfg, Opt: base, Judge: true, Alts: alts}
	if os.Getenv("VERIF_C09_NOALTS") != "" {
		x.Alts = nil
	}
	x.AltWanted = quickAltWanted
	if tier == "thorough" {
		x.AltWanted = thoroughAltWanted
	}
	x.Stop = func() bool { return time.Now().After(deadline) }
	x.Visit = func(n *respgen.Node) {
		r := n.R
		m := n.Model
		states := 0
		if n.New {
			states = 1
		}
		p.Count("programs_len_"+fmt.Sprint(len(n.Prog.Ops)), 1)
		visitAlts(p, env, n)
		countFileOps(p, n)
		if os.Getenv("VERIF_C09_DEBUG") != "" {
			k := ""
			for i, op := range n.Prog.Ops {
				if op.K == respgen.OpRFX {
					k += fmt.Sprintf(" rfx@%d/%d", i+1, len(n.Prog.Ops))
					break
				}
			}
			for _, op := range n.Prog.Ops {
				if op.K == respgen.OpCL && op.N == 1 {
					k += " cl1"
				}
			}
			p.Count("debug"+k, 1)
		}
		p.Count("version_"+respgen.Versions[n.Prog.Version].Name, 1)
		if len(r.Viol) > 0 {
			p.Count("ownership_violations_seen(C11)", 1)
		}
		if !n.Judged {
			p.Count("not_judged: "+m.Dead(), 1)
			p.Case(false, states, 1)
			return
		}
		if n.Partial {
			p.Count("judged_partially (return values only): "+m.Excluded(), 1)
		} else {
			p.Count("judged", 1)
		}
		big := 0
		for _, w := range r.Writes {
			if w >= 65536 {
				big++
			}
		}
		if big > 0 {
			p.Count("programs_with_conn_write>=64KiB", 1)
		}
		for i, op := range n.Prog.Ops {
			if len(op.Sym) > 1 && op.Sym[0] == 'T' && (op.K == respgen.OpW || op.K == respgen.OpWS) && i == len(n.Prog.Ops)-1 {
				p.Count("last_write_sized_for_buffer_"+op.Sym[1:], 1)
			}
		}
		if r.State.Chunked {
			p.Count("chunked", 1)
		} else {
			p.Count("identity", 1)
		}
		nontrivial := !n.Partial && (m.Body > 0 || m.Level == 3 || m.Hdr0["Trailer"] != "")
		p.Case(nontrivial, states, 1)
		vs := n.Verdicts
		p.Outcome(respgen.OutcomeClass(m, r, vs))
		if len(vs) > 0 && n.Tainted {
			p.Count("failing_programs_not_reported_because_a_prefix_already_failed", 1)
			return
		}
		if len(vs) == 0 {
			if m.Body >= 65536 && !n.Partial {
				p.Sample(map[string]interface{}{"program": n.Prog.String(), "wire_bytes": len(r.Wire), "conn_writes": r.Writes, "verdict": "ok"})
			}
			return
		}
		{
			sig, minimal := respgen.Sign(env, n, x.Opt)
			text := n.Prog.String()
			if len(minimal.Ops) != len(n.Prog.Ops) {
				text += "\n  minimal failing program: " + minimal.String()
			}
			for _, v := range vs {
				text += fmt.Sprintf("\n  %s: %s", v.Clause, v.Detail)
			}
			p.Report(sig, text, "program", input{Program: n.Prog, Text: text})
			if clusters != nil {
				if clusters[sig] == nil {
					clusters[sig] = map[string]int{}
					clusterEx[sig] = text
				}
				clusters[sig][respgen.Versions[n.Prog.Version].Name+" "+n.Prog.Conn+" "+n.Prog.Shape()]++
			}
		}
	}
	x.Explore(sh)
	if x.Aborted {
		p.Incompletef("wall-clock cap reached before all depth-%d sub-trees were explored", cfg.Depth)
	}
	p.Count("probe_runs", x.Probes)
	for t, c := range x.Landed {
		p.Count(fmt.Sprintf("write_landed_buffer_exactly_at_%d", t), c)
	}
	p.Count("write_target_missed", x.Missed)
	p.Count("write_target_unreachable_from_state(skipped)", x.Unreachable)
	if clusters != nil {
		f, _ := os.OpenFile(fmt.Sprintf("%s.%d", os.Getenv("VERIF_C09_CLUSTERS"), sh.I), os.O_CREATE|os.O_TRUNC|os.O_WRONLY, 0o644)
		var sigs []string
		for s := range clusters {
			sigs = append(sigs, s)
		}
		sort.Strings(sigs)
		for _, s := range sigs {
			tot := 0
			var shapes []string
			for sh, c := range clusters[s] {
				tot += c
				shapes = append(shapes, fmt.Sprintf("%6d %s", c, sh))
			}
			sort.Sort(sort.Reverse(sort.StringSlice(shapes)))
			if len(shapes) > 25 {
				shapes = shapes[:25]
			}
			fmt.Fprintf(f, "=== %s (%d)\n  ex: %s\n%s\n", s, tot, clusterEx[s], strings.Join(shapes, "\n"))
		}
		f.Close()
	}
}

// quickAltWanted selects the programs of the quick tier that are run under the other allocators.
// The moving allocators: one history per distinct (implementation state, model state) pair - the
// programs the BFS expands or would expand - and every terminal outcome; mempool.NewSTD(), which
// neither moves nor recycles, only for such programs up to length 3. The thorough tier runs every
// program under every allocator.
func quickAltWanted(n *respgen.Node, alt int) bool {
	if !n.New {
		return false
	}
	if alts[alt].Alloc == respgen.AllocSTD {
		return len(n.Prog.Ops) <= 3
	}
	return true
}

// thorough: every program under the two moving allocators; mempool.NewSTD() for the programs that
// are new states.
func thoroughAltWanted(n *respgen.Node, alt int) bool {
	return n.New || alts[alt].Alloc != respgen.AllocSTD
}

// visitAlts accounts for and reports the allocator dimension of one program.
func visitAlts(p *vkit.Part, env *respgen.Env, n *respgen.Node) {
	if n.AltRuns > 0 {
		p.Count("programs_run_under_other_allocators", 1)
		p.Count("runs_under_other_allocators", n.AltRuns)
	}
	for _, f := range n.Alt {
		p.Count("programs_failing_only_under_allocator_"+f.Opt.String(), 1)
		if n.AltTaint&n.AltFail != 0 {
			// cannot happen: a tainted allocator is not run again
			continue
		}
		sig, minimal := respgen.SignAlt(env, n, f)
		sig += " [allocator " + f.Opt.String() + "]"
		text := n.Prog.String() + "   [allocator " + f.Opt.String() + "; the same program is clean under " + base.String() + "]"
		if len(minimal.Ops) != len(n.Prog.Ops) {
			text += "\n  minimal failing program: " + minimal.String()
		}
		for _, v := range f.Verdicts {
			text += fmt.Sprintf("\n  %s: %s", v.Clause, v.Detail)
		}
		p.Report(sig, text, "program", input{Program: n.Prog, Text: text, Alt: true, Alloc: f.Opt.Alloc, Policy: int(f.Opt.Policy), Move: f.Opt.Move})
	}
}

// countFileOps: vacuity counters of the file-segment family of ReadFrom.
func countFileOps(p *vkit.Part, n *respgen.Node) {
	if len(n.Prog.Ops) == 0 || !n.Judged {
		return
	}
	op := n.Prog.Ops[len(n.Prog.Ops)-1]
	if op.K != respgen.OpRFX {
		return
	}
	conn := n.Prog.Conn
	p.Count("file_segment_ops", 1)
	p.Count("file_segment "+op.Sym+" conn="+conn, 1)
	or := n.R.Ops[len(n.R.Ops)-1]
	if or.Sendfile > 0 {
		p.Count("file_segment_ops_taking_the_sendfile_path", 1)
		if op.Count() == 0 {
			p.Count("file_segment_ops_taking_the_sendfile_path_with_nothing_to_send", 1)
		}
	}
	if n.Model.DeclaredCL() > 0 {
		if n.Partial {
			p.Count("file_segment_ops_content_length_larger_than_sent", 1)
		} else {
			p.Count("file_segment_ops_content_length_equal_to_sent", 1)
		}
	}
	if n.Prog.Next {
		p.Count("file_segment_ops_followed_by_a_pipelined_response", 1)
	}
}

func replay(scenario string, in json.RawMessage) string {
	var inp input
	if err := json.Unmarshal(in, &inp); err != nil {
		return "bad replay input: " + err.Error()
	}
	env := respgen.GetEnv()
	opt := base
	n := respgen.Attribute(env, inp.Program, opt)
	if alt := altOf(inp); inp.Alt && len(n.Verdicts) == 0 {
		fmt.Printf("the program is clean under allocator %s; running it under allocator %s\n", base, alt)
		opt = alt
		n = respgen.Attribute(env, inp.Program, opt)
	}
	r, m := n.R, n.Model
	fmt.Println("program:", inp.Program.String(), " allocator:", opt.String())
	for i, o := range r.Ops {
		fmt.Printf("  op %d %-16s -> n=%d err=%q wire %d->%d buffered=%d headEncoded=%v\n", i, inp.Program.Ops[i], o.N, o.Err, o.Wire0, o.Wire1, o.Buffered, o.HeadEncoded)
	}
	fmt.Printf("conn writes: %v closed=%d panic=%q\n", r.Writes, r.Closed, r.Panic)
	fmt.Printf("state before flushResponse:\n%s", r.Dump)
	head := r.Wire
	if len(head) > 400 {
		head = head[:400]
	}
	fmt.Printf("wire (%d bytes) starts: %q\n", len(r.Wire), head)
	if !n.Judged {
		fmt.Println("not judged:", m.Dead())
		return ""
	}
	if n.Partial {
		fmt.Println("judged partially (return values only):", m.Excluded())
	}
	var out []string
	if n.Tainted {
		fmt.Println("a proper prefix of this program already fails; the explorer does not report this program")
	}
	if len(n.Verdicts) > 0 {
		sig, minimal := respgen.Sign(env, n, opt)
		if opt != base {
			sig += " [allocator " + opt.String() + "]"
		}
		out = append(out, "signature: "+sig, "  minimal failing program: "+minimal.String())
		for _, v := range n.Verdicts {
			out = append(out, "  "+v.Clause+": "+v.Detail)
		}
	}
	return strings.Join(out, "\n")
}

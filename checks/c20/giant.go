package main

// The freeSize boundary of the production pool mempool.New(1024, 1<<30). One operation on a
// buffer of that size costs a gibibyte of memory traffic, so this is a restricted family:
// one giant handle (slot 0) and at most one small handle (slot 1), depth 2 (quick) / 3
// (thorough), all sync.Pool answers. Contents are checked on probe windows (the first and last
// 4 KiB of every region the harness wrote, 64 bytes at every 64 MiB, every appended byte)
// instead of byte by byte; everything else (lengths, disjointness over the capacity ranges,
// other handle unchanged on its windows) is as in the general search.

import (
	"bytes"
	"fmt"
	"os"
	"runtime"
	"runtime/debug"
	"time"
	"unsafe"

	"github.com/lesismal/nbio/mempool"

	"verif/vkit"
	"verif/vsched"
)

const giantCfgName = "pooled(1024,1<<30) boundary family"
const giantF = 1 << 30

type win struct {
	off  int
	data []byte
}

type ghandle struct {
	p    *[]byte
	n    int   // reference length
	wins []win // reference contents on the probe windows
}

type gworld struct {
	a     mempool.Allocator
	h     [2]*ghandle
	v     *viol
	moved bool // the last Append/Realloc returned another array
}

func (w *gworld) fail(o op, kind, format string, a ...interface{}) {
	if w.v == nil {
		w.v = &viol{sig: fmt.Sprintf("pooled %s %s", o.name(), kind), desc: fmt.Sprintf(format, a...)}
	}
}

// probe writes the pattern into the probe windows of region [from,to) of h and records them.
func (h *ghandle) probe(stamp, from, to int) {
	add := func(a, b int) {
		if a < from {
			a = from
		}
		if b > to {
			b = to
		}
		if a >= b {
			return
		}
		d := make([]byte, b-a)
		for i := range d {
			d[i] = pat(stamp, a+i)
			(*h.p)[a+i] = d[i]
		}
		h.wins = append(h.wins, win{a, d})
	}
	if to-from <= 3*4096 {
		add(from, to)
		return
	}
	add(from, from+4096)
	add(to-4096, to)
	for x := (from/(64<<20) + 1) * (64 << 20); x+64 < to-4096; x += 64 << 20 {
		add(x, x+64)
	}
}

// cut drops the reference beyond n.
func (h *ghandle) cut(n int) {
	var out []win
	for _, x := range h.wins {
		if x.off >= n {
			continue
		}
		if x.off+len(x.data) > n {
			x.data = x.data[:n-x.off]
		}
		out = append(out, x)
	}
	h.wins = out
	h.n = n
}

func (w *gworld) same(o op, slot int, self bool, when string) bool {
	h := w.h[slot]
	b := *h.p
	kind := "other-buffer-changed"
	if self {
		kind = "wrong-contents " + movedStr(w.moved)
	}
	if !self && len(b) != h.n {
		w.fail(o, kind, "%s: handle %d changed length %d -> %d", when, slot, h.n, len(b))
		return false
	}
	for _, x := range h.wins {
		if x.off+len(x.data) > len(b) || !bytes.Equal(b[x.off:x.off+len(x.data)], x.data) {
			w.fail(o, kind, "%s: handle %d (len %d): contents differ in probe window [%d,%d)", when, slot, len(b), x.off, x.off+len(x.data))
			return false
		}
	}
	return true
}

func (w *gworld) others(o op, self int, when string) {
	for i, h := range w.h {
		if h != nil && i != self {
			w.same(o, i, false, when)
		}
	}
	if w.h[0] != nil && w.h[1] != nil && (w.h[0].p == w.h[1].p || overlap(*w.h[0].p, *w.h[1].p)) {
		w.fail(o, "live-buffers-overlap", "%s: the two live handles share memory", when)
	}
}

func (w *gworld) step(idx int, o op) {
	switch o.K {
	case 'M':
		p := w.a.Malloc(o.N)
		if p == nil || len(*p) != o.N {
			w.fail(o, "wrong-length", "Malloc(%d) returned nil or a wrong length", o.N)
			return
		}
		h := &ghandle{p: p, n: o.N}
		w.h[o.H] = h
		w.others(o, o.H, "after Malloc")
		h.probe(idx, 0, o.N)
		w.others(o, o.H, "after writing into the buffer returned by Malloc")
	case 'A', 'S':
		h := w.h[o.H]
		data := patBytes(idx, h.n, o.N)
		oldBase := unsafe.SliceData(*h.p)
		var np *[]byte
		if o.K == 'A' {
			np = w.a.Append(h.p, data...)
		} else {
			np = w.a.AppendString(h.p, string(data))
		}
		if np == nil || len(*np) != h.n+o.N {
			w.fail(o, "wrong-length", "%s(+%d) on length %d returned nil or a wrong length", o.name(), o.N, h.n)
			return
		}
		w.moved = unsafe.SliceData(*np) != oldBase
		h.p = np
		h.wins = append(h.wins, win{h.n, data})
		h.n += o.N
		if !w.same(o, o.H, true, "after "+o.name()) {
			return
		}
		w.others(o, o.H, "after "+o.name())
	case 'R':
		h := w.h[o.H]
		old := h.n
		oldBase := unsafe.SliceData(*h.p)
		np := w.a.Realloc(h.p, o.N)
		if np == nil || len(*np) != o.N {
			w.fail(o, "wrong-length", "Realloc(len %d -> %d) returned nil or a wrong length", old, o.N)
			return
		}
		w.moved = unsafe.SliceData(*np) != oldBase
		h.p = np
		if o.N < old {
			h.cut(o.N)
		}
		h.n = o.N
		if !w.same(o, o.H, true, "after Realloc") {
			return
		}
		w.others(o, o.H, "after Realloc")
		if o.N > old {
			h.probe(idx, old, o.N)
			w.others(o, o.H, "after writing into the bytes exposed by Realloc")
		}
	case 'F':
		h := w.h[o.H]
		w.h[o.H] = nil
		w.a.Free(h.p)
		w.others(o, -1, "after Free")
	}
}

func executeGiant(prog []op, miss []int) (v *viol, choices []int) {
	body := func() {
		w := &gworld{}
		cur := op{}
		defer func() {
			if e := recover(); e != nil {
				msg := fmt.Sprint(e)
				v = &viol{sig: fmt.Sprintf("pooled %s panic: %s", cur.name(), digits.ReplaceAllString(msg, "N")), desc: fmt.Sprintf("%s panicked: %s", cur.String(), msg)}
			}
		}()
		w.a = mempool.New(1024, giantF)
		for i, o := range prog {
			cur = o
			w.step(i, o)
			if w.v != nil {
				w.v.desc = fmt.Sprintf("op #%d %s: %s", i, o.String(), w.v.desc)
				v = w.v
				return
			}
		}
	}
	r := vsched.RunOnce(nil, miss, &vsched.Options{}, body)
	runtime.GC() // the gibibyte garbage of this program is reused by the next one
	return v, vsched.ChoiceInts(r.Choices)
}

// giantPrograms: first op x second op (x third op in thorough). Slot 0 is the giant handle
// (or a small one that Realloc makes giant), slot 1 a small companion.
func giantPrograms(tier string) [][][]op {
	F := giantF
	firsts := []op{{K: 'M', H: 0, N: F - 1}, {K: 'M', H: 0, N: F}, {K: 'M', H: 0, N: F + 1}, {K: 'M', H: 0, N: 1}}
	seconds := []op{{K: 'R', H: 0, N: 1}, {K: 'R', H: 0, N: F - 1}, {K: 'R', H: 0, N: F}, {K: 'R', H: 0, N: F + 1}, {K: 'R', H: 0, N: F + 2},
		{K: 'A', H: 0, N: 1}, {K: 'A', H: 0, N: 2}, {K: 'S', H: 0, N: 1}, {K: 'F', H: 0}}
	thirds := []op{{K: 'M', H: 1, N: 1}, {K: 'M', H: 1, N: 1025}, {K: 'R', H: 0, N: 1}, {K: 'R', H: 0, N: F + 1}, {K: 'A', H: 0, N: 1}, {K: 'F', H: 0}}
	if tier != "thorough" {
		seconds = []op{{K: 'R', H: 0, N: 1}, {K: 'R', H: 0, N: F}, {K: 'R', H: 0, N: F + 1}, {K: 'A', H: 0, N: 1}, {K: 'S', H: 0, N: 1}, {K: 'F', H: 0}}
		thirds = nil
	}
	var out [][][]op
	for _, f := range firsts {
		var fam [][]op
		for _, s := range seconds {
			fam = append(fam, []op{f, s})
			for _, t := range thirds {
				if s.K == 'F' && t.H == 0 {
					continue // handle 0 is gone
				}
				fam = append(fam, []op{f, s, t})
			}
			if s.K == 'F' { // is the freed giant buffer recycled?
				fam = append(fam, []op{f, s, {K: 'M', H: 0, N: 1}}, []op{f, s, {K: 'M', H: 0, N: F}})
			}
		}
		out = append(out, fam)
	}
	return out
}

func giant(tier string, sh *vkit.Shard, p *vkit.Part, deadline time.Time) {
	raised := false
	defer func() {
		if raised {
			debug.FreeOSMemory()
		}
	}()
	for _, fam := range giantPrograms(tier) {
		if !sh.Mine() {
			continue
		}
		if !raised {
			// a worker that owns one of the (four) giant work items keeps up to ~4 GiB of heap
			// resident: under the default 3 GiB soft limit the runtime returns the memory to the
			// OS after every program and faulting a gibibyte back in costs seconds
			debug.SetMemoryLimit(8 << 30)
			raised = true
		}
		for _, prog := range fam {
			if time.Now().After(deadline) {
				p.Incompletef("%s: time cap hit at %s", giantCfgName, progString(prog))
				return
			}
			stack := [][]int{nil}
			first := true
			for len(stack) > 0 {
				pre := stack[len(stack)-1]
				stack = stack[:len(stack)-1]
				t0 := time.Now()
				v, ch := executeGiant(prog, pre)
				if os.Getenv("VERIF_C20_TIMING") != "" {
					fmt.Fprintf(os.Stderr, "giant %-28s miss=%v %v\n", progString(prog), pre, time.Since(t0).Round(time.Millisecond))
				}
				for i := len(ch) - 1; i >= len(pre); i-- {
					stack = append(stack, append(append([]int(nil), ch[:i]...), 1))
				}
				if v != nil {
					p.Report(v.sig, v.desc+"  [program: "+progString(prog)+fmt.Sprintf(" pool_miss=%v on %s]", ch, giantCfgName), "seq "+giantCfgName,
						replayInput{Cfg: giantCfgName, Prog: progString(prog), Miss: ch})
				}
				p.Case(true, 1, len(prog))
				p.Count("giant (1<<30 boundary) executions", 1)
				if first {
					p.Count("giant (1<<30 boundary) programs", 1)
				}
				first = false
			}
		}
	}
}

func replayGiant(in replayInput) string {
	prog, err := parseProg(in.Prog)
	if err != nil {
		return err.Error()
	}
	// parseProg does not know the slot of a Malloc: first Malloc -> slot 0, second -> slot 1
	// unless slot 0 has been freed
	live0 := false
	for i := range prog {
		switch prog[i].K {
		case 'M':
			if !live0 {
				prog[i].H, live0 = 0, true
			} else {
				prog[i].H = 1
			}
		case 'F':
			if prog[i].H == 0 {
				live0 = false
			}
		}
	}
	if v, _ := executeGiant(prog, in.Miss); v != nil {
		return v.sig + "|" + v.desc
	}
	return ""
}

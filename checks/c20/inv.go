package main

// What Malloc trusts: the capacity of pooled buffers.
//
// Derived from the unchanged code:
//   - AlignedAllocator: Free files every buffer whose capacity is a multiple of 32 and <= 32768 in
//     the pool of the next power of two >= cap (alignedIndexes[cap]); Malloc(n <= 32768) takes a
//     buffer from the pool of the next power of two >= n and reslices it to n WITHOUT looking at
//     its capacity. Malloc's length guarantee therefore rests on an invariant of every buffer the
//     allocator hands out (Malloc, Realloc, Append, AppendString): cap is a power of two in
//     [32, 32768] or cap > 32768. A caller cannot change a capacity, so the invariant holds for
//     every live buffer in every state iff it holds for what the operations return.
//   - MemPool: Malloc and Realloc compare the pooled buffer's capacity with the request and grow it
//     (`if n < size { append(...) }`), Free pools any 0 < cap <= freeSize: no capacity invariant is
//     needed, any capacity may sit in the pool.
//   - stdAllocator: no pool.
//
// The invariant itself is not part of the statement, so breaking it is not reported as such
// (an allocator whose Free refused the odd capacities would be correct): a capacity outside the
// classes triggers a PROBE - the program is extended by Free(handle) and Malloc(n) for n in
// {class, class-1, cap+1, class/2+1} (class = next power of two >= cap) under every pool answer -
// and only a contract violation of the extended program is reported, with the extended program as
// its (concrete, replayable) witness. The probe runs once per capacity and search.
//
// Two alphabets go with it:
//   - relMallocs (extended search): after a Free, Malloc sizes derived from the capacity of the
//     buffers given back: cap, cap+1, class, class-1, class/2+1;
//   - the family grow-free-malloc (landing): M(start) [X -> len] grow(T) F M(n) with T swept over
//     the growth factors of the runtime's append relative to the capacity (c+1, 1.25c, 1.5c,
//     2c-1, 2c, 2c+1, 2.5c, 3c-1, 3c, 3c+1, 4c, 5c, 7c: the runtime doubles small slices, grows
//     big ones by a quarter and takes the exact length beyond 2x, then rounds up to ITS size
//     classes - 96, 896, 1536, 3072, 5376 ... - which lie between the allocators' classes), the
//     growing operation being Append, AppendString or Realloc, and n derived from the capacity
//     the grown buffer really has.

import (
	"fmt"
	"strings"
	"time"

	"verif/vkit"
)

const alignedMaxPooled = 32768

func classOf(n int) int {
	c := 32
	for c < n {
		c <<= 1
	}
	return c
}

func inAlignedClasses(c int) bool {
	return c > alignedMaxPooled || (c >= 32 && c&(c-1) == 0)
}

// probeSizes: Malloc sizes that would draw a buffer of capacity cp from the pool its class files it in.
func probeSizes(cp, max int) []int {
	k := classOf(cp)
	var out []int
	seen := map[int]bool{}
	for _, n := range []int{k, k - 1, cp + 1, k/2 + 1, cp} {
		if n > 0 && n <= max && !seen[n] {
			seen[n] = true
			out = append(out, n)
		}
	}
	return out
}

// anyWitness searches all pool answers of prog (from the prefix pre on) for a violation.
func anyWitness(c *acfg, prog []op, pre []int) ([]int, *viol) {
	stack := [][]int{pre}
	for len(stack) > 0 {
		p := stack[len(stack)-1]
		stack = stack[:len(stack)-1]
		r := execute(c, prog, p, true)
		if r.invalid {
			continue
		}
		if r.v != nil {
			return r.choices, r.v
		}
		for i := len(r.choices) - 1; i >= len(p); i-- {
			stack = append(stack, append(append([]int(nil), r.choices[:i]...), 1))
		}
	}
	return nil, nil
}

// classInvariant checks the capacities of the live buffers of a state of the aligned allocator
// and probes the ones outside the classes.
func (s *searcher) classInvariant(prog []op, r *runRes) {
	if s.c.Kind != "aligned" {
		return
	}
	for h, live := range r.live {
		if !live {
			continue
		}
		cp := r.caps[h]
		s.p.Count("class invariant: live aligned buffers looked at", 1)
		if inAlignedClasses(cp) || s.probed[cp] {
			continue
		}
		s.probed[cp] = true
		s.p.Count("class invariant: capacities outside the classes probed (Free + Malloc)", 1)
		hit := false
		for _, n := range probeSizes(cp, alignedMaxPooled) {
			ext := append(append(make([]op, 0, len(prog)+2), prog...), op{K: 'F', H: h}, op{K: 'M', H: h, N: n})
			if len(ext) > maxStamps {
				continue
			}
			if m, v := anyWitness(s.c, ext, r.choices); v != nil {
				hit = true
				s.p.Report(v.sig, fmt.Sprintf("%s  [the program %q left live handle %d with capacity %d, which is neither a power of two >= 32 nor above the pooling threshold; extended by Free and Malloc(%d): program: %s pool_miss=%v on %s]",
					v.desc, progString(prog), h, cp, n, progString(ext), m, s.c.Name), "seq "+s.c.Name+" class-invariant probe",
					replayInput{Cfg: s.c.Name, Prog: progString(ext), Miss: m})
				s.p.Case(true, 0, 1)
				s.p.Count("violating_executions", 1)
				break
			}
		}
		if !hit {
			s.p.Count("class invariant: capacity outside the classes without consequence in the probe", 1)
		}
	}
}

// relMallocs: Malloc sizes derived from the capacities of the (two most recently) given-back buffers.
func relMallocs(c *acfg, slot int, graveCaps []int) []op {
	abs := map[int]bool{}
	for _, s := range c.Sizes {
		abs[s] = true
	}
	ceil := relCeil(c)
	var out []op
	for i := len(graveCaps) - 1; i >= 0 && i >= len(graveCaps)-2; i-- {
		cp := graveCaps[i]
		if cp == 0 {
			continue
		}
		k := classOf(cp)
		for _, n := range []int{cp, cp + 1, k, k - 1, k/2 + 1} {
			if n > 0 && n <= ceil && !abs[n] {
				abs[n] = true
				out = append(out, op{K: 'M', H: slot, N: n, Rel: true})
			}
		}
	}
	return out
}

// ---------------------------------------------------------------------------------------------
// family grow-free-malloc

func landingStarts(c *acfg) []int {
	switch {
	case c.Kind == "aligned":
		return []int{1, 32, 64, 128, 256, 512, 1024, 2048, 4096, 8192, 16384}
	case c.Kind == "std":
		return []int{1, 32, 64, 512, 1024, 4096}
	case c.Buf == 8:
		return []int{1, 8, 16, 32, 33}
	case c.Buf == 64:
		return []int{1, 64, 65, 256}
	}
	return []int{1, 1024, 1025, 4096}
}

func growTargets(l, c int) []int {
	cand := []int{l + 5, c + 1, c + c/4, c + c/2, 2*c - 1, 2 * c, 2*c + 1, 2*c + c/2, 3*c - 1, 3 * c, 3*c + 1, 4 * c, 5 * c, 7 * c}
	var out []int
	seen := map[int]bool{}
	for _, t := range cand {
		if t > l && t > 0 && t <= 160000 && !seen[t] {
			seen[t] = true
			out = append(out, t)
		}
	}
	return out
}

// landing enumerates M(start) [X=len] grow(T) F M(n); one work item per (allocator, start).
func landing(tier string, sh *vkit.Shard, p *vkit.Part, deadline time.Time) {
	for _, c := range extConfigs(tier) {
		if strings.HasPrefix(c.Name, "aligned@32K+rel") {
			continue // same allocator as aligned+rel; the family has its own start sizes
		}
		lc := *c
		lc.Name = landingName(c)
		for _, start := range landingStarts(c) {
			if !sh.Mine() {
				continue
			}
			landingItem(&lc, start, p, deadline)
		}
	}
}

func landingName(c *acfg) string {
	name := c.Kind + " grow-free-malloc"
	if c.Kind == "pooled" {
		name = fmt.Sprintf("pooled(%d,%d) grow-free-malloc", c.Buf, c.Free)
	}
	if c.Pkg {
		name += "/pkg"
	}
	return name
}

func landingCfgByName(n string) *acfg {
	for _, c := range extConfigs("thorough") {
		if landingName(c) == n {
			lc := *c
			lc.Name = n
			return &lc
		}
	}
	return nil
}

func landingItem(c *acfg, start int, p *vkit.Part, deadline time.Time) {
	run := func(prog []op) *runRes { // every pool answer; reports a violation, returns the default-answer result
		var def *runRes
		stack := [][]int{nil}
		for len(stack) > 0 {
			pre := stack[len(stack)-1]
			stack = stack[:len(stack)-1]
			r := execute(c, prog, pre, true)
			if def == nil {
				def = r
			}
			p.Case(len(prog) >= 3, 1, 1)
			p.Count("grow-free-malloc: executions", 1)
			if r.v != nil {
				p.Report(r.v.sig, r.v.desc+"  [program: "+progString(prog)+fmt.Sprintf(" pool_miss=%v on %s]", r.choices, c.Name), "seq "+c.Name,
					replayInput{Cfg: c.Name, Prog: progString(prog), Miss: r.choices})
				p.Count("violating_executions", 1)
				continue
			}
			for i := len(r.choices) - 1; i >= len(pre); i-- {
				stack = append(stack, append(append([]int(nil), r.choices[:i]...), 1))
			}
		}
		return def
	}
	base := []op{{K: 'M', H: 0, N: start}}
	r0 := run(base)
	if r0.v != nil {
		return
	}
	cp0 := r0.caps[0]
	lens := []int{start}
	if start > 5 {
		lens = append(lens, start-5)
	}
	if start > 0 {
		lens = append(lens, 0)
	}
	for _, l := range lens {
		pre := base
		if l != start {
			pre = append(append([]op(nil), base...), op{K: 'X', H: 0, N: l})
		}
		for _, t := range growTargets(l, cp0) {
			for _, k := range []byte{'A', 'S', 'R'} {
				if time.Now().After(deadline) {
					p.Incompletef("%s: time cap hit at start=%d", c.Name, start)
					return
				}
				g := op{K: k, H: 0, N: t - l}
				if k == 'R' {
					g.N = t
				}
				grown := append(append([]op(nil), pre...), g)
				r1 := run(grown)
				if r1.v != nil || r1.invalid {
					continue
				}
				cp := r1.caps[0]
				p.Count("grow-free-malloc: growths", 1)
				if cp&(cp-1) != 0 {
					p.Count("grow-free-malloc "+c.Kind+": grown capacity is not a power of two", 1)
				}
				p.Outcome(fmt.Sprintf("%s: grow-free-malloc, %s: grown cap %s", c.Kind, g.name(), capShape(cp)))
				p.Count("grow-free-malloc: growth to "+factorClass(t, cp0)+" of cap", 1)
				freed := append(append([]op(nil), grown...), op{K: 'F', H: 0})
				for _, n := range append(probeSizes(cp, 160000), start) {
					run(append(append([]op(nil), freed...), op{K: 'M', H: 0, N: n}))
					p.Count("grow-free-malloc: programs (M [X] grow F M)", 1)
				}
			}
		}
	}
}

func factorClass(t, c int) string {
	switch {
	case c == 0:
		return "any"
	case t <= c:
		return "<=1x"
	case 4*t <= 5*c:
		return "(1x,1.25x]"
	case t < 2*c:
		return "(1.25x,2x)"
	case t == 2*c:
		return "2x"
	case t <= 3*c:
		return "(2x,3x]"
	}
	return ">3x"
}

func capShape(cp int) string {
	switch {
	case cp == 0:
		return "0"
	case cp&(cp-1) == 0:
		return "power of two"
	case cp%32 == 0:
		return "multiple of 32, not a power of two"
	}
	return "not a multiple of 32"
}

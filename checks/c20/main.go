// C20: allocator contracts (mempool.New / NewAligned / NewSTD) — explicit-state breadth-first
// search over operation programs against a plain-[]byte reference model, plus a two-thread
// scheduled variant.
//
// Deviations from the plan in DESIGN.md §4 (C20), in its spirit:
//   - every program runs as thread 0 of its own controlled-scheduler execution (vsched.RunOnce),
//     so sync.Pool is the deterministic shim; the pool's answer at each Get on a non-empty pool
//     (most recently pooled object / a brand-new object) is enumerated by the search itself for
//     *every* Get of the program (no deviation bound) instead of through the explorer's D. The
//     shim offers no "oldest pooled object" answer; which object is on top is varied by the order
//     of the Free operations of the programs.
//   - the freeSize boundary of the production pool New(1024, 1<<30) costs a gibibyte per
//     operation, so it is not in the general alphabet; it has a restricted family of its own
//     (giant.go: one giant handle, sparse content probes).
//   - sizes are not only the absolute boundary sets: a second search per allocator (rel.go) adds
//     the caller's reslices and growth targets relative to the handle's current len and cap
//     (added after seeded change C20-m4, which the absolute sets missed).
//   - the pools' contents are not read through a hook: everything a pool can hold was handed to
//     the allocator by the harness, so the canonical state uses the harness' own list of
//     given-back buffers (see world.key).
package main

import (
	"encoding/json"
	"fmt"
	"os"
	"strings"
	"time"

	"verif/vkit"
	"verif/vshim/vsync"
)

func seq(tier string, sh *vkit.Shard, p *vkit.Part) {
	deadline := vkit.Deadline(tier, 75*time.Second, 17*time.Minute)
	if len(p.Samples) > 1 {
		p.Samples = p.Samples[:1] // leave room for sequential sample programs next to the scheduled ones
	}
	if os.Getenv("VERIF_C20_NOSEQ") != "" { // experiments with the concurrent scenarios only
		return
	}
	for _, c := range configs() {
		depth, split := depthFor(c, tier)
		t0 := time.Now()
		search(c, depth, split, sh, p, deadline)
		if os.Getenv("VERIF_C20_TIMING") != "" {
			p.Count("debug ms "+c.Name, int(time.Since(t0).Milliseconds()))
		}
	}
	// the extended alphabet: caller reslices + growth relative to len and cap (rel.go)
	for _, c := range extConfigs(tier) {
		depth, split := extDepthFor(c, tier)
		t0 := time.Now()
		search(c, depth, split, sh, p, deadline)
		if os.Getenv("VERIF_C20_TIMING") != "" {
			p.Count("debug ms "+c.Name, int(time.Since(t0).Milliseconds()))
		}
	}
	// growth landing between the size classes, then Free and Malloc around the class (inv.go)
	tl := time.Now()
	landing(tier, sh, p, deadline)
	if os.Getenv("VERIF_C20_TIMING") != "" {
		p.Count("debug ms grow-free-malloc", int(time.Since(tl).Milliseconds()))
	}
	t0 := time.Now()
	giant(tier, sh, p, deadline)
	if os.Getenv("VERIF_C20_TIMING") != "" {
		p.Count("debug ms giant", int(time.Since(t0).Milliseconds()))
	}
}

// depthFor: program length bound and the level at which the search is split into work items.
// The aligned allocator's alphabet is the largest (11 sizes, 32 KiB buffers): one level less.
func depthFor(c *acfg, tier string) (depth, split int) {
	if tier == "thorough" {
		switch c.Name {
		case "aligned":
			return 5, 3
		default:
			return 6, 3
		}
	}
	switch c.Name {
	case "aligned":
		return 4, 2
	case "std":
		return 6, 3
	default:
		return 5, 2
	}
}

// extDepthFor: bounds of the extended-alphabet search (rel.go).
func extDepthFor(c *acfg, tier string) (depth, split int) {
	big := strings.HasPrefix(c.Name, "aligned@32K+rel")
	if tier == "thorough" && !c.Pkg { // (the package-level surface keeps the quick bounds: a wrapper has no state to reach)
		if big {
			return 4, 2
		}
		return 5, 3
	}
	if big {
		return 3, 2
	}
	return 4, 2
}

// bounds describes the enumerated space of both tiers for the evidence file.
func bounds() map[string]interface{} {
	out := map[string]interface{}{}
	for _, tier := range []string{"quick", "thorough"} {
		m := map[string]interface{}{}
		for _, c := range configs() {
			d, s := depthFor(c, tier)
			m[c.Name] = map[string]interface{}{"max_program_length": d, "split_level": s, "sizes": c.Sizes, "append_counts": c.Ks,
				"max_live_handles": maxHandles, "pool_answers": "all (every Get on a non-empty pool: pooled object / new object)"}
		}
		for _, c := range extConfigs(tier) {
			d, s := extDepthFor(c, tier)
			rm := "any number"
			if c.RelMax > 0 {
				rm = fmt.Sprint(c.RelMax)
			}
			m[c.Name] = map[string]interface{}{"max_program_length": d, "split_level": s, "sizes": c.Sizes, "append_counts": c.Ks,
				"caller_reslices": "to 0 and to cap", "relative_target_set": relSetName(c.RelWide),
				"relative_ops_per_program": rm, "max_live_handles": maxHandles, "pool_answers": "all"}
		}
		n := 0
		for _, fam := range giantPrograms(tier) {
			n += len(fam)
		}
		m[giantCfgName] = map[string]interface{}{"programs": n, "max_program_length": 3, "pool_answers": "all"}
		sc := buildConc(tier)
		m["concurrent"] = map[string]interface{}{"scenarios": len(sc), "threads": 2, "P": sc[0].P, "D": sc[0].D, "hb_cache": !sc[0].NoCache}
		out[tier] = m
	}
	return out
}

func replay(scenario string, input json.RawMessage) string {
	var in replayInput
	if err := json.Unmarshal(input, &in); err != nil {
		return "bad replay input: " + err.Error()
	}
	if in.Cfg == giantCfgName {
		return replayGiant(in)
	}
	c := cfgByName(in.Cfg)
	if c == nil {
		return "unknown allocator configuration " + in.Cfg
	}
	prog, err := parseProg(in.Prog)
	if err != nil {
		return err.Error()
	}
	r := execute(c, prog, in.Miss, true)
	if r.v != nil {
		return r.v.sig + "|" + r.v.desc
	}
	fmt.Printf("program %q on %s with pool answers %v: no violation\n", in.Prog, in.Cfg, in.Miss)
	return ""
}

func main() {
	vsync.PoolMissDeviations = true
	vkit.Main(&vkit.Spec{
		Property: "C20", Level: "model_checking",
		Rule: "sequential: one case = one execution of a program (sequence of Malloc/Append/AppendString/Realloc/Free on <=3 simultaneously live handles, sizes from the allocator's boundary set) with one assignment of sync.Pool answers, replayed from scratch on a fresh allocator; all programs up to the depth bound are covered by breadth-first search with merging of equal (implementation, model) states; a case is non-trivial when its last operation got recycled memory, moved the buffer, or ran with >=2 live buffers. extended search (<allocator>+rel): the same on a reduced absolute alphabet plus the caller's reslices X (to length 0 and to the capacity) and Realloc/Append/AppendString targets derived from the current len l and cap c of the handle (c+1, 2l-1, 2l, 2l+1, 2c-1, 2c, 2c+1, 3c+1, l+1, c, 2c-l, 2c-l+1, 4c, 4l+1; growth only), any number per program, and Malloc sizes derived from the capacity of the buffers given back (cap, cap+1, class, class-1, class/2+1 with class = next power of two), so that buffers with len < cap reached by every route (shrinking Realloc, Malloc rounding up, Append or growing Realloc leaving spare capacity, caller reslice) are grown by factors below, at and above 2x of both len and cap. API surface as a dimension: every extended search and the grow-free-malloc family run twice, through the allocator's methods and (<name>/pkg) through the package-level functions mempool.Malloc/Realloc/Append/AppendString/Free with the exported DefaultMemPool set to the allocator for the execution. class-invariant probe (every state of the aligned allocator): a live buffer whose capacity is neither a power of two >= 32 nor above 32768 extends the program by Free + Malloc(class, class-1, cap+1, class/2+1) under every pool answer; only a contract violation of the extended program is reported. family grow-free-malloc: M(start) [X=len] grow(T) F M(n) for start over the size classes, len in {start, start-5, 0}, T in {len+5, c+1, 1.25c, 1.5c, 2c-1, 2c, 2c+1, 2.5c, 3c-1, 3c, 3c+1, 4c, 5c, 7c} of the capacity c (where the runtime's append lands between the allocators' classes), grow in {Append, AppendString, Realloc}, n derived from the grown capacity. concurrent: one scenario = allocator x pair of thread scripts x debug counters on/off, all interleavings within the preemption bound; non-trivial when both threads held a live buffer at the same time",
		Assumptions: []string{
			"sizes are >= 0; programs never use a handle after giving it to Free or after Append/Realloc returned a different handle, and never free twice (C11's subject)",
			"bytes exposed by Malloc and by Realloc beyond the old length are unspecified; the harness overwrites them at once",
			"the caller may reslice a live buffer anywhere within its capacity (nbio's own code does: (*pbuf)[0:0] after Malloc, (*pbuf)[:n], (*pbuf)[:cap(*pbuf)]); 'previous contents' of Append/Realloc are the bytes [0:len) at the time of the call; bytes a reslice exposes are unspecified and overwritten at once",
			"a panic escaping an allocator operation on such a program is a violation (signature '<allocator> <operation> panic: <text, numbers normalised>')",
			"'share memory' is judged over the whole capacity [base, base+cap) of live buffers; zero-capacity buffers share nothing",
			"capacities: the aligned allocator's Malloc trusts that a pooled buffer has the capacity of its class (Free files by the next power of two >= cap, accepting every multiple of 32), so every buffer it hands out must have a power-of-two capacity in [32, 32768] or one above 32768; this invariant is not part of the statement and is not reported by itself: it triggers a probe (Free + Malloc around the class) whose contract violation is reported. MemPool compares the pooled capacity with the request and grows it, std has no pool: no capacity invariant",
			"the package-level functions of mempool with DefaultMemPool = A must satisfy the contract of A (that is what nbhttp calls); DefaultMemPool is swapped inside one sequential execution and restored after it, the concurrent scenarios and the general search use the methods only; a finding on that surface carries 'via-package-functions' in its signature",
			"leaks are not violations (std Realloc and every allocator's Append may abandon the old array)",
			"sync.Pool is the scheduler shim: Get returns the most recently pooled object or a new one (both enumerated at every Get); it never returns an older pooled object while a newer one stays pooled",
			"production pool New(1024,1<<30): general alphabet without the 1<<30 boundary; the boundary sizes run in the restricted 'giant' family with sparse content probes",
			"concurrent variant: sequentially consistent interleavings at sync.Pool/atomic/mutex operations and between a thread's writes and checks; two threads, one Malloc-Append-Realloc-Free script each",
		},
		Build: buildConc, Seq: seq, ReplaySeq: replay,
		QuickBudget: 40 * time.Second, ThoroughBudget: 10 * time.Minute,
		MinNonTrivial: 1000,
		Extra:         map[string]interface{}{"bounds": bounds()},
	})
}

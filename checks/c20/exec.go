package main

// One execution = one allocator program (operation sequence + answers of the sync.Pool shim)
// replayed from scratch on a fresh allocator inside one controlled-scheduler execution, with
// the plain-[]byte reference model next to it and the oracle applied after the operations.

import (
	"bytes"
	"crypto/md5"
	"encoding/binary"
	"fmt"
	"regexp"
	"strconv"
	"strings"
	"unsafe"

	"github.com/lesismal/nbio/mempool"

	"verif/vsched"
)

// ---------------------------------------------------------------------------------------------
// allocator configurations

type acfg struct {
	Name  string // e.g. pooled(8,32)
	Kind  string // pooled | aligned | std  (used in signatures)
	Buf   int
	Free  int
	Sizes []int // Malloc / Realloc sizes
	Ks    []int // Append / AppendString byte counts
	// extended alphabet (rel.go): caller reslices and growth targets relative to the current
	// len and cap of the handle; RelMax bounds the relative operations per program (0: unbounded),
	// RelWide selects the wider target set of the thorough tier
	Ext     bool
	RelMax  int
	RelWide bool
	// Pkg: API surface - the operations go through the package-level functions of mempool with
	// DefaultMemPool set to the allocator, instead of through the allocator's methods
	Pkg bool
}

func (c *acfg) make() mempool.Allocator {
	var a mempool.Allocator
	switch c.Kind {
	case "pooled":
		a = mempool.New(c.Buf, c.Free)
	case "aligned":
		a = mempool.NewAligned()
	default:
		a = mempool.NewSTD()
	}
	if c.Pkg {
		// API surface "package-level functions": the exported DefaultMemPool is swapped for the
		// allocator (execute restores it) and every operation goes through mempool.Malloc /
		// Realloc / Append / AppendString / Free, which is what all of nbhttp calls
		mempool.DefaultMemPool = a
		return pkgAPI{}
	}
	return a
}

// pkgAPI drives whatever allocator mempool.DefaultMemPool is through the package-level functions.
type pkgAPI struct{}

func (pkgAPI) Malloc(size int) *[]byte                  { return mempool.Malloc(size) }
func (pkgAPI) Realloc(p *[]byte, size int) *[]byte      { return mempool.Realloc(p, size) }
func (pkgAPI) Append(p *[]byte, more ...byte) *[]byte   { return mempool.Append(p, more...) }
func (pkgAPI) AppendString(p *[]byte, s string) *[]byte { return mempool.AppendString(p, s) }
func (pkgAPI) Free(p *[]byte)                           { mempool.Free(p) }

// sigKind names the allocator in signatures; a finding on the package-level surface has a
// signature of its own (a defect of the wrappers is not a defect of the allocator).
func (c *acfg) sigKind() string {
	if c.Pkg {
		return c.Kind + " via-package-functions"
	}
	return c.Kind
}

func uniq(xs []int) []int {
	var out []int
	seen := map[int]bool{}
	for _, x := range xs {
		if x >= 0 && !seen[x] {
			seen[x] = true
			out = append(out, x)
		}
	}
	return out
}

func pooledCfg(b, f int, withFree bool) *acfg {
	sizes := []int{0, 1, b - 1, b, b + 1}
	if withFree {
		sizes = append(sizes, f-1, f, f+1)
	}
	return &acfg{Name: fmt.Sprintf("pooled(%d,%d)", b, f), Kind: "pooled", Buf: b, Free: f,
		Sizes: uniq(sizes), Ks: uniq([]int{0, 1, b - 1, b, b + 1})}
}

// configs returns the allocators explored by the sequential search. The freeSize boundary of the
// production pool (1<<30) is not part of the general alphabet (a single operation costs a
// gibibyte); it has its own restricted family (giant.go).
func configs() []*acfg {
	return []*acfg{
		pooledCfg(8, 32, true),
		pooledCfg(64, 64, true),
		pooledCfg(1024, 1<<30, false),
		{Name: "aligned", Kind: "aligned", Sizes: []int{0, 1, 31, 32, 33, 63, 64, 65, 32767, 32768, 32769}, Ks: []int{0, 1, 31, 32, 33}},
		{Name: "std", Kind: "std", Sizes: []int{0, 1, 64}, Ks: []int{0, 1, 64}},
	}
}

func cfgByName(n string) *acfg {
	for _, c := range configs() {
		if c.Name == n {
			return c
		}
	}
	for _, c := range extConfigs("thorough") {
		if c.Name == n {
			return c
		}
	}
	return landingCfgByName(n)
}

// ---------------------------------------------------------------------------------------------
// programs

const maxHandles = 3

type op struct {
	K byte // M alloc, A append, S append string, R realloc, F free, X reslice by the caller: *p = (*p)[:N]
	H int  // handle slot (for M: the slot the new buffer goes to = lowest free slot)
	N int  // size / byte count
	// Rel: the size was derived from the handle's current len/cap (rel.go); programs stay concrete
	Rel bool
}

func (o op) String() string {
	switch o.K {
	case 'M':
		return fmt.Sprintf("M%d", o.N)
	case 'A':
		return fmt.Sprintf("A%d+%d", o.H, o.N)
	case 'S':
		return fmt.Sprintf("S%d+%d", o.H, o.N)
	case 'R':
		return fmt.Sprintf("R%d=%d", o.H, o.N)
	case 'X':
		return fmt.Sprintf("X%d=%d", o.H, o.N)
	default:
		return fmt.Sprintf("F%d", o.H)
	}
}

func (o op) name() string {
	return map[byte]string{'M': "Malloc", 'A': "Append", 'S': "AppendString", 'R': "Realloc", 'F': "Free", 'X': "caller-reslice"}[o.K]
}

func progString(ops []op) string {
	s := make([]string, len(ops))
	for i, o := range ops {
		s[i] = o.String()
	}
	return strings.Join(s, " ")
}

var opRe = regexp.MustCompile(`^([MASRFX])(\d+)(?:[+=](\d+))?$`)

func parseProg(s string) ([]op, error) {
	var ops []op
	for _, f := range strings.Fields(s) {
		m := opRe.FindStringSubmatch(f)
		if m == nil {
			return nil, fmt.Errorf("bad op %q", f)
		}
		a, _ := strconv.Atoi(m[2])
		b, _ := strconv.Atoi(m[3])
		switch m[1][0] {
		case 'M':
			ops = append(ops, op{K: 'M', H: -1, N: a})
		case 'F':
			ops = append(ops, op{K: 'F', H: a})
		default:
			ops = append(ops, op{K: m[1][0], H: a, N: b})
		}
	}
	return ops, nil
}

// ---------------------------------------------------------------------------------------------
// fill patterns: every operation index ("stamp") writes bytes that differ, at every position,
// from the bytes of every other stamp and from zero (fresh memory), and neighbouring positions
// differ, so any stale, shifted or foreign data shows.

const patPeriod = 31

func pat(stamp, pos int) byte { return byte(1 + (stamp*41+pos%patPeriod)%255) }

const maxStamps = 8 // the longest program (6) plus the two operations of a class-invariant probe

var stampOf [255]int8

// patTab[g][i] = pat(g, i): the pattern of a region starting at position `from` is
// patTab[g][from%patPeriod:], which turns filling and decoding into copy / compare loops.
const patTabLen = 80 << 10

var patTab [maxStamps][]byte

var zeroTab = make([]byte, patTabLen)

func init() {
	for i := range stampOf {
		stampOf[i] = -1
	}
	for g := 0; g < maxStamps; g++ {
		stampOf[(g*41)%255] = int8(g)
		patTab[g] = make([]byte, patTabLen+patPeriod)
		for i := range patTab[g] {
			patTab[g][i] = pat(g, i)
		}
	}
}

// fill writes the pattern of stamp into b, whose first byte is at position `from`.
func fill(b []byte, stamp, from int) {
	for len(b) > 0 {
		n := copy(b, patTab[stamp][from%patPeriod:])
		b = b[n:]
		from += n
	}
}

func patBytes(stamp, from, n int) []byte {
	b := make([]byte, n)
	fill(b, stamp, from)
	return b
}

// common returns the length of the common prefix of a and b.
func common(a, b []byte) int {
	n := len(a)
	if len(b) < n {
		n = len(b)
	}
	i := 0
	for ; i+8 <= n; i += 8 {
		if binary.LittleEndian.Uint64(a[i:]) != binary.LittleEndian.Uint64(b[i:]) {
			break
		}
	}
	for i < n && a[i] == b[i] {
		i++
	}
	return i
}

// runLen is the length of the prefix of b (whose first byte is at position pos) that equals the
// table t laid out from position pos on (period aware for the pattern tables, plain for zeroTab).
func runLen(b []byte, t []byte, off int) int {
	total := 0
	for len(b) > 0 {
		src := t[off:]
		n := common(b, src)
		total += n
		if n < len(src) || n == len(b) {
			break
		}
		b = b[n:]
		off = (off + n) % patPeriod
	}
	return total
}

// ---------------------------------------------------------------------------------------------
// the world of one execution

type viol struct{ sig, desc string }

type world struct {
	c     *acfg
	a     mempool.Allocator
	live  [maxHandles]*[]byte
	ref   [maxHandles][]byte // the reference model: plain contents per live handle
	grave []*[]byte          // handles given back to the allocator (Free, or replaced by Append/Realloc), oldest first
	v     *viol
	// invalid: the program left the program space (a caller reslice beyond the capacity; can
	// only happen while a witness is being shrunk) - neither a state nor a violation
	invalid bool
	// classification of the last operation
	class  string
	reused bool // the operation obtained memory that had been given back before
	moved  bool // Append/Realloc returned a different array
}

func rng(b []byte) (lo, hi uintptr) {
	if cap(b) == 0 {
		return 0, 0
	}
	lo = uintptr(unsafe.Pointer(unsafe.SliceData(b)))
	return lo, lo + uintptr(cap(b))
}

func overlap(a, b []byte) bool {
	al, ah := rng(a)
	bl, bh := rng(b)
	return al < ah && bl < bh && al < bh && bl < ah
}

func (w *world) fail(o op, kind, format string, a ...interface{}) {
	if w.v == nil {
		w.v = &viol{sig: fmt.Sprintf("%s %s %s", w.c.sigKind(), o.name(), kind), desc: fmt.Sprintf(format, a...)}
	}
}

func firstDiff(a, b []byte) int {
	n := len(a)
	if len(b) < n {
		n = len(b)
	}
	for i := 0; i < n; i++ {
		if a[i] != b[i] {
			return i
		}
	}
	if len(a) != len(b) {
		return n
	}
	return -1
}

// checkOthers: every live handle other than slot `self` still has the length and contents of
// the reference; all live handles are pairwise disjoint over [base, base+cap).
func (w *world) checkOthers(o op, self int, when string) {
	for i, p := range w.live {
		if p == nil || i == self {
			continue
		}
		if len(*p) != len(w.ref[i]) {
			w.fail(o, "other-buffer-changed", "%s: live handle %d changed length %d -> %d", when, i, len(w.ref[i]), len(*p))
		} else if !bytes.Equal(*p, w.ref[i]) {
			d := firstDiff(*p, w.ref[i])
			w.fail(o, "other-buffer-changed", "%s: contents of live handle %d (len %d) changed at offset %d: %#x -> %#x", when, i, len(*p), d, w.ref[i][d], (*p)[d])
		}
	}
	for i, p := range w.live {
		for j := i + 1; j < maxHandles; j++ {
			q := w.live[j]
			if p != nil && q != nil && (p == q || overlap(*p, *q)) {
				w.fail(o, "live-buffers-overlap", "%s: live handles %d (len %d cap %d) and %d (len %d cap %d) share memory", when, i, len(*p), cap(*p), j, len(*q), cap(*q))
			}
		}
	}
}

// retire records that the caller gave handle p back to the allocator.
func (w *world) retire(p *[]byte) { w.grave = append(w.grave, p) }

// adopt removes the graveyard entries whose pointer or memory is live again and reports whether
// there was one (i.e. the allocator recycled something).
func (w *world) adopt(p *[]byte) bool {
	re := false
	out := w.grave[:0]
	for _, g := range w.grave {
		if g == p || overlap(*g, *p) {
			re = true
			continue
		}
		out = append(out, g)
	}
	w.grave = out
	return re
}

func capClass(b []byte) string {
	if cap(b) == len(b) {
		return "cap=len"
	}
	return "cap>len"
}

// step applies one operation to the implementation and the model. check=false skips the
// comparisons (used for the already verified prefix of a program; the bookkeeping is identical).
func (w *world) step(idx int, o op, check bool) {
	w.reused, w.moved, w.class = false, false, ""
	switch o.K {
	case 'M':
		slot := -1
		for i, p := range w.live {
			if p == nil {
				slot = i
				break
			}
		}
		p := w.a.Malloc(o.N)
		if p == nil {
			w.fail(o, "returned-nil", "Malloc(%d) returned nil", o.N)
			return
		}
		if len(*p) != o.N {
			w.fail(o, "wrong-length", "Malloc(%d) returned a buffer of length %d (cap %d)", o.N, len(*p), cap(*p))
			return
		}
		w.reused = w.adopt(p)
		w.live[slot] = p
		if check {
			w.checkOthers(o, slot, "after Malloc")
		}
		fill(*p, idx, 0)
		w.ref[slot] = append([]byte(nil), *p...)
		if check && o.N > 0 {
			w.checkOthers(o, slot, "after writing into the buffer returned by Malloc")
		}
		w.class = "Malloc " + map[bool]string{false: "fresh", true: "recycled"}[w.reused] + " " + capClass(*p)
	case 'A', 'S':
		p := w.live[o.H]
		oldLen := len(*p)
		oldBase := unsafe.SliceData(*p)
		data := patBytes(idx, oldLen, o.N)
		var np *[]byte
		if o.K == 'A' {
			np = w.a.Append(p, data...)
		} else {
			np = w.a.AppendString(p, string(data))
		}
		if np == nil {
			w.fail(o, "returned-nil", "%s returned nil", o.name())
			return
		}
		want := append(w.ref[o.H], data...)
		if len(*np) != len(want) {
			w.fail(o, "wrong-length", "%s of %d bytes to a buffer of length %d returned length %d", o.name(), o.N, oldLen, len(*np))
			return
		}
		w.moved = unsafe.SliceData(*np) != oldBase
		if np != p {
			w.retire(p)
		}
		w.reused = w.adopt(np)
		w.live[o.H] = np
		if check && !bytes.Equal(*np, want) {
			d := firstDiff(*np, want)
			part := "appended bytes wrong"
			if d < oldLen {
				part = "previous contents not preserved"
			}
			w.fail(o, "wrong-contents "+movedStr(w.moved), "%s(+%d) on length %d: %s at offset %d: want %#x got %#x", o.name(), o.N, oldLen, part, d, want[d], (*np)[d])
			return
		}
		w.ref[o.H] = want
		if check {
			w.checkOthers(o, o.H, "after "+o.name())
		}
		w.class = o.name() + " " + movedStr(w.moved) + map[bool]string{false: "", true: " recycled"}[w.reused]
	case 'R':
		p := w.live[o.H]
		oldLen := len(*p)
		oldBase := unsafe.SliceData(*p)
		np := w.a.Realloc(p, o.N)
		if np == nil {
			w.fail(o, "returned-nil", "Realloc returned nil")
			return
		}
		if len(*np) != o.N {
			w.fail(o, "wrong-length", "Realloc(len %d -> %d) returned length %d", oldLen, o.N, len(*np))
			return
		}
		w.moved = unsafe.SliceData(*np) != oldBase
		if np != p {
			w.retire(p)
		}
		w.reused = w.adopt(np)
		w.live[o.H] = np
		keep := oldLen
		if o.N < keep {
			keep = o.N
		}
		if check && !bytes.Equal((*np)[:keep], w.ref[o.H][:keep]) {
			d := firstDiff((*np)[:keep], w.ref[o.H][:keep])
			w.fail(o, "wrong-contents "+movedStr(w.moved), "Realloc(len %d -> %d): previous contents not preserved at offset %d: want %#x got %#x", oldLen, o.N, d, w.ref[o.H][d], (*np)[d])
			return
		}
		ref := append([]byte(nil), w.ref[o.H][:keep]...)
		w.ref[o.H] = ref
		if check {
			w.checkOthers(o, o.H, "after Realloc")
		}
		// bytes beyond the old contents are unspecified: define them now (write the pattern)
		fill((*np)[keep:o.N], idx, keep)
		w.ref[o.H] = append(ref, (*np)[keep:o.N]...)
		if check && o.N > keep {
			w.checkOthers(o, o.H, "after writing into the bytes exposed by Realloc")
		}
		kind := "cut"
		if o.N > oldLen {
			kind = "extend"
		}
		w.class = "Realloc " + kind + " " + movedStr(w.moved) + map[bool]string{false: "", true: " recycled"}[w.reused]
	case 'X':
		// the caller reslices its buffer within the capacity, as nbio does all over the place
		// (`*pbuf = (*pbuf)[0:0]` after Malloc, `(*pbuf)[:n]`, `(*pbuf)[:cap(*pbuf)]`): no allocator
		// call, but it creates the len < cap (and len == cap > requested) states the next
		// operations start from
		p := w.live[o.H]
		oldLen := len(*p)
		if o.N > cap(*p) {
			w.invalid = true
			return
		}
		*p = (*p)[:o.N]
		if o.N <= oldLen {
			w.ref[o.H] = w.ref[o.H][:o.N:o.N]
			w.class = "caller-reslice down " + capClass(*p)
		} else {
			// the bytes exposed are unspecified: define them now
			fill((*p)[oldLen:o.N], idx, oldLen)
			w.ref[o.H] = append(w.ref[o.H][:oldLen:oldLen], (*p)[oldLen:o.N]...)
			w.class = "caller-reslice up " + capClass(*p)
		}
		if check {
			w.checkOthers(o, o.H, "after the caller resliced its buffer")
		}
	case 'F':
		p := w.live[o.H]
		w.live[o.H] = nil
		w.ref[o.H] = nil
		w.a.Free(p)
		w.retire(p)
		if check {
			w.checkOthers(o, -1, "after Free")
		}
		w.class = "Free"
	}
}

func movedStr(m bool) string {
	if m {
		return "moved"
	}
	return "in-place"
}

// ---------------------------------------------------------------------------------------------
// canonical state

// describe appends the run-length decoding of b (positions relative to the start of the array)
// into stamps; stamps are renamed in order of first appearance (ren), so that two histories
// that differ only in *when* the bytes were written get the same dump.
func describe(sb *bytes.Buffer, b []byte, ren *[8]int8, next *int8) {
	var tmp [binary.MaxVarintLen64 + 1]byte
	emit := func(tag int, n int) {
		tmp[0] = byte(tag)
		k := binary.PutUvarint(tmp[1:], uint64(n))
		sb.Write(tmp[:1+k])
	}
	i := 0
	for i < len(b) {
		j := i
		switch {
		case b[i] == 0:
			j = i + runLen(b[i:], zeroTab, 0)
			emit(100, j-i)
		default:
			v := (int(b[i]) - 1 - i%patPeriod + 255) % 255
			g := stampOf[v]
			if g < 0 {
				j = i + 1
				emit(101, int(b[i]))
				break
			}
			j = i + runLen(b[i:], patTab[g], i%patPeriod)
			if ren[g] < 0 {
				ren[g] = *next
				*next++
			}
			emit(int(ren[g]), j-i)
		}
		i = j
	}
}

// key is the canonical dump of (implementation state, model state). Implementation state that
// decides the future: per live handle len/cap/whole array contents; the memory given back to
// the allocator in the order it was given back (what the pools can hold — nothing else can be in
// a pool, because objects made by Pool.New are handed out at once), minus what has been handed
// out again; overlaps among all of these. The model state (reference contents per handle) equals
// the live contents [0:len) in every state that is kept (a state with a mismatch is a violation
// and is not expanded), so it is covered by the same dump.
func (w *world) key() [16]byte {
	var sb bytes.Buffer
	var ren [8]int8
	for i := range ren {
		ren[i] = -1
	}
	next := int8(0)
	sb.WriteString(w.c.Name)
	var all [][]byte
	for i, p := range w.live {
		if p == nil {
			sb.WriteByte('-')
			continue
		}
		fmt.Fprintf(&sb, "|L%d:%d:%d:", i, len(*p), cap(*p))
		describe(&sb, (*p)[:cap(*p)], &ren, &next)
		all = append(all, *p)
	}
	for _, g := range w.grave {
		fmt.Fprintf(&sb, "|G%d:%d:", len(*g), cap(*g))
		describe(&sb, (*g)[:cap(*g)], &ren, &next)
		all = append(all, *g)
	}
	for i := range all {
		for j := i + 1; j < len(all); j++ {
			if overlap(all[i], all[j]) {
				li, _ := rng(all[i])
				lj, _ := rng(all[j])
				fmt.Fprintf(&sb, "|X%d,%d,%d", i, j, int64(lj)-int64(li))
			}
		}
	}
	return md5.Sum(sb.Bytes())
}

// ---------------------------------------------------------------------------------------------

type runRes struct {
	v       *viol
	key     [16]byte
	choices []int
	live    [maxHandles]bool
	class   string
	reused  bool
	moved   bool
	nlive   int
	gets    int // pool answers that were a real choice (pool not empty)
	lens    [maxHandles]int
	caps    [maxHandles]int
	invalid bool
	// capacities of the buffers given back to the allocator and not handed out again, most
	// recent last (the relative Malloc sizes of the extended search are derived from them)
	graveCaps []int
}

var digits = regexp.MustCompile(`\d+`)

// execute runs prog under the pool answers `miss` (positional; missing entries = reuse) inside
// one controlled execution. checkAll applies the oracle after every operation (replay mode);
// otherwise only after the last one (its prefix was checked when the parent state was reached).
func execute(c *acfg, prog []op, miss []int, checkAll bool) *runRes {
	res := &runRes{}
	body := func() {
		w := &world{c: c}
		cur := op{}
		defer func() {
			if e := recover(); e != nil {
				msg := fmt.Sprint(e)
				res.v = &viol{sig: fmt.Sprintf("%s %s panic: %s", c.sigKind(), cur.name(), digits.ReplaceAllString(msg, "N")),
					desc: fmt.Sprintf("%s panicked: %s", cur.String(), msg)}
			}
		}()
		w.a = c.make()
		for i, o := range prog {
			cur = o
			w.step(i, o, checkAll || i == len(prog)-1)
			if w.invalid {
				res.invalid = true
				return
			}
			if w.v != nil {
				w.v.desc = fmt.Sprintf("op #%d %s: %s", i, o.String(), w.v.desc)
				res.v = w.v
				return
			}
		}
		res.class, res.reused, res.moved = w.class, w.reused, w.moved
		for i, p := range w.live {
			if p != nil {
				res.live[i] = true
				res.nlive++
				res.lens[i], res.caps[i] = len(*p), cap(*p)
			}
		}
		for _, g := range w.grave {
			res.graveCaps = append(res.graveCaps, cap(*g))
		}
		res.key = w.key()
	}
	saved := mempool.DefaultMemPool
	r := vsched.RunOnce(nil, miss, &vsched.Options{}, body)
	mempool.DefaultMemPool = saved // (the package-level surface swaps it; nothing else may see that)
	res.choices = vsched.ChoiceInts(r.Choices)
	res.gets = len(r.Choices)
	if res.v == nil && r.Panic != "" {
		res.v = &viol{sig: c.sigKind() + " panic", desc: r.Panic}
	}
	return res
}

package main

// "Including concurrent use": two threads use one allocator at the same time under the controlled
// scheduler. Each thread: Malloc, fill with its own pattern, Append, verify, Realloc, verify,
// Free. Every interleaving at the allocator's synchronisation operations (sync.Pool Get/Put,
// and with the debug counters switched on: atomics and the debugger mutex) plus at the explicit
// points between a thread's write and its verification is executed within the preemption bound;
// the sync.Pool answers (pooled object / new object) are deviations.

import (
	"bytes"
	"fmt"
	"os"
	"strings"
	"unsafe"

	"github.com/lesismal/nbio/mempool"

	"verif/vkit"
	"verif/vsched"
)

type script struct{ S, K, R int } // Malloc(S); Append(K bytes); Realloc(R); Free

func (s script) String() string { return fmt.Sprintf("M%d,A+%d,R=%d,F", s.S, s.K, s.R) }

func scripts(c *acfg) []script {
	switch c.Name {
	case "pooled(8,32)":
		return []script{{8, 1, 9}, {1, 7, 33}, {32, 1, 8}, {33, 1, 34}}
	case "pooled(64,64)":
		return []script{{64, 1, 65}, {1, 63, 65}, {65, 1, 1}, {0, 64, 128}}
	case "pooled(1024,1073741824)":
		return []script{{1024, 1, 1025}, {1, 1023, 2048}, {1025, 1, 1}}
	case "aligned":
		return []script{{32, 1, 65}, {64, 1, 32}, {1, 31, 33}, {33, 31, 32}, {32768, 1, 32770}}
	default:
		return []script{{0, 1, 64}, {64, 1, 128}, {1, 0, 0}}
	}
}

type cthread struct {
	buf    []byte // stable live buffer (nil while inside an allocator call that may move or free it)
	events []string
}

type cworld struct {
	th        [2]*cthread
	owners    map[unsafe.Pointer]int // array base -> thread that last owned it
	bothLive  int
	crossReus int
	mem       vsched.Obj
}

var concCounters map[string]int
var concOutcome string

// settle: the thread holds b as a stable live buffer: it must not overlap the other thread's.
func (w *cworld) settle(t int, b []byte, what string) {
	me, other := w.th[t], w.th[1-t]
	me.buf = b
	if other.buf != nil {
		w.bothLive++
		if overlap(b, other.buf) {
			vsched.Fail("%s|%s: the buffer of thread %d (len %d cap %d) shares memory with the live buffer of thread %d (len %d cap %d)",
				sigConc(what, "live-buffers-overlap"), what, t, len(b), cap(b), 1-t, len(other.buf), cap(other.buf))
		}
	}
	if cap(b) > 0 {
		base := unsafe.Pointer(unsafe.SliceData(b))
		if o, ok := w.owners[base]; ok && o != t {
			w.crossReus++
		}
		w.owners[base] = t
	}
}

var concKind string

func sigConc(op, kind string) string { return fmt.Sprintf("%s concurrent %s %s", concKind, op, kind) }

func verify(t int, what string, got, want []byte) bool {
	if len(got) != len(want) {
		vsched.Fail("%s|thread %d: %s: length %d, want %d", sigConc(what, "wrong-length"), t, what, len(got), len(want))
		return false
	}
	if !bytes.Equal(got, want) {
		d := firstDiff(got, want)
		vsched.Fail("%s|thread %d: %s: contents differ at offset %d: want %#x got %#x", sigConc(what, "wrong-contents"), t, what, d, want[d], got[d])
		return false
	}
	return true
}

func (w *cworld) run(a mempool.Allocator, t int, sc script) {
	me := w.th[t]
	cur := "Malloc"
	defer func() {
		// a panic inside the allocator: report it with the operation (a Goexit at the end of an
		// execution is not a panic: recover returns nil)
		if e := recover(); e != nil {
			vsched.Fail("%s|thread %d: %s panicked: %v", sigConc(cur, "panic: "+digits.ReplaceAllString(fmt.Sprint(e), "N")), t, cur, e)
		}
	}()
	ev := func(op string, moved bool, b []byte) {
		base := unsafe.Pointer(unsafe.SliceData(b))
		o, ok := w.owners[base]
		tag := "f"
		if ok && cap(b) > 0 {
			tag = map[bool]string{true: "s", false: "x"}[o == t] // recycled from self / from the other thread
		}
		if !moved {
			tag = "i"
		}
		me.events = append(me.events, op+tag)
	}
	// the checks between operations read and write plain memory; make them visible to the
	// happens-before cache as accesses to one object so that it never merges two interleavings
	// that order them differently
	touch := func(write bool) { vsched.Record(&w.mem, 7, write, uint64(t)) }

	p := a.Malloc(sc.S)
	if p == nil {
		vsched.Fail("%s|thread %d: Malloc(%d) returned nil", sigConc("Malloc", "returned-nil"), t, sc.S)
		return
	}
	if len(*p) != sc.S {
		vsched.Fail("%s|thread %d: Malloc(%d) returned length %d", sigConc("Malloc", "wrong-length"), t, sc.S, len(*p))
		return
	}
	ev("M", true, *p)
	w.settle(t, *p, "Malloc")
	for j := range *p {
		(*p)[j] = pat(t*3, j)
	}
	touch(true)
	ref := append([]byte(nil), *p...)
	vsched.Point()
	touch(false)
	if !verify(t, "Malloc", *p, ref) {
		return
	}

	data := patBytes(t*3+1, len(ref), sc.K)
	oldBase := unsafe.SliceData(*p)
	me.buf = nil
	cur = "Append"
	var np *[]byte
	if t == 0 {
		np = a.Append(p, data...)
	} else {
		np = a.AppendString(p, string(data))
	}
	ref = append(ref, data...)
	touch(false)
	if np == nil || !verify(t, "Append", *np, ref) {
		return
	}
	ev("A", unsafe.SliceData(*np) != oldBase, *np)
	w.settle(t, *np, "Append")
	vsched.Point()
	touch(false)
	if !verify(t, "Append", *np, ref) {
		return
	}

	p = np
	oldBase = unsafe.SliceData(*p)
	me.buf = nil
	cur = "Realloc"
	np = a.Realloc(p, sc.R)
	touch(false)
	if np == nil || len(*np) != sc.R {
		vsched.Fail("%s|thread %d: Realloc(%d) returned nil or a wrong length", sigConc("Realloc", "wrong-length"), t, sc.R)
		return
	}
	keep := len(ref)
	if sc.R < keep {
		keep = sc.R
	}
	if !verify(t, "Realloc", (*np)[:keep], ref[:keep]) {
		return
	}
	ev("R", unsafe.SliceData(*np) != oldBase, *np)
	w.settle(t, *np, "Realloc")
	ref = append([]byte(nil), ref[:keep]...)
	for j := keep; j < sc.R; j++ {
		(*np)[j] = pat(t*3+2, j)
		ref = append(ref, (*np)[j])
	}
	touch(true)
	vsched.Point()
	touch(false)
	if !verify(t, "Realloc", *np, ref) {
		return
	}
	me.buf = nil
	cur = "Free"
	a.Free(np)
}

func concBody(c *acfg, s0, s1 script, debug bool) func() {
	return func() {
		concKind = c.Kind
		w := &cworld{owners: map[unsafe.Pointer]int{}}
		w.th[0], w.th[1] = &cthread{}, &cthread{}
		a := c.make()
		if debug {
			a.(mempool.DebugAllocator).SetDebug(true)
		}
		vsched.GoNamed("user0", func() { w.run(a, 0, s0) })
		vsched.GoNamed("user1", func() { w.run(a, 1, s1) })
		vsched.WaitIdle()
		if debug {
			_ = a.(mempool.DebugAllocator).String()
		}
		concCounters = map[string]int{"both_live": w.bothLive, "cross_thread_recycling": w.crossReus}
		concOutcome = c.Kind + " " + strings.Join(w.th[0].events, "") + "/" + strings.Join(w.th[1].events, "")
	}
}

func concCheck(r *vsched.Result) string {
	if r.Deadlock {
		var who []string
		for _, b := range r.Blocked {
			who = append(who, fmt.Sprintf("%s(%s)", b.Name, b.Why))
		}
		return concKind + " concurrent deadlock|threads blocked at the end: " + strings.Join(who, ", ")
	}
	return ""
}

func buildConc(tier string) []*vkit.Scenario {
	var out []*vkit.Scenario
	// The happens-before cache is off: the threads' checks read plain memory, and the executions
	// are short enough to enumerate without it (cross-checked once with the cache on: same
	// outcome set).
	P, D := 3, 3
	if tier == "thorough" {
		P, D = 4, 4
	}
	noCache := true
	if e := os.Getenv("VERIF_C20_CONC"); e != "" { // experiments: "P,D,nocache(0|1)"
		var nc int
		fmt.Sscanf(e, "%d,%d,%d", &P, &D, &nc)
		noCache = nc != 0
	}
	for _, c := range configs() {
		ss := scripts(c)
		for i := range ss {
			for j := i; j < len(ss); j++ {
				for _, dbg := range []bool{false, true} {
					c, s0, s1, dbg := c, ss[i], ss[j], dbg
					out = append(out, &vkit.Scenario{
						Name: fmt.Sprintf("conc %s T0[%s] T1[%s] debug=%v", c.Name, s0, s1, dbg),
						Body: concBody(c, s0, s1, dbg), Check: concCheck, P: P, D: D, NoCache: noCache,
						Counters:   func() map[string]int { return concCounters },
						Outcome:    func() string { return concOutcome },
						NonTrivial: func(m map[string]int) bool { return m["both_live"] > 0 },
					})
				}
			}
		}
	}
	return out
}

package main

// The extended alphabet: buffers with len < cap, reached by every route the API offers, followed
// by growth relative to the buffer's current len and cap.
//
// The boundary sets of the general search are absolute sizes. Whether a growing Realloc/Append
// behaves depends on where the target lies relative to the *current* length and capacity of the
// handle (Go's append doubles below 2x and jumps above it, the allocators compare against cap,
// copy len bytes and reslice to cap), and with absolute sizes the interesting combinations
// (len < cap, target in (cap, 2cap], target > 2cap ...) exist only by coincidence - for NewSTD
// {0,1,64} had none whose result was not absorbed by the runtime's size-class rounding.
//
// Routes to len < cap (all part of the alphabet of the extended search):
//   - a shrinking Realloc (absolute sizes below the length);
//   - Malloc rounding up (pooled: bufSize, recycled buffers; aligned: the power-of-two class);
//   - an Append that left spare capacity (the runtime's growth, the aligned allocator's class);
//   - a reslice by the caller, operation X: `*p = (*p)[:0]` (what nbio does after Malloc in
//     response.go, conn.go readAll, upgrader.go, writev: the COMMON state of a buffer), and
//     `*p = (*p)[:cap(*p)]` (engine.go, body.go), which makes len == cap > requested size.
//
// Relative targets T for a handle with length l and capacity c (relTargets): the growth factors
// below, at and above 2x of both: c+1, 2l-1, 2l, 2l+1, 2c-1, 2c, 2c+1, 3c+1, and l+1, c, 2c-l,
// 2c-l+1, 4c, 4l+1 (both tiers use the whole set; the narrow variant is kept for experiments),
// used as Realloc(T) and as Append/AppendString of T-l bytes, any number of them per program,
// up to relCeil. Only targets that grow the buffer and that the absolute alphabet does not
// contain are added. Programs stay concrete (the derived number is written into the operation),
// so replay and shrinking work as before. The tiers differ in depth: 4 (quick) / 5 (thorough);
// the aligned allocator's 32 KiB boundary 3 / 4.

import "fmt"

// relCeil bounds derived sizes (keeps buffers near the allocator's own boundary sizes).
func relCeil(c *acfg) int {
	m := 0
	for _, s := range c.Sizes {
		if s > m {
			m = s
		}
	}
	return 4*m + 64
}

func relTargets(l, c int, wide bool) []int {
	t := []int{c + 1, 2*l - 1, 2 * l, 2*l + 1, 2*c - 1, 2 * c, 2*c + 1, 3*c + 1}
	if wide {
		t = append(t, l+1, c, 2*c-l, 2*c-l+1, 4*c, 4*l+1)
	}
	return t
}

func relSetName(wide bool) string {
	if wide {
		return "Realloc(T), Append/AppendString(T-l) for T in {c+1, 2l-1, 2l, 2l+1, 2c-1, 2c, 2c+1, 3c+1, l+1, c, 2c-l, 2c-l+1, 4c, 4l+1}, T > l"
	}
	return "Realloc(T), Append(T-l) for T in {c+1, 2l-1, 2l, 2l+1, 2c-1, 2c, 2c+1, 3c+1}, T > l; AppendString(T-l) for T in {c+1, 2c+1}"
}

// resliceOps: the caller reslices handle h (length l, capacity cp) to nothing and to its capacity.
func resliceOps(h, l, cp int) []op {
	var out []op
	if l > 0 {
		out = append(out, op{K: 'X', H: h, N: 0})
	}
	if l < cp {
		out = append(out, op{K: 'X', H: h, N: cp})
	}
	return out
}

// relOps returns the relative growth operations for live handle h (length l, capacity cp).
func relOps(c *acfg, h, l, cp int) []op {
	var out []op
	absSize := map[int]bool{}
	for _, s := range c.Sizes {
		absSize[s] = true
	}
	absK := map[int]bool{}
	for _, k := range c.Ks {
		absK[k] = true
	}
	ceil := relCeil(c)
	seen := map[int]bool{}
	for _, t := range relTargets(l, cp, c.RelWide) {
		if t <= l || t > ceil || seen[t] {
			continue // growth only
		}
		seen[t] = true
		if !absSize[t] {
			out = append(out, op{K: 'R', H: h, N: t, Rel: true})
		}
		if k := t - l; !absK[k] {
			out = append(out, op{K: 'A', H: h, N: k, Rel: true})
			if c.RelWide || t == cp+1 || t == 2*cp+1 {
				out = append(out, op{K: 'S', H: h, N: k, Rel: true})
			}
		}
	}
	return out
}

// growthClass classifies a growing operation by the state of the handle it starts from and by
// the growth factor (coverage counters; "" = not a growth beyond the capacity).
func growthClass(o op, l, c int) string {
	t := 0
	switch o.K {
	case 'R':
		t = o.N
	case 'A', 'S':
		t = l + o.N
	default:
		return ""
	}
	if t <= c {
		return ""
	}
	from := "len==cap"
	if l < c {
		from = "0<len<cap"
		if l == 0 {
			from = "len=0<cap"
		}
	}
	f := "target<=2cap"
	if t > 2*c {
		f = "target>2cap"
	}
	g := "target<=2len"
	if t > 2*l {
		g = "target>2len"
	}
	return fmt.Sprintf("%s beyond cap from %s, %s, %s", o.name(), from, f, g)
}

// extConfigs: the allocators of the extended search. The absolute alphabets are reduced to the
// values on both sides of each boundary (the full sets run in the general search).
func extConfigs(tier string) []*acfg {
	wide := true // (the narrow set saves nothing worth having: measured 2.4 s -> 4 s CPU per allocator)
	relMax := 0
	mk := func(name, kind string, b, f int, sizes, ks []int) *acfg {
		return &acfg{Name: name + "+rel", Kind: kind, Buf: b, Free: f, Sizes: uniq(sizes), Ks: uniq(ks), Ext: true, RelMax: relMax, RelWide: wide}
	}
	base := []*acfg{
		mk("pooled(8,32)", "pooled", 8, 32, []int{0, 1, 8, 9, 32, 33}, []int{1, 9}),
		mk("pooled(64,64)", "pooled", 64, 64, []int{0, 1, 64, 65}, []int{1, 65}),
		mk("pooled(1024,1073741824)", "pooled", 1024, 1<<30, []int{0, 1, 1024, 1025}, []int{1, 1025}),
		// the aligned allocator's 32 KiB boundary makes every operation cost a 32-128 KiB fill and
		// dump: the small classes and the boundary run as two searches with different depth bounds
		mk("aligned", "aligned", 0, 0, []int{0, 1, 32, 33, 100}, []int{1, 33}),
		mk("aligned@32K", "aligned", 0, 0, []int{0, 1, 100, 32768, 32769}, []int{1, 33}),
		mk("std", "std", 0, 0, []int{0, 1, 10, 64, 100}, []int{1, 64}),
	}
	// API surface as a dimension: every search of this list also runs through the package-level
	// functions (mempool.Malloc / Realloc / Append / AppendString / Free) with DefaultMemPool set
	// to the allocator (acfg.Pkg)
	out := append([]*acfg(nil), base...)
	for _, c := range base {
		pc := *c
		pc.Pkg = true
		pc.Name = c.Name + "/pkg"
		out = append(out, &pc)
	}
	return out
}

package main

// Explicit-state breadth-first search over allocator programs.
//
// A state is the history (operations + pool answers) that reaches it; a successor is computed by
// replaying history+operation from scratch on a fresh allocator inside one controlled execution
// (execute). States are merged on the canonical dump world.key(). The answers of sync.Pool.Get
// ("most recently pooled object" / "a new object") are an enumeration dimension of their own:
// whenever an operation reaches a Get on a non-empty pool both answers become successors, for
// every Get of the program (no deviation bound).
//
// Sharding: levels 0..split are computed by every worker identically (accounted once, by the
// worker that owns the item "prefix levels of <config>"); each state of level `split` is a work
// item whose subtree is searched by the worker that owns it, merging against the shared levels
// and against everything that worker has seen for the configuration.

import (
	"fmt"
	"time"

	"verif/vkit"
)

type state struct {
	prog []op
	miss []int
	live [maxHandles]bool
	lens [maxHandles]int // len/cap of the live handles (the relative alphabet derives sizes from them)
	caps [maxHandles]int
	// route: how the handle came to have len < cap (0: len == cap): 'M' Malloc rounded up, 'A'
	// Append left spare capacity, 'R' shrinking Realloc, 'G' growing Realloc rounded up, 'X' caller reslice
	route [maxHandles]byte
	// capacities of the buffers given back and not handed out again, most recent last
	graveCaps []int
}

var routeName = map[byte]string{'M': "Malloc rounded up", 'A': "Append left spare capacity", 'R': "shrinking Realloc", 'G': "growing Realloc left spare capacity", 'X': "caller reslice"}

// nextRoute: the route entry of the handle operation o worked on.
func nextRoute(st *state, o op, lens, caps [maxHandles]int) [maxHandles]byte {
	rt := st.route
	h := o.H
	switch {
	case o.K == 'F' || lens[h] == caps[h]:
		rt[h] = 0
	case o.K == 'M':
		rt[h] = 'M'
	case o.K == 'A' || o.K == 'S':
		if o.N > 0 || rt[h] == 0 {
			rt[h] = 'A'
		}
	case o.K == 'X':
		rt[h] = 'X'
	case o.K == 'R' && o.N < st.lens[h]:
		rt[h] = 'R'
	case o.K == 'R' && o.N > st.caps[h]:
		rt[h] = 'G'
	case o.K == 'R' && rt[h] == 0:
		rt[h] = 'R'
	}
	return rt
}

func relUsed(prog []op) int {
	n := 0
	for _, o := range prog {
		if o.Rel {
			n++
		}
	}
	return n
}

func succOps(c *acfg, st *state) []op {
	var out []op
	free := -1
	for i, l := range st.live {
		if !l {
			free = i
			break
		}
	}
	if free >= 0 {
		for _, s := range c.Sizes {
			out = append(out, op{K: 'M', H: free, N: s})
		}
		if c.Ext {
			out = append(out, relMallocs(c, free, st.graveCaps)...)
		}
	}
	for h, l := range st.live {
		if !l {
			continue
		}
		if c.Ext {
			// first, so that where a reslice and a Realloc lead to the same state the reslice is
			// the representative history (route counters)
			out = append(out, resliceOps(h, st.lens[h], st.caps[h])...)
		}
		for _, k := range c.Ks {
			out = append(out, op{K: 'A', H: h, N: k})
		}
		for _, k := range c.Ks {
			out = append(out, op{K: 'S', H: h, N: k})
		}
		for _, s := range c.Sizes {
			out = append(out, op{K: 'R', H: h, N: s})
		}
		out = append(out, op{K: 'F', H: h})
		if c.Ext && (c.RelMax == 0 || relUsed(st.prog) < c.RelMax) {
			out = append(out, relOps(c, h, st.lens[h], st.caps[h])...)
		}
	}
	return out
}

type replayInput struct {
	Cfg  string `json:"cfg"`
	Prog string `json:"prog"`
	Miss []int  `json:"pool_miss"`
}

type searcher struct {
	c        *acfg
	p        *vkit.Part
	deadline time.Time
	stopped  bool
	reported map[string]bool
	probed   map[int]bool       // capacities the class-invariant probe has been run for
	shared   map[[16]byte]uint8 // levels 0..split
	mine     map[[16]byte]uint8 // seen by this worker below the split
}

// expand computes all successors of st; new states are appended to next. account=false computes
// without touching the evidence counters (shared prefix levels on non-owning workers).
func (s *searcher) expand(st *state, depth int, account bool, seen map[[16]byte]uint8, next *[]*state) {
	c, p := s.c, s.p
	for _, o := range succOps(c, st) {
		if time.Now().After(s.deadline) {
			s.stopped = true
			return
		}
		prog := append(append(make([]op, 0, len(st.prog)+1), st.prog...), o)
		stack := [][]int{st.miss}
		first := true
		for len(stack) > 0 {
			pre := stack[len(stack)-1]
			stack = stack[:len(stack)-1]
			r := execute(c, prog, pre, false)
			if r.invalid {
				p.Errorf("HARNESS: %s %s left the program space", c.Name, progString(prog))
				continue
			}
			if c.Ext && c.RelMax > 0 {
				// what may follow depends on the relative operations already spent
				r.key[15] ^= byte(relUsed(prog) * 37)
			}
			if len(r.choices) < len(pre) {
				p.Errorf("NONDETERMINISM: %s %s made %d pool choices, replayed prefix has %d", c.Name, progString(prog), len(r.choices), len(pre))
				continue
			}
			for i := len(r.choices) - 1; i >= len(pre); i-- {
				alt := append(append(make([]int, 0, i+1), r.choices[:i]...), 1)
				stack = append(stack, alt)
			}
			if r.v != nil {
				if account {
					rp, rm, rd := prog, r.choices, r.v.desc
					if !s.reported[r.v.sig] {
						// first witness of this signature in this worker: shrink it
						s.reported[r.v.sig] = true
						rp, rm, rd = minimize(c, prog, r.choices, r.v)
					}
					p.Report(r.v.sig, rd+"  [program: "+progString(rp)+fmt.Sprintf(" pool_miss=%v on %s]", rm, c.Name), "seq "+c.Name,
						replayInput{Cfg: c.Name, Prog: progString(rp), Miss: rm})
					p.Case(true, 0, 1)
					p.Count("violating_executions", 1)
				}
				first = false
				continue
			}
			if account {
				s.classInvariant(prog, r)
			}
			isNew := false
			if _, ok := s.shared[r.key]; !ok {
				// merge only with a state that was (or will be) expanded from the same or a
				// smaller depth: the search is depth-bounded, so a state first met deep in one
				// subtree must be expanded again when another subtree reaches it earlier
				if d0, ok := seen[r.key]; !ok || uint8(depth) < d0 {
					seen[r.key] = uint8(depth)
					isNew = !ok
					*next = append(*next, &state{prog: prog, miss: r.choices, live: r.live, lens: r.lens, caps: r.caps, route: nextRoute(st, o, r.lens, r.caps), graveCaps: r.graveCaps})
				}
			}
			if account {
				nt := r.reused || r.moved || r.nlive >= 2
				ns := 0
				if isNew {
					ns = 1
					p.Count(fmt.Sprintf("states %s depth=%d", c.Name, depth), 1)
				}
				p.Case(nt, ns, 1)
				p.Count("ops_executed_incl_replayed_prefix", len(prog))
				p.Count("transitions "+c.Name, 1)
				if first {
					p.Count("programs (distinct operation sequences run)", 1)
				}
				if len(r.choices) > 0 {
					p.Count("executions with >=1 real pool choice", 1)
				}
				for _, b := range r.choices[len(st.miss):] {
					if b == 1 {
						p.Count("pool answer 'new object although one is pooled' taken by the last op", 1)
					}
				}
				if r.reused {
					p.Count("last op got recycled memory", 1)
				}
				if r.moved {
					p.Count("last op moved the buffer", 1)
				}
				if r.nlive >= 2 {
					p.Count("executions ending with >=2 live buffers", 1)
				}
				p.Outcome(c.Kind + ": " + r.class)
				if o.K != 'M' && o.K != 'F' {
					if g := growthClass(o, st.lens[o.H], st.caps[o.H]); g != "" {
						p.Count("growth "+map[bool]string{false: "general", true: "extended"}[c.Ext]+" "+c.Kind+": "+g, 1)
						if st.route[o.H] != 0 {
							p.Count(fmt.Sprintf("growth beyond cap of a len<cap buffer, %s: %s after %s", c.Kind, o.name(), routeName[st.route[o.H]]), 1)
						}
					}
				}
				if r.reused && r.moved {
					p.Sample(map[string]interface{}{"allocator": c.Name, "program": progString(prog), "pool_miss": r.choices, "last_op": r.class})
				}
			}
			first = false
		}
	}
}

func (s *searcher) level(front []*state, depth int, account bool, seen map[[16]byte]uint8) []*state {
	var next []*state
	for _, st := range front {
		s.expand(st, depth, account, seen, &next)
		if s.stopped {
			break
		}
	}
	return next
}

// search runs the BFS for one configuration up to maxDepth operations.
func search(c *acfg, maxDepth, split int, sh *vkit.Shard, p *vkit.Part, deadline time.Time) {
	s := &searcher{c: c, p: p, deadline: deadline, shared: map[[16]byte]uint8{}, mine: map[[16]byte]uint8{}, reported: map[string]bool{}, probed: map[int]bool{}}
	owner := sh.Mine()
	root := &state{}
	r := execute(c, nil, nil, false)
	s.shared[r.key] = 0
	if owner {
		p.Case(false, 1, 0)
	}
	front := []*state{root}
	d := 0
	for ; d < split && d < maxDepth; d++ {
		seen := map[[16]byte]uint8{}
		front = s.level(front, d+1, owner, seen)
		for k, v := range seen {
			s.shared[k] = v
		}
		if s.stopped {
			if owner {
				p.Incompletef("%s: time cap hit in shared level %d", c.Name, d+1)
			}
			return
		}
	}
	if d >= maxDepth {
		return
	}
	for i, st := range front {
		if !sh.Mine() {
			continue
		}
		sub := []*state{st}
		for dd := d; dd < maxDepth; dd++ {
			sub = s.level(sub, dd+1, true, s.mine)
			if s.stopped {
				p.Incompletef("%s: time cap hit below frontier state %d (%s) at depth %d", c.Name, i, progString(st.prog), dd+1)
				return
			}
		}
	}
}

// Programs name handles by slot; for shrinking they are rewritten so that every operation
// names the Malloc (by ordinal) that created its handle, which survives the removal of other
// operations.
type aop struct {
	K   byte
	Ord int
	N   int
}

func toAbstract(prog []op) []aop {
	var slotOrd [maxHandles]int
	var live [maxHandles]bool
	n := 0
	out := make([]aop, 0, len(prog))
	for _, o := range prog {
		if o.K == 'M' {
			for i, l := range live {
				if !l {
					live[i], slotOrd[i] = true, n
					break
				}
			}
			out = append(out, aop{'M', n, o.N})
			n++
			continue
		}
		out = append(out, aop{o.K, slotOrd[o.H], o.N})
		if o.K == 'F' {
			live[o.H] = false
		}
	}
	return out
}

// fromAbstract re-derives the slots; ok=false when the program leaves the program space.
func fromAbstract(ap []aop) (prog []op, ok bool) {
	var slotOrd [maxHandles]int
	var live [maxHandles]bool
	find := func(ord int) int {
		for i, l := range live {
			if l && slotOrd[i] == ord {
				return i
			}
		}
		return -1
	}
	for _, a := range ap {
		if a.K == 'M' {
			slot := -1
			for i, l := range live {
				if !l {
					slot = i
					break
				}
			}
			if slot < 0 {
				return nil, false
			}
			live[slot], slotOrd[slot] = true, a.Ord
			prog = append(prog, op{K: 'M', H: slot, N: a.N})
			continue
		}
		h := find(a.Ord)
		if h < 0 {
			return nil, false
		}
		prog = append(prog, op{K: a.K, H: h, N: a.N})
		if a.K == 'F' {
			live[h] = false
		}
	}
	return prog, true
}

// witness searches all pool answers of prog for a violation with the signature sig.
func witness(c *acfg, prog []op, sig string) ([]int, *viol) {
	stack := [][]int{nil}
	for len(stack) > 0 {
		pre := stack[len(stack)-1]
		stack = stack[:len(stack)-1]
		r := execute(c, prog, pre, true)
		if r.invalid {
			return nil, nil
		}
		if r.v != nil && r.v.sig == sig {
			return r.choices, r.v
		}
		for i := len(r.choices) - 1; i >= len(pre); i-- {
			stack = append(stack, append(append([]int(nil), r.choices[:i]...), 1))
		}
	}
	return nil, nil
}

// minimize removes operations (a Malloc together with everything done to its handle) one at a
// time as long as some assignment of pool answers still produces the same signature (delta
// removal; the result is 1-minimal).
func minimize(c *acfg, prog []op, miss []int, v *viol) ([]op, []int, string) {
	desc := v.desc
	for again := true; again; {
		again = false
		ap := toAbstract(prog)
		last := ap[len(ap)-1]
		for i := 0; i < len(ap)-1; i++ { // the last (violating) operation stays
			if ap[i].K == 'M' && ap[i].Ord == last.Ord {
				continue
			}
			var cand []aop
			for j, a := range ap {
				if j == i || (ap[i].K == 'M' && a.Ord == ap[i].Ord) {
					continue
				}
				cand = append(cand, a)
			}
			cp, ok := fromAbstract(cand)
			if !ok {
				continue
			}
			if m, w := witness(c, cp, v.sig); w != nil {
				prog, miss, desc = cp, m, w.desc
				again = true
				break
			}
		}
	}
	return prog, miss, desc
}

// C04: flush liveness. Real engine on the simulated kernel; a write larger than the socket's
// room is issued from one of several origins (inside OnOpen i.e. before EPOLL_CTL_ADD, inside
// OnData on the poller thread, from another thread after or racing with AddConn, a Sendfile
// behind a backlog) while the peer is not reading. Then the peer drains fairly (reads
// everything whenever anything is queued, and the system runs to quiescence in between).
// Liveness is decided as terminal-state safety: a quiescent state with the connection open, a
// non-empty write queue and an empty socket is a lost wake-up.
package main

import (
	"fmt"
	"strings"
	"time"

	"github.com/lesismal/nbio"

	"verif/ekit"
	"verif/track"
	"verif/vkit"
	"verif/vsched"
	"verif/vshim/vsys"
)

type cfg struct {
	mode ekit.Mode
	unix bool
	k    int
	// reader: the peer also reads from a thread of its own, whenever there is something to read
	// (so that room is made - and a writability event raised - while a writer is still inside its
	// call), not only when the system is idle
	reader bool
	deep   int    // origin "deep": number of queue entries behind the first remainder
	origin string // onopen | ondata | after | race | sendfile | two | rw | ondial | again | ondata-again | dial-again | dial-then
	p, d   int
}

func (c cfg) dial() bool {
	return c.origin == "ondial" || c.origin == "dial-again" || c.origin == "dial-then" || c.origin == "ondial-sendfile" || c.immediate()
}

// immediate: the connect of the asynchronous dial completes at once (what a unix-domain dial
// does): the callback runs later from the engine's async queue, the socket is registered already.
func (c cfg) immediate() bool {
	return c.origin == "dial-immediate" || c.origin == "dial-immediate-then"
}

func (c cfg) name() string {
	t := "tcp"
	if c.unix {
		t = "unix"
	}
	if c.reader {
		return fmt.Sprintf("%s %s K=%d origin=%s peer=reading", t, c.mode, c.k, c.origin)
	}
	return fmt.Sprintf("%s %s K=%d origin=%s", t, c.mode, c.k, c.origin)
}

var lastCounters map[string]int
var lastOutcome string

func body(c cfg) func() {
	return func() {
		vsys.Configure(true, false) // EINTR is not a "full buffer" answer (and Linux does not interrupt non-blocking socket writes)
		tr := track.New(track.Exact)
		conf := nbio.Config{Name: "c04", NPoller: 1, ReadBufferSize: 16, BodyAllocator: tr}
		c.mode.Apply(&conf)
		g := nbio.NewEngine(conf)
		conn, peer := ekit.Stream(c.unix, c.k, 64)
		if c.dial() {
			conn, peer = nil, nil // the connection comes from DialAsync
			vsys.DialSndCap = c.k
		}
		var accepted []ekit.Block
		var errs []string
		nid := 0
		write := func(n int) {
			nid++
			data := ekit.Payload(nid, n)
			m, err := conn.Write(data)
			if err != nil || m != n {
				errs = append(errs, fmt.Sprintf("Write(%d) = %d, %v", n, m, err))
				return
			}
			b := ekit.Block{ID: fmt.Sprint(nid), Data: data}
			for _, o := range accepted {
				b.After = append(b.After, o.ID)
			}
			accepted = append(accepted, b)
		}
		sendfile := func(n int) {
			nid++
			f := ekit.OpenDataFile(nid, n, 0)
			m, err := conn.Sendfile(f, 0)
			if err != nil || m != int64(n) {
				errs = append(errs, fmt.Sprintf("Sendfile(%d) = %d, %v", n, m, err))
				return
			}
			b := ekit.Block{ID: fmt.Sprint(nid), Data: ekit.Payload(nid, n)}
			for _, o := range accepted {
				b.After = append(b.After, o.ID)
			}
			accepted = append(accepted, b)
		}
		closed := false
		var closeErr error
		g.OnClose(func(_ *nbio.Conn, err error) { closed = true; closeErr = err })
		if c.origin == "onopen" {
			g.OnOpen(func(cc *nbio.Conn) { write(c.k + 3) })
		}
		if c.origin == "onopen-sendfile" {
			g.OnOpen(func(cc *nbio.Conn) { sendfile(c.k + 3) })
		}
		if c.origin == "race" {
			// a goroutine that learns about the connection in OnOpen and writes concurrently with
			// the rest of the registration
			g.OnOpen(func(cc *nbio.Conn) { vsched.GoNamed("writer", func() { write(c.k + 3) }) })
		}
		if c.origin == "ondata" || c.origin == "ondata-again" {
			g.OnData(func(cc *nbio.Conn, data []byte) { write(c.k + 3) })
		}
		inbound := 0
		if c.origin == "rw" {
			g.OnData(func(cc *nbio.Conn, data []byte) { inbound += len(data) })
		}
		if err := g.Start(); err != nil {
			vsched.Fail("harness|engine start: %v", err)
			return
		}
		switch {
		case c.dial():
			if c.immediate() {
				vsys.SetDialPlan(vsys.DialPlan{Immediate: true})
			}
			// the write is issued inside the dial callback (the fd is registered read+write then)
			err := g.DialAsync("tcp", "127.0.0.1:80", func(cc *nbio.Conn, err error) {
				if err != nil {
					errs = append(errs, fmt.Sprintf("dial failed: %v", err))
					return
				}
				conn = cc
				switch c.origin {
				case "dial-then", "dial-immediate-then":
				case "ondial-sendfile":
					sendfile(c.k + 3) // the backlog consists of a file range only
				default:
					write(c.k + 3)
				}
			})
			if err != nil {
				vsched.Fail("harness|DialAsync: %v", err)
				return
			}
			ds := vsys.Dials()
			if len(ds) != 1 {
				vsched.Fail("harness|no pending dial")
				return
			}
			if c.immediate() {
				peer = ds[0].Peer()
			} else {
				peer = ds[0].Accept()
			}
			vsched.WaitIdle()
			if conn == nil {
				vsched.Fail("harness|dial callback did not run")
				return
			}
		default:
			if _, err := g.AddConn(conn); err != nil {
				vsched.Fail("harness|AddConn: %v", err)
				return
			}
			switch c.origin {
			case "after":
				vsched.GoNamed("writer", func() { write(c.k + 3) })
			case "after-sendfile", "again-sendfile":
				vsched.GoNamed("writer", func() { sendfile(c.k + 3) })
			case "two":
				vsched.GoNamed("writer", func() { write(c.k + 1); write(c.k + 2) })
			case "sendfile":
				vsched.GoNamed("writer", func() { write(c.k + 1); sendfile(c.k + 2); write(2) })
			case "ondata", "ondata-again":
				vsched.GoNamed("peer-sender", func() { peer.Write([]byte{1}) })
			case "again":
				vsched.GoNamed("writer", func() { write(c.k + 3) })
			case "deep":
				// a backlog of many small entries (file ranges and buffers alternate, so that
				// nothing is merged), all of which fit into the socket at once when the peer
				// has drained it: one flush pass has to empty the queue or leave the
				// registration such that another event follows
				vsched.GoNamed("writer", func() {
					write(c.k + 1)
					for i := 0; i < c.deep; i++ {
						if i%2 == 0 {
							sendfile(1)
						} else {
							write(1)
						}
					}
				})
			case "rw":
				// inbound traffic is being handled while another thread creates a backlog
				vsched.GoNamed("peer-sender", func() { peer.Write([]byte{1}); peer.Write([]byte{2}) })
				vsched.GoNamed("writer", func() { write(c.k + 3) })
			}
		}
		if c.reader && peer != nil {
			pr := peer
			vsched.GoNamed("peer-reader", func() {
				vsched.SetDaemon()
				for {
					pr.WaitReadable()
					if pr.Queued() == 0 {
						return
					}
					pr.Read(0)
				}
			})
		}
		// fair drain
		rounds := 0
		drain := func() bool {
			for {
				vsched.WaitIdle()
				if peer.Queued() == 0 {
					return true
				}
				peer.Read(0)
				rounds++
				if rounds > 400 {
					vsched.Fail("harness|drain does not terminate")
					return false
				}
			}
		}
		if !drain() {
			return
		}
		// second round, from a state reached by a complete first round (the first backlog was
		// created and flushed, the registration went back to read-only): a new backlog must be
		// flushed as well
		second := true
		switch c.origin {
		case "again", "dial-again", "dial-then", "dial-immediate-then":
			vsched.GoNamed("writer", func() { write(c.k + 3) })
		case "again-sendfile":
			vsched.GoNamed("writer", func() { sendfile(c.k + 3) })
		case "ondata-again":
			vsched.GoNamed("peer-sender", func() { peer.Write([]byte{2}) })
		default:
			second = false
		}
		if second && !drain() {
			return
		}
		snap := conn.VerifSnapshot()
		st := vsys.GetStats()
		lastCounters = map[string]int{"eagain": st.Eagains, "short_writes": st.ShortWrites, "drain_rounds": rounds, "ctl_enoent": st.CtlENOENT}
		if st.Eagains > 0 || st.ShortWrites > 0 {
			lastCounters["backlog_execs"] = 1
		}
		total := 0
		for _, b := range accepted {
			total += len(b.Data)
		}
		lastOutcome = fmt.Sprintf("got=%d/%d q=%d closed=%v", len(peer.Got), total, snap.QueueLen, closed)
		if len(errs) > 0 {
			vsched.Fail("write-failed|%s", strings.Join(errs, "; "))
			return
		}
		if closed {
			vsched.Fail("unexpected-close|connection closed with %v", closeErr)
			return
		}
		if len(peer.Got) != total || snap.QueueLen != 0 {
			vsched.Fail("stall %s origin=%s|lost wake-up: the peer drained everything and the system is quiescent, but only %d of %d accepted bytes were delivered; write queue %v (counter %d), isWAdded=%v, socket room=%d, CTL_MOD on an unregistered fd seen %d times",
				c.mode, c.origin, len(peer.Got), total, snap.Queue, snap.Left, snap.IsWAdded, c.k-peer.Queued(), st.CtlENOENT)
			return
		}
		if d := ekit.MatchStream(peer.Got, accepted, true); d != "" {
			vsched.Fail("stream-mismatch|%s", d)
		}
		if c.origin == "rw" && inbound != 2 {
			lastCounters["inbound_incomplete_judged_by_C02"] = 1
		}
	}
}

func check(r *vsched.Result) string {
	for _, b := range r.Blocked {
		if b.Name == "main" || b.Name == "writer" {
			return fmt.Sprintf("stuck|thread %s blocked at the end (%s)", b.Name, b.Why)
		}
	}
	return ""
}

func build(tier string) []*vkit.Scenario {
	thorough := tier == "thorough"
	var out []*vkit.Scenario
	ks := []int{2, 3}
	if thorough {
		ks = []int{1, 2, 3, 5}
	}
	for _, m := range ekit.Modes {
		for _, unix := range []bool{false, true} {
			for _, k := range ks {
				for _, o := range []string{"onopen", "ondata", "after", "race", "two", "sendfile", "rw", "ondial", "again", "ondata-again", "dial-again", "dial-then", "ondial-sendfile", "onopen-sendfile", "after-sendfile", "again-sendfile", "dial-immediate", "dial-immediate-then"} {
					if strings.Contains(o, "dial") && unix {
						continue
					}
					p, d := 3, 2
					if thorough {
						p, d = 4, 3
					}
					for _, rd := range []bool{false, true} {
						if rd && (strings.Contains(o, "dial") || o == "onopen" || o == "onopen-sendfile" || (!thorough && (unix || k != 2))) {
							// the reader thread needs the peer before the first write
							continue
						}
						c := cfg{mode: m, unix: unix, k: k, origin: o, p: p, d: d, reader: rd}
						out = append(out, &vkit.Scenario{Name: c.name(), Body: body(c), Check: check, P: p, D: d,
							Counters: func() map[string]int { return lastCounters }, Outcome: func() string { return lastOutcome },
							NonTrivial: func(mm map[string]int) bool { return mm["backlog_execs"] > 0 }})
					}
				}
			}
		}
	}
	// deep backlogs: more queue entries than any per-pass limit a flush could have
	for _, m := range ekit.Modes {
		for _, unix := range []bool{false, true} {
			for _, kd := range [][2]int{{16, 12}, {6, 12}, {40, 33}} {
				if !thorough && (kd[0] == 40 || (unix && kd[0] == 6)) {
					continue
				}
				p, d := 1, 1
				if thorough {
					p, d = 2, 2
				}
				c := cfg{mode: m, unix: unix, k: kd[0], deep: kd[1], origin: "deep", p: p, d: d}
				out = append(out, &vkit.Scenario{Name: c.name() + fmt.Sprintf(" entries=%d", kd[1]+1), Body: body(c), Check: check, P: p, D: d,
					Counters: func() map[string]int { return lastCounters }, Outcome: func() string { return lastOutcome },
					NonTrivial: func(mm map[string]int) bool { return mm["backlog_execs"] > 0 }})
			}
		}
	}
	return out
}

func main() {
	defer ekit.CleanupFiles()
	vkit.Main(&vkit.Spec{
		Property: "C04", Level: "model_checking",
		Rule: "one scenario = transport x epoll mode x socket capacity K x origin of the write (OnOpen before registration, OnData on the poller, another thread after / racing AddConn, two writes, Sendfile behind a backlog, inside the dial callback; deep backlogs of 13 / 34 small queue entries in which file ranges and buffers alternate so that nothing is merged and all of which fit into the drained socket at once; and second rounds from non-initial states: a new backlog after the first one was flushed completely, after a dial whose callback left none, a second OnData write; and backlogs that consist of a file range only, which the byte counter does not see); every interleaving of writer, poller and the peer's reads (at idle moments, and in a second set of scenarios also from a reader thread that makes room while a writer is still inside its call) within the preemption bound and every kernel answer within the deviation bound; liveness decided on terminal states after a fair drain; non-trivial = the execution created a backlog (EAGAIN or short write)",
		Assumptions: []string{
			"simulated kernel: writability wake-ups are delivered only after the socket reported no space (TCP semantics) and as soon as at least one byte is free; every verdict is taken after the peer drained everything",
			"fair drain: the peer reads everything whenever anything is queued; no further call by the application",
			"writes inside the close callback are not part of the space (the connection is closed by then)",
		},
		UsesSimulatedKernel: true,
		Build:               build, QuickBudget: 40 * time.Second, ThoroughBudget: 10 * time.Minute, MinNonTrivial: 30,
	})
}

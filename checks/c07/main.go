// C07: HTTP parsing agrees with Go's net/http on well-formed messages.
//
// Differential bounded-exhaustive enumeration: every message of a well-formed RFC 7230 grammar
// (widened in the value dimension: header values over visible ASCII with internal spaces, commas,
// colons, OWS; repeated and mixed-case names; Connection token lists; Content-Length and
// chunk-size spellings; chunk extensions; declared trailers with spaces / empty values /
// repeats) and all ordered pairs and triples of a base set as pipelines is parsed by
// http.ReadRequest / http.ReadResponse (the reference; body read to EOF so trailers are
// populated, consumed bytes measured) and by the real nbhttp.Parser + ServerProcessor /
// ClientProcessor (fed in one piece and byte-at-a-time). Compared per message: method,
// RequestURI, URL path + query, proto, Host, header multimap (minus the framing headers Go
// removes, values modulo optional whitespace), body bytes, trailer multimap, close decision /
// status code (+ single-word reason), and the message boundary offset.
//
// Deviations from DESIGN section 4 (C07): the quick tier is already the full product of the
// request grammar with three methods and three targets (the design estimated 3 000 messages; the
// product is cheap); thorough widens methods/targets. Messages the reference itself rejects are
// counted as "reference_rejected" and excluded (the property quantifies over forms on which both
// are documented to agree); the counter is expected to be 0.
//
// State carried from one message to the next on a connection (added after an independently
// seeded change was missed: a Trailer header on a non-chunked message that survived in the
// parser's framing-header map and was demanded from the next chunked message):
//   - header features that are legal on every framing class are generated on every framing class
//     (crossForms): a Trailer declaration on Content-Length-framed and bodiless messages (net/http
//     keeps it as a plain header), declarations spread over two Trailer lines, a declaration in
//     front of Transfer-Encoding, Transfer-Encoding and Content-Length spellings together with
//     trailers / with an empty body; Connection forms, repeated headers and empty values already
//     are a full product with every body form;
//   - pipelines: every ORDERED PAIR (quick) and every ordered triple (thorough; quick: triples of
//     the Connection-less core) of a representative set, one representative per (framing class x
//     body presence x trailer declaration {none, names A, names B-c+D; on a non-chunked message
//     declared only, on a chunked one declared and sent} x Connection form / version), every
//     representative with its own target and marker header, so that anything a predecessor leaves
//     behind shows up in a successor that differs from it;
//   - a successor that is rejected / not delivered / delivered differently although it parses
//     correctly on a fresh connection is reported with the framing features of its predecessors:
//     "pipeline-successor-rejected pred=content-length+trailer-declared succ=chunked verdict=...".
//
// Status lines (responses): every spelling net/http accepts that is inside the RFC 7230 grammar
// (empty reason-phrase with its SP, several words, a reason that starts with a digit or with
// punctuation, HTAB, surrounding spaces) on every framing class and in the pipelines. nbhttp keeps
// the first word of a reason-phrase (recorded design): the first word is compared.
//
// Configured limits: Engine.MaxHTTPBodySize is a dimension of the agreement (added after a seeded
// change that turned the admission check of BodyReader.append into ">=" was missed: only the
// default, unlimited configuration was run). Every body-carrying form (Content-Length and
// chunked, 1-3 chunks, below and above 1 KiB, without and with trailers) alone and in all
// ordered pairs / triples is run with the limit at exactly the largest body of the stream and
// at one above; the result must equal the reference and the stream's own result without a
// limit (signatures end in "max-body=exactly-the-largest-body" / "max-body=largest-body+1").
// What happens above a limit, and Engine.ReadLimit, are C08's subject.
//
// Trailer sections that disagree with their announcement (added with C06's forms for seeded
// change C06-m8): no Trailer header but 1-2 fields sent, announced but absent, announced A and
// sent B-c / A+B-c / B-c+A / part of the announced list, each without and with a chunk extension
// on the last-chunk line, on 0-2 chunks, x Connection form x every third header set x position,
// requests and responses, and in front of and behind every core representative of the
// pipelines. net/http accepts all of them; a rejection is named by how the section disagrees
// (announceShape), so that nbhttp's recorded strictness (3 open known findings) does not mask
// anything else.
//
// The per-case allocator is httpgen's lite allocator (same isolation as verif/track: fresh per
// case, no recycling, freed memory poisoned; no call-site attribution, which cost 80 % of the CPU
// time): ownership violations are C11's business and only counted here.
package main

import (
	"bufio"
	"bytes"
	"encoding/json"
	"fmt"
	"io"
	"net/http"
	"sort"
	"strconv"
	"strings"
	"time"

	"verif/seqx/httpgen"
	"verif/track"
	"verif/vkit"
)

const scenario = "c07"

type H = httpgen.Hdr

// ---------------------------------------------------------------------------------------------
// grammar

func headerSets(client bool) [][]H {
	long := strings.Repeat("abcdefghijklmnopqrstuvwxyz0123456789-._~", 5)
	sets := [][]H{
		{},
		{{"X-A", " v"}},
		{{"x-a", " v"}},
		{{"X-A", " a b"}},
		{{"X-A", " a, b"}, {"X-A", " c"}},
		{{"x-a", " 1"}, {"X-A", " 2"}, {"X-a", " 3"}},
		{{"X-Empty", ""}},
		{{"X-Empty", ""}, {"X-After", " z"}},
		{{"X-Ows", "   v  "}},
		{{"X-Tab", "\tv\t"}},
		{{"X-Punct", " !#$%&'*+-.^_`|~;=\"q\"()<>@[]\\{}?/"}},
		{{"X-Colon", " a:b:c"}},
		{{"X-Sp", " 1 2  3   4"}},
		{{"ACCEPT-ENCODING", " gzip, deflate"}, {"content-type", " text/plain; charset=utf-8"}},
		{{"X-A", "v"}},
		{{"X-1", " 1"}, {"X-2", " 2"}, {"X-3", " 3"}, {"X-4", " 4"}, {"X-5", " 5"}},
		{{"!#$%&'*+-.^_`|~", " v"}},
		{{"X-Long", " " + long}},
		{{"Cookie", " a=1; b=2"}, {"Cookie", " c=3"}},
		{{"X-Mix", " v \t "}},
	}
	if client {
		return sets
	}
	// requests: Host variants
	out := make([][]H, 0, len(sets)+2)
	for i, s := range sets {
		host := H{"Host", " h"}
		if i%5 == 3 {
			host = H{"host", " h:8080"}
		}
		if i%2 == 0 {
			out = append(out, append([]H{host}, s...))
		} else {
			out = append(out, append(append([]H{}, s...), host))
		}
	}
	out = append(out, []H{{"X-A", " v"}}) // no Host at all
	return out
}

type connForm []string // values of the Connection header lines ("" list: absent)

var connForms = []connForm{
	nil, {" close"}, {" keep-alive"}, {" Keep-Alive"}, {" close, x"}, {" x, close"}, {" CLOSE"}, {" keep-alive, close"},
	{" keep-alive", " close"}, {" x"},
}

func tr(decl string, sent ...H) func(b httpgen.Body) httpgen.Body {
	return func(b httpgen.Body) httpgen.Body { b.Declared = decl; b.Trailers = sent; return b }
}

type bodyForm struct {
	name string
	b    httpgen.Body
	// decl: Trailer header lines written among the ordinary header lines (Body.Declared stays
	// empty), which is how a declaration gets onto a non-chunked message, in front of
	// Transfer-Encoding, or onto two lines.
	decl []H
}

func bodyForms() []bodyForm {
	P := httpgen.Payload
	ch := func(sizes ...int) httpgen.Body {
		b := httpgen.Body{Kind: httpgen.BodyChunked, Chunks: [][]byte{}}
		for i, n := range sizes {
			b.Chunks = append(b.Chunks, P(n, i+1))
		}
		return b
	}
	with := func(b httpgen.Body, f func(*httpgen.Body)) httpgen.Body { f(&b); return b }
	out := []bodyForm{
		{name: "none", b: httpgen.Body{Kind: httpgen.BodyNone}},
		{name: "cl0", b: httpgen.Body{Kind: httpgen.BodyCL, Data: []byte{}}},
		{name: "cl1", b: httpgen.Body{Kind: httpgen.BodyCL, Data: P(1, 0)}},
		{name: "cl3", b: httpgen.Body{Kind: httpgen.BodyCL, Data: P(3, 0)}},
		{name: "cl300", b: httpgen.Body{Kind: httpgen.BodyCL, Data: P(300, 0)}},
		{name: "cl3-nospace", b: httpgen.Body{Kind: httpgen.BodyCL, Data: P(3, 0), CLText: "3"}},
		{name: "cl3-trailing-sp", b: httpgen.Body{Kind: httpgen.BodyCL, Data: P(3, 0), CLText: " 3  "}},
		{name: "cl3-leading-zero", b: httpgen.Body{Kind: httpgen.BodyCL, Data: P(3, 0), CLText: " 03"}},
		{name: "ch[]", b: ch()},
		{name: "ch[1]", b: ch(1)},
		{name: "ch[3]", b: ch(3)},
		{name: "ch[10,5]", b: ch(10, 5)},
		{name: "ch[16]", b: ch(16)},
		{name: "ch[255,1]", b: ch(255, 1)},
		{name: "ch[300]", b: ch(300)},
		{name: "ch[255,1]-upper", b: with(ch(255, 1), func(b *httpgen.Body) { b.SizeFmt = 1 })},
		{name: "ch[300]-upper", b: with(ch(300), func(b *httpgen.Body) { b.SizeFmt = 1 })},
		{name: "ch[10,5]-zeros", b: with(ch(10, 5), func(b *httpgen.Body) { b.SizeFmt = 2 })},
		{name: "ch[3]-ext", b: with(ch(3), func(b *httpgen.Body) { b.Ext = ";x=y" })},
		{name: "ch[3,2]-extflag", b: with(ch(3, 2), func(b *httpgen.Body) { b.Ext = ";x" })},
		{name: "ch[3]-TE-Chunked", b: with(ch(3), func(b *httpgen.Body) { b.TEText = " Chunked" })},
		{name: "ch[3]-TE-nospace", b: with(ch(3), func(b *httpgen.Body) { b.TEText = "chunked" })},
	}
	trailers := []struct {
		name string
		f    func(httpgen.Body) httpgen.Body
	}{
		{name: "t1", f: tr("A", H{"A", " 1"})},
		{name: "t2", f: tr("A, B-c", H{"A", " 1"}, H{"B-c", " 22"})},
		{name: "t-space", f: tr("A", H{"A", " hello world"})},
		{name: "t-empty", f: tr("A", H{"A", ""})},
		{name: "t-ows", f: tr("A", H{"A", "  1  "})},
		{name: "t-repeat", f: tr("A", H{"A", " 1"}, H{"A", " 2"})},
		{name: "t-lower", f: tr("a", H{"a", " 1"})},
		{name: "t-decl-nospace", f: tr("A,B-c", H{"A", " 1"}, H{"B-c", " 22"})},
		{name: "t-comma", f: tr("A", H{"A", " x,y"})},
		{name: "t-reversed", f: tr("A, B-c", H{"B-c", " 22"}, H{"A", " 1"})},
		{name: "t-tab", f: tr("A", H{"A", "\tv"})},
		{name: "t-nospace", f: tr("A", H{"A", "v"})},
		{name: "t-empty-then-value", f: tr("A, B-c", H{"A", ""}, H{"B-c", " 2"})},
		{name: "t-space-2nd", f: tr("A, B-c", H{"A", " 1"}, H{"B-c", " x y z"})},
	}
	for _, t := range trailers {
		out = append(out, bodyForm{name: "ch[3]-" + t.name, b: t.f(ch(3))})
	}
	out = append(out, bodyForm{name: "ch[]-t1", b: tr("A", H{"A", " 1"})(ch())})
	out = append(out, bodyForm{name: "ch[10,5]-ext-t2", b: with(tr("A, B-c", H{"A", " 1"}, H{"B-c", " 22"})(ch(10, 5)), func(b *httpgen.Body) { b.Ext = ";x=y" })})
	return out
}

// crossForms are the header features that are legal on every framing class, on the classes (and
// in the combinations) the base product does not have: see the comment at the top.
func crossForms() []bodyForm {
	P := httpgen.Payload
	clb := func(n int, text string) httpgen.Body {
		return httpgen.Body{Kind: httpgen.BodyCL, Data: append([]byte{}, P(n, 0)...), CLText: text}
	}
	ch := func(sizes ...int) httpgen.Body {
		b := httpgen.Body{Kind: httpgen.BodyChunked, Chunks: [][]byte{}}
		for i, n := range sizes {
			b.Chunks = append(b.Chunks, P(n, i+1))
		}
		return b
	}
	var out []bodyForm
	// Content-Length spellings with an empty body
	cl0 := []bodyForm{
		{name: "cl0-nospace", b: clb(0, "0")},
		{name: "cl0-trailing-sp", b: clb(0, " 0  ")},
		{name: "cl0-leading-zero", b: clb(0, " 00")},
	}
	out = append(out, cl0...)
	// a Trailer declaration on every non-chunked form
	nonChunked := append([]bodyForm{
		{name: "none", b: httpgen.Body{Kind: httpgen.BodyNone}},
		{name: "cl0", b: clb(0, "")},
		{name: "cl1", b: clb(1, "")},
		{name: "cl3", b: clb(3, "")},
		{name: "cl300", b: clb(300, "")},
		{name: "cl3-nospace", b: clb(3, "3")},
		{name: "cl3-trailing-sp", b: clb(3, " 3  ")},
		{name: "cl3-leading-zero", b: clb(3, " 03")},
	}, cl0...)
	decls := []struct {
		name  string
		lines []H
	}{
		{"decl[A]", []H{{"Trailer", " A"}}},
		{"decl[A, B-c]", []H{{"Trailer", " A, B-c"}}},
		{"decl[A|B-c]", []H{{"Trailer", " A"}, {"Trailer", " B-c"}}},
		{"decl[a]-lower-nospace", []H{{"trailer", "a"}}},
	}
	for _, f := range nonChunked {
		for _, d := range decls {
			out = append(out, bodyForm{name: f.name + "+" + d.name, b: f.b, decl: d.lines})
		}
	}
	// chunked: the declaration as header lines (two lines; in front of Transfer-Encoding when the
	// framing headers come last), all declared fields sent
	sentAB := []H{{"A", " 1"}, {"B-c", " 22"}}
	for _, f := range []bodyForm{{name: "ch[]", b: ch()}, {name: "ch[3]", b: ch(3)}, {name: "ch[10,5]", b: ch(10, 5)}} {
		b := f.b
		b.Trailers = sentAB
		out = append(out, bodyForm{name: f.name + "+decl[A|B-c]-sent", b: b, decl: decls[2].lines})
		out = append(out, bodyForm{name: f.name + "+decl[A, B-c]-sent", b: b, decl: decls[1].lines})
	}
	// Transfer-Encoding spellings x {no chunk, trailers}
	for _, te := range []struct{ name, text string }{{"TE-Chunked", " Chunked"}, {"TE-nospace", "chunked"}, {"TE-UPPER", " CHUNKED"}, {"TE-ows", "  chunked \t"}} {
		b0, b1, b2 := ch(), tr("A", H{"A", " 1"})(ch(3)), ch(3)
		b0.TEText, b1.TEText, b2.TEText = te.text, te.text, te.text
		out = append(out, bodyForm{name: "ch[]-" + te.name, b: b0}, bodyForm{name: "ch[3]-t1-" + te.name, b: b1})
		if te.name == "TE-UPPER" || te.name == "TE-ows" {
			out = append(out, bodyForm{name: "ch[3]-" + te.name, b: b2})
		}
	}
	return out
}

// withDecl inserts Trailer header lines: the first one in front of or behind the first ordinary
// header (by k), the others at the end.
func withDecl(hs []H, decl []H, k int) []H {
	if len(decl) == 0 {
		return hs
	}
	at := k % 2
	if at > len(hs) {
		at = len(hs)
	}
	out := make([]H, 0, len(hs)+len(decl))
	out = append(out, hs[:at]...)
	out = append(out, decl[0])
	out = append(out, hs[at:]...)
	return append(out, decl[1:]...)
}

func withConn(hs []H, cf connForm, at int) []H {
	if len(cf) == 0 {
		return hs
	}
	out := make([]H, 0, len(hs)+len(cf))
	if at > len(hs) {
		at = len(hs)
	}
	out = append(out, hs[:at]...)
	for _, v := range cf {
		out = append(out, H{"Connection", v})
	}
	return append(out, hs[at:]...)
}

// ---------------------------------------------------------------------------------------------
// reference

type goMsg struct {
	req  *http.Request
	res  *http.Response
	body []byte
	end  int
}

func goParse(stream []byte, client bool) ([]goMsg, error) {
	rd := bytes.NewReader(stream)
	br := bufio.NewReader(rd)
	var out []goMsg
	for rd.Len()+br.Buffered() > 0 {
		var m goMsg
		var body io.ReadCloser
		if client {
			res, err := http.ReadResponse(br, &http.Request{Method: "GET"})
			if err != nil {
				return out, err
			}
			m.res, body = res, res.Body
		} else {
			req, err := http.ReadRequest(br)
			if err != nil {
				return out, err
			}
			m.req, body = req, req.Body
		}
		b, err := io.ReadAll(body)
		if err != nil {
			return out, err
		}
		_ = body.Close()
		m.body = b
		m.end = len(stream) - rd.Len() - br.Buffered()
		out = append(out, m)
	}
	return out, nil
}

// ---------------------------------------------------------------------------------------------
// comparison

func trimOWS(s string) string { return strings.Trim(s, " \t") }

// normHeader renders a multimap with OWS-trimmed values, skipping the given keys.
func normHeader(h http.Header, skip map[string]bool) string {
	keys := make([]string, 0, len(h))
	for k, v := range h {
		if !skip[k] && len(v) > 0 {
			keys = append(keys, k)
		}
	}
	sort.Strings(keys)
	var sb strings.Builder
	for _, k := range keys {
		fmt.Fprintf(&sb, "%q=[", k)
		for _, v := range h[k] {
			fmt.Fprintf(&sb, "%q,", trimOWS(v))
		}
		sb.WriteString("] ")
	}
	return sb.String()
}

// mismatch is one disagreement; msg is the index of the message it was seen in (-1: the stream).
type mismatch struct {
	sig, desc string
	msg       int
	verdict   string // the error class when the disagreement is a rejection
}

func hasCommaConn(h http.Header) bool {
	for _, v := range h["Connection"] {
		if strings.Contains(v, ",") {
			return true
		}
	}
	return false
}

func cmpTrailer(goT, nbT http.Header) *mismatch {
	a, b := normHeader(goT, nil), normHeader(nbT, nil)
	if a == b {
		return nil
	}
	// refine: is every differing value the reference value cut at its first space?
	trunc := false
	for k, gv := range goT {
		nv := nbT[k]
		if len(gv) != len(nv) {
			trunc = false
			break
		}
		for i := range gv {
			g, n := trimOWS(gv[i]), trimOWS(nv[i])
			if g == n {
				continue
			}
			if j := strings.IndexByte(g, ' '); j >= 0 && g[:j] == n {
				trunc = true
			} else {
				trunc = false
				break
			}
		}
	}
	if trunc {
		return &mismatch{sig: "trailer-value-truncated-at-first-space", desc: fmt.Sprintf("trailers: net/http %s, nbhttp %s", a, b)}
	}
	return &mismatch{sig: "trailer-multimap-differs", desc: fmt.Sprintf("trailers: net/http %s, nbhttp %s", a, b)}
}

func cmpRequest(g *goMsg, n *httpgen.ReqDump) []mismatch {
	var out []mismatch
	add := func(sig, f string, a ...interface{}) {
		out = append(out, mismatch{sig: sig, desc: fmt.Sprintf(f, a...)})
	}
	r := g.req
	if r.Method != n.Method {
		add("request-method-differs", "method: net/http %q, nbhttp %q", r.Method, n.Method)
	}
	if r.RequestURI != n.RequestURI {
		add("request-target-differs", "RequestURI: net/http %q, nbhttp %q", r.RequestURI, n.RequestURI)
	}
	if r.URL.Path != n.Path || r.URL.RawQuery != n.RawQuery {
		add("request-url-differs", "URL path/query: net/http %q?%q, nbhttp %q?%q", r.URL.Path, r.URL.RawQuery, n.Path, n.RawQuery)
	}
	if r.ProtoMajor != n.Major || r.ProtoMinor != n.Minor || r.Proto != n.Proto {
		add("request-version-differs", "proto: net/http %q %d.%d, nbhttp %q %d.%d", r.Proto, r.ProtoMajor, r.ProtoMinor, n.Proto, n.Major, n.Minor)
	}
	if r.Host != n.Host {
		add("request-host-differs", "Host: net/http %q, nbhttp %q", r.Host, n.Host)
	}
	chunked := len(r.TransferEncoding) > 0
	skip := map[string]bool{"Host": true, "Transfer-Encoding": true}
	if chunked {
		// net/http removes Content-Length and moves the Trailer declaration into Request.Trailer;
		// on a non-chunked message it keeps "Trailer" as a plain header, and so must nbhttp
		skip["Content-Length"] = true
		skip["Trailer"] = true
	}
	if _, ok := r.Header["Connection"]; !ok && r.Close {
		skip["Connection"] = true // net/http deletes "Connection" once it has recorded close
	}
	if a, b := normHeader(r.Header, skip), normHeader(n.Header, skip); a != b {
		add("request-header-multimap-differs", "headers: net/http %s, nbhttp %s", a, b)
	}
	if !bytes.Equal(g.body, n.Body) {
		add("request-body-differs", "body: net/http %d bytes %q, nbhttp %d bytes %q", len(g.body), clip(g.body), len(n.Body), clip(n.Body))
	}
	if m := cmpTrailer(r.Trailer, n.Trailer); m != nil {
		out = append(out, *m)
	}
	if r.Close != n.Close {
		sig := "close-decision-differs"
		if hasCommaConn(n.Header) {
			sig = "close-decision-ignores-connection-token-list"
		} else if len(n.Header["Connection"]) > 1 {
			sig = "close-decision-differs-with-repeated-connection-header"
		}
		add(sig, "Close: net/http %v, nbhttp %v; Connection=%q proto %d.%d", r.Close, n.Close, n.Header["Connection"], n.Major, n.Minor)
	}
	return out
}

func cmpResponse(g *goMsg, n *httpgen.ResDump) []mismatch {
	var out []mismatch
	add := func(sig, f string, a ...interface{}) {
		out = append(out, mismatch{sig: sig, desc: fmt.Sprintf(f, a...)})
	}
	r := g.res
	if r.StatusCode != n.Code {
		add("response-status-code-differs", "status code: net/http %d, nbhttp %d", r.StatusCode, n.Code)
	}
	// net/http composes Status as "<code> <reason-phrase>" (the status line behind the version);
	// nbhttp delivers the reason-phrase alone and keeps its first word only (recorded design):
	// a reason of one word is compared as a whole, of a longer one the first word; both modulo
	// surrounding whitespace
	reason := trimOWS(strings.TrimPrefix(r.Status, strconv.Itoa(r.StatusCode)))
	got := trimOWS(n.Status)
	want, sig := reason, "response-reason-differs"
	if i := strings.IndexByte(reason, ' '); i >= 0 {
		want, sig = reason[:i], "response-reason-first-word-differs"
	}
	if want != got {
		// refine: is it the expected word without its leading bytes that are not letters?
		k := 0
		for k < len(want) && !isLetter(want[k]) {
			k++
		}
		if k > 0 && want[k:] == got {
			sig = "response-reason-leading-non-letters-dropped"
		}
		add(sig, "reason-phrase: net/http %q (Status %q; compared word %q), nbhttp %q", reason, r.Status, want, n.Status)
	}
	if r.ProtoMajor != n.Major || r.ProtoMinor != n.Minor || r.Proto != n.Proto {
		add("response-version-differs", "proto: net/http %q, nbhttp %q", r.Proto, n.Proto)
	}
	chunked := len(r.TransferEncoding) > 0
	skip := map[string]bool{"Transfer-Encoding": true}
	if chunked {
		skip["Content-Length"] = true
		skip["Trailer"] = true
	}
	if _, ok := r.Header["Connection"]; !ok && r.Close {
		skip["Connection"] = true
	}
	if a, b := normHeader(r.Header, skip), normHeader(n.Header, skip); a != b {
		add("response-header-multimap-differs", "headers: net/http %s, nbhttp %s", a, b)
	}
	if !bytes.Equal(g.body, n.Body) {
		add("response-body-differs", "body: net/http %d bytes %q, nbhttp %d bytes %q", len(g.body), clip(g.body), len(n.Body), clip(n.Body))
	}
	if m := cmpTrailer(r.Trailer, n.Trailer); m != nil {
		out = append(out, *m)
	}
	return out
}

func isLetter(c byte) bool { return 'a' <= c|0x20 && c|0x20 <= 'z' }

func clip(b []byte) string {
	if len(b) > 40 {
		return string(b[:40]) + "..."
	}
	return string(b)
}

// features names the framing class of a message as the reference parsed it, plus what it says
// about trailers: "bodiless", "content-length", "chunked", "+trailer-declared" (a Trailer header
// on a non-chunked message: a plain header), "+trailers" (declared and sent on a chunked one).
func features(g *goMsg) string {
	var h, t http.Header
	var te []string
	if g.req != nil {
		h, t, te = g.req.Header, g.req.Trailer, g.req.TransferEncoding
	} else {
		h, t, te = g.res.Header, g.res.Trailer, g.res.TransferEncoding
	}
	switch {
	case len(te) > 0 && len(t) > 0:
		return "chunked+trailers"
	case len(te) > 0:
		return "chunked"
	}
	f := "bodiless"
	if _, ok := h["Content-Length"]; ok {
		f = "content-length"
	}
	if _, ok := h["Trailer"]; ok {
		f += "+trailer-declared"
	}
	return f
}

// announceShape says how the trailer section of a chunked message (raw: its bytes) disagrees with
// the announcement in its Trailer header field(s): "unannounced-trailers" (fields sent, nothing
// announced), "absent-announced-trailers" (announced, nothing sent), "other-than-announced-trailers"
// (something sent, an announced field missing), "extra-unannounced-trailers" (everything
// announced was sent, and more); "" when they agree or the message is not chunked. The sent
// fields are the reference's (Trailer entries with a value), the announcement is read off the
// header block (net/http removes it from the header of a chunked message).
func announceShape(raw []byte, g *goMsg) string {
	var t http.Header
	var te []string
	if g.req != nil {
		t, te = g.req.Trailer, g.req.TransferEncoding
	} else {
		t, te = g.res.Trailer, g.res.TransferEncoding
	}
	if len(te) == 0 {
		return ""
	}
	announced := map[string]bool{}
	if end := bytes.Index(raw, []byte("\r\n\r\n")); end >= 0 {
		for i, line := range strings.Split(string(raw[:end]), "\r\n") {
			name, val, ok := strings.Cut(line, ":")
			if i == 0 || !ok || !strings.EqualFold(name, "Trailer") {
				continue
			}
			for _, k := range strings.Split(val, ",") {
				if k = trimOWS(k); k != "" {
					announced[http.CanonicalHeaderKey(k)] = true
				}
			}
		}
	}
	sent, missing, extra := 0, 0, 0
	for k, v := range t {
		if len(v) > 0 {
			sent++
			if !announced[k] {
				extra++
			}
		}
	}
	for k := range announced {
		if len(t[k]) == 0 {
			missing++
		}
	}
	switch {
	case missing == 0 && extra == 0:
		return ""
	case len(announced) == 0:
		return "unannounced-trailers"
	case sent == 0:
		return "absent-announced-trailers"
	case missing > 0:
		return "other-than-announced-trailers"
	}
	return "extra-unannounced-trailers"
}

// announceForms are chunked bodies whose trailer section disagrees with its announcement (RFC
// 7230 4.4: announcing is a SHOULD; net/http delivers whatever is sent), each without and with
// a chunk extension on the last-chunk line, plus exactly announced trailers behind such a line.
func announceForms() []bodyForm {
	P := httpgen.Payload
	ch := func(sizes ...int) httpgen.Body {
		b := httpgen.Body{Kind: httpgen.BodyChunked, Chunks: [][]byte{}}
		for i, n := range sizes {
			b.Chunks = append(b.Chunks, P(n, i+1))
		}
		return b
	}
	A, B := H{"A", " 1"}, H{"B-c", " 22"}
	shapes := []struct {
		name, decl string
		sent       []H
	}{
		{"unannounced[A]", "", []H{A}},
		{"unannounced[A,B-c]", "", []H{A, B}},
		{"announced[A]-absent", "A", nil},
		{"announced[A, B-c]-absent", "A, B-c", nil},
		{"announced[A]-sent[B-c]", "A", []H{B}},
		{"announced[A]-sent[A,B-c]", "A", []H{A, B}},
		{"announced[A]-sent[B-c,A]", "A", []H{B, A}},
		{"announced[A, B-c]-sent[A]", "A, B-c", []H{A}},
		{"announced[A]-sent[A]", "A", []H{A}}, // exact: here for the last-chunk extension
	}
	var out []bodyForm
	for _, c := range []struct {
		name string
		b    httpgen.Body
	}{{"ch[]", ch()}, {"ch[3]", ch(3)}, {"ch[10,5]", ch(10, 5)}} {
		for _, sh := range shapes {
			for _, le := range []string{"", ";x=y"} {
				if le == "" && sh.name == "announced[A]-sent[A]" {
					continue // in the base product
				}
				b := c.b
				b.Declared, b.Trailers, b.LastExt = sh.decl, sh.sent, le
				name := c.name + "-" + sh.name
				if le != "" {
					name += "-lastext"
				}
				out = append(out, bodyForm{name: name, b: b})
			}
		}
	}
	return out
}

// connFeatures names what decides the persistence of the connection: the version and the
// Connection options close / keep-alive as the reference saw them.
func connFeatures(g *goMsg) string {
	var h http.Header
	var minor int
	var cl bool
	if g.req != nil {
		h, minor, cl = g.req.Header, g.req.ProtoMinor, g.req.Close
	} else {
		h, minor, cl = g.res.Header, g.res.ProtoMinor, g.res.Close
	}
	f := fmt.Sprintf("HTTP/1.%d", minor)
	for _, v := range h["Connection"] {
		for _, o := range strings.Split(v, ",") {
			if strings.EqualFold(trimOWS(o), "keep-alive") && !strings.Contains(f, "+keep-alive") {
				f += "+keep-alive"
			}
		}
	}
	if cl {
		f += "+close"
	}
	return f
}

// ---------------------------------------------------------------------------------------------
// evaluation of one stream

type evaluator struct{ p *vkit.Part }

type feedKind struct {
	name  string
	every int
}

var feeds = []feedKind{{"one-piece", 0}, {"byte-at-a-time", 1}}

// newCase: maxBody is Engine.MaxHTTPBodySize (0: the default, no limit).
func newCase(stream []byte, client bool, every, maxBody int) *httpgen.Case {
	return &httpgen.Case{Stream: stream, Client: client, Mode: httpgen.Real, ReadLimit: -1, MaxBody: maxBody, Policy: track.Pooled, Every: every, Lite: true}
}

// judge runs nbhttp on a stream the reference has parsed into gos and returns the disagreements.
// With attribute set, a disagreement in a message that has predecessors on the connection is
// re-examined: the message is parsed alone on a fresh parser, and when it does not fail the same
// way there, the signature names the predecessors' features (carried state), see attribute.
func judge(gos []goMsg, stream []byte, client bool, every, maxBody int, attr bool) (viol []mismatch, r *httpgen.Result) {
	r = httpgen.Run(newCase(stream, client, every, maxBody), true)
	if len(r.Panics) > 0 {
		viol = append(viol, mismatch{sig: "panic-in-parse", desc: r.Panics[0], msg: -1})
	}
	got := len(r.Reqs)
	if client {
		got = len(r.Ress)
	}
	at := func(i int) int {
		if i < len(gos) {
			return i
		}
		return -1
	}
	if r.Verdict != "" {
		// the message nbhttp failed on is the one after the last delivered; name the feature of
		// that message (as parsed by the reference) that known defects are tied to
		feature := "-"
		if got < len(gos) {
			var t http.Header
			if client {
				t = gos[got].res.Trailer
			} else {
				t = gos[got].req.Trailer
			}
			for _, v := range t {
				if len(v) > 1 {
					feature = "repeated-trailer-field"
				}
				for _, x := range v {
					if x == "" && feature == "-" {
						feature = "empty-trailer-value"
					}
				}
			}
			// a trailer section that disagrees with its announcement is named by how it disagrees
			from := 0
			if got > 0 {
				from = gos[got-1].end
			}
			if sh := announceShape(stream[from:gos[got].end], &gos[got]); sh != "" {
				feature = sh
			}
		}
		viol = append(viol, mismatch{sig: fmt.Sprintf("rejects-wellformed verdict=%s state=%s feature=%s", httpgen.ErrKind(r.Verdict), httpgen.StateName(r.ErrState), feature),
			desc:    fmt.Sprintf("net/http parses %d message(s) without error; nbhttp returns %q at offset <= %d (parser state %s) in message %d", len(gos), r.Verdict, r.ErrOffset, httpgen.StateName(r.ErrState), got),
			msg:     at(got),
			verdict: httpgen.ErrKind(r.Verdict)})
	}
	if got != len(gos) && r.Verdict == "" {
		viol = append(viol, mismatch{sig: "message-count-differs", desc: fmt.Sprintf("net/http delivered %d messages, nbhttp %d (no error)", len(gos), got), msg: at(got)})
	}
	for i := 0; i < got && i < len(gos); i++ {
		var ms []mismatch
		end := 0
		if client {
			ms = cmpResponse(&gos[i], r.Ress[i])
			end = r.Ress[i].At
		} else {
			ms = cmpRequest(&gos[i], r.Reqs[i])
			end = r.Reqs[i].At
		}
		for _, m := range ms {
			m.desc = fmt.Sprintf("message %d: %s", i, m.desc)
			m.msg = i
			viol = append(viol, m)
		}
		if every == 1 && end != gos[i].end {
			viol = append(viol, mismatch{sig: "message-boundary-offset-differs", desc: fmt.Sprintf("message %d: net/http consumed %d bytes, nbhttp completed the message after %d bytes", i, gos[i].end, end), msg: i})
		}
	}
	if attr {
		attribute(viol, gos, stream, client, every, maxBody)
	}
	return viol, r
}

// attribute rewrites the signature of a disagreement seen in message i >= 1 of a pipeline when the
// same message, parsed alone on a fresh parser, does not show it: then it is the state the
// predecessors left behind, and the signature says which kind of predecessors
// (pipeline-successor-rejected / -not-delivered / -differs pred=<features>[> ...] succ=<features>).
// With two predecessors the smallest subset behind which the message still fails the same way is
// named (the nearer one first), so that one defect does not get a signature per bystander.
func attribute(viol []mismatch, gos []goMsg, stream []byte, client bool, every, maxBody int) {
	msgBytes := func(j int) []byte {
		from := 0
		if j > 0 {
			from = gos[j-1].end
		}
		return stream[from:gos[j].end]
	}
	// fails reports whether message i, parsed behind the messages preds on a fresh parser, shows
	// a disagreement with the plain signature sig
	memo := map[string]map[string]bool{}
	fails := func(preds []int, i int, sig string) bool {
		key := fmt.Sprint(preds, i)
		sigs, ok := memo[key]
		if !ok {
			sigs = map[string]bool{}
			var sub []byte
			for _, j := range preds {
				sub = append(sub, msgBytes(j)...)
			}
			sub = append(sub, msgBytes(i)...)
			if sg, err := goParse(sub, client); err == nil && len(sg) == len(preds)+1 {
				av, _ := judge(sg, sub, client, every, maxBody, false)
				for _, a := range av {
					if a.msg == len(preds) {
						sigs[a.sig] = true
					}
				}
			}
			memo[key] = sigs
		}
		return sigs[sig]
	}
	for k := range viol {
		v := &viol[k]
		i := v.msg
		if i < 1 || i >= len(gos) {
			continue
		}
		if fails(nil, i, v.sig) {
			continue // fails the same way on a fresh connection: a defect of the single message
		}
		all := make([]int, i)
		for j := range all {
			all[j] = j
		}
		preds := all
		if i >= 2 {
			for j := i - 1; j >= 0; j-- {
				if fails([]int{j}, i, v.sig) {
					preds = []int{j}
					break
				}
			}
		}
		// what a predecessor can have left behind depends on what differs: for the close decision
		// it is the version and the Connection options, for everything else the framing
		feat := features
		if strings.HasPrefix(v.sig, "close-decision") {
			feat = connFeatures
		}
		var pf []string
		for _, j := range preds {
			pf = append(pf, feat(&gos[j]))
		}
		ps, ss := strings.Join(pf, ">"), feat(&gos[i])
		switch {
		case v.verdict != "":
			v.sig = fmt.Sprintf("pipeline-successor-rejected pred=%s succ=%s verdict=%s", ps, ss, v.verdict)
		case v.sig == "message-count-differs":
			v.sig = fmt.Sprintf("pipeline-successor-not-delivered pred=%s succ=%s", ps, ss)
		default:
			v.sig = fmt.Sprintf("pipeline-successor-differs pred=%s succ=%s what=%s", ps, ss, v.sig)
		}
		v.desc += fmt.Sprintf(" | the same message parsed alone on a fresh parser does not show this: state carried over; it does behind message(s) %v of the stream", preds)
	}
}

// nontrivialRef: the reference saw a body, a trailer, a Connection header or a pipeline, i.e.
// something beyond a bare start line + plain headers had to be extracted identically.
func nontrivialRef(gos []goMsg) bool {
	nontrivial := len(gos) > 1
	for _, g := range gos {
		var h, t http.Header
		var cl bool
		if g.req != nil {
			h, t, cl = g.req.Header, g.req.Trailer, g.req.Close
		} else {
			h, t, cl = g.res.Header, g.res.Trailer, g.res.Close
		}
		if len(g.body) > 0 || len(t) > 0 || cl || len(h["Connection"]) > 0 {
			nontrivial = true
		}
	}
	return nontrivial
}

// check runs the reference and nbhttp on one stream and returns the violations (replay).
func check(stream []byte, client bool, every, maxBody int) (viol []mismatch, refErr error, gos []goMsg, res *httpgen.Result) {
	gos, refErr = goParse(stream, client)
	if refErr != nil {
		return nil, refErr, nil, nil
	}
	if maxBody > 0 {
		viol, res = judgeLimited(gos, stream, client, every, maxBody)
	} else {
		viol, res = judge(gos, stream, client, every, 0, true)
	}
	return viol, nil, gos, res
}

// maxBodyLen is the length of the largest body of the stream (as the reference extracted it).
func maxBodyLen(gos []goMsg) int {
	n := 0
	for i := range gos {
		if len(gos[i].body) > n {
			n = len(gos[i].body)
		}
	}
	return n
}

// judgeLimited runs the stream with Engine.MaxHTTPBodySize = maxBody, a limit no body of the
// stream exceeds: it must not change anything. Returned are the disagreements the same stream
// does not show without a limit, their signatures marked with where the limit sits.
func judgeLimited(gos []goMsg, stream []byte, client bool, every, maxBody int) ([]mismatch, *httpgen.Result) {
	base, _ := judge(gos, stream, client, every, 0, true)
	seen := map[string]bool{}
	for _, b := range base {
		seen[b.sig] = true
	}
	viol, r := judge(gos, stream, client, every, maxBody, true)
	where := fmt.Sprintf("max-body=%d", maxBody)
	switch maxBody - maxBodyLen(gos) {
	case 0:
		where = "max-body=exactly-the-largest-body"
	case 1:
		where = "max-body=largest-body+1"
	}
	var out []mismatch
	for _, v := range viol {
		if seen[v.sig] {
			continue
		}
		v.sig += " " + where
		v.desc += fmt.Sprintf(" | Engine.MaxHTTPBodySize=%d, largest body of the stream %d bytes; without a limit the stream does not show this", maxBody, maxBodyLen(gos))
		out = append(out, v)
	}
	return out, r
}

// stream evaluates one stream under both feeds. outside != "" marks a form that net/http accepts
// but that is outside the RFC 7230 grammar the property quantifies over: it is run and what
// happens is counted, never reported.
func (e *evaluator) stream(m *httpgen.Msg, client bool, outside string) {
	p := e.p
	p.Count("streams", 1)
	gos, refErr := goParse(m.B, client)
	if refErr != nil {
		p.Count("reference_rejected", 1)
		p.Count("reference_rejected: "+refErr.Error(), 1)
		return
	}
	nontrivial := nontrivialRef(gos)
	for _, fk := range feeds {
		viol, r := judge(gos, m.B, client, fk.every, 0, true)
		p.Case(nontrivial, 1, r.Feeds)
		p.Count("cases."+fk.name, 1)
		p.Count("messages_compared", len(gos))
		if len(r.TrackViol) > 0 {
			p.Count("cases_with_ownership_violation(C11)", 1)
		}
		if outside != "" {
			if len(viol) == 0 {
				p.Count("outside_grammar["+outside+"].agree", 1)
				p.Outcome("agree")
			} else {
				p.Count("outside_grammar["+outside+"].differ: "+viol[0].sig, 1)
				p.Outcome("outside-grammar-differ")
			}
			continue
		}
		for _, v := range viol {
			p.Report(v.sig, v.desc+" | feed: "+fk.name+" | stream: "+m.Desc, scenario, newCase(m.B, client, fk.every, 0).Input(m.Desc))
		}
		if len(viol) == 0 {
			p.Outcome("agree")
		} else {
			p.Outcome("differ")
		}
	}
}

// limited evaluates one stream under both feeds with Engine.MaxHTTPBodySize at exactly the size
// of its largest body and one above: a limit the well-formed message does not exceed never
// changes the result (what happens above the limit is C08's subject).
func (e *evaluator) limited(m *httpgen.Msg, client bool) {
	p := e.p
	p.Count("streams.with_body_limit", 1)
	gos, refErr := goParse(m.B, client)
	if refErr != nil {
		p.Count("reference_rejected", 1)
		p.Count("reference_rejected: "+refErr.Error(), 1)
		return
	}
	n := maxBodyLen(gos)
	if n == 0 {
		return // 0 means "no limit": a stream without a body has no limit to sit at
	}
	atLimit := 0
	for i := range gos {
		if len(gos[i].body) == n {
			atLimit++
		}
	}
	for _, lim := range []int{n, n + 1} {
		for _, fk := range feeds {
			viol, r := judgeLimited(gos, m.B, client, fk.every, lim)
			p.Case(true, 1, r.Feeds)
			p.Count("cases.with_body_limit."+fk.name, 1)
			p.Count("messages_compared", len(gos))
			if lim == n {
				p.Count("messages_with_body_exactly_at_the_limit", atLimit)
			}
			for _, v := range viol {
				p.Report(v.sig, v.desc+" | feed: "+fk.name+" | stream: "+m.Desc, scenario, newCase(m.B, client, fk.every, lim).Input(m.Desc))
			}
			if len(viol) == 0 {
				p.Outcome("agree")
			} else {
				p.Outcome("differ")
			}
		}
	}
}

// limitBodies are the body-carrying forms of the limit dimension: Content-Length and chunked with
// 1-3 chunks, without and with trailers, below and above the 1 KiB pooled buffer; big marks the
// ones that stay out of the triples.
func limitBodies() (out []bodyForm, big map[string]bool) {
	P := httpgen.Payload
	clb := func(n int) httpgen.Body { return httpgen.Body{Kind: httpgen.BodyCL, Data: P(n, 0)} }
	ch := func(sizes ...int) httpgen.Body {
		b := httpgen.Body{Kind: httpgen.BodyChunked, Chunks: [][]byte{}}
		for i, n := range sizes {
			b.Chunks = append(b.Chunks, P(n, i+1))
		}
		return b
	}
	t1, t2 := tr("A", H{"A", " 1"}), tr("A, B-c", H{"A", " 1"}, H{"B-c", " 22"})
	ext := ch(10, 5)
	ext.Ext = ";x=y"
	out = []bodyForm{
		{name: "cl1", b: clb(1)}, {name: "cl3", b: clb(3)}, {name: "cl300", b: clb(300)}, {name: "cl1500", b: clb(1500)},
		{name: "ch[1]", b: ch(1)}, {name: "ch[3]", b: ch(3)}, {name: "ch[10,5]", b: ch(10, 5)}, {name: "ch[3,2,4]", b: ch(3, 2, 4)},
		{name: "ch[300]", b: ch(300)}, {name: "ch[1000,100]", b: ch(1000, 100)},
		{name: "ch[3]-t1", b: t1(ch(3))}, {name: "ch[10,5]-ext-t2", b: t2(ext)}, {name: "ch[3,2,4]-t2", b: t2(ch(3, 2, 4))}, {name: "ch[2,2]-t1", b: t1(ch(2, 2))},
	}
	return out, map[string]bool{"cl1500": true, "ch[1000,100]": true}
}

// ---------------------------------------------------------------------------------------------
// pipeline representatives

// rep is one member of the representative set the pipelines are built from.
type rep struct {
	m       *httpgen.Msg
	chunked bool
	decl    int  // 0: no Trailer header, 1: names A, 2: names B-c and D
	closing bool // the message asks for / implies the end of the connection
	core    bool // no Connection header, HTTP/1.1, plain status line: member of the quick triples
}

var repDecls = []struct {
	name, names string
	sent        []H
}{{"-", "", nil}, {"tA", "A", []H{{"A", " 1"}}}, {"tBD", "B-c, D", []H{{"B-c", " 22"}, {"D", " x y"}}}}

var repConns = []struct {
	name, ver string
	cf        connForm
	closing   bool
}{
	{"1.1", "HTTP/1.1", nil, false},
	{"1.1-keep-alive", "HTTP/1.1", connForm{" keep-alive"}, false},
	{"1.1-close", "HTTP/1.1", connForm{" close"}, true},
	{"1.1-x,close", "HTTP/1.1", connForm{" x, close"}, true},
	{"1.0", "HTTP/1.0", nil, true},
	{"1.0-keep-alive", "HTTP/1.0", connForm{" keep-alive"}, false},
}

// repBody applies trailer declaration d to a body / header list: declared and sent on a chunked
// body, declared only (a plain header) on any other.
func repBody(b httpgen.Body, hs []H, d, id int) (httpgen.Body, []H) {
	if d == 0 {
		return b, hs
	}
	if b.Kind == httpgen.BodyChunked {
		b.Declared, b.Trailers = repDecls[d].names, repDecls[d].sent
		return b, hs
	}
	return b, withDecl(hs, []H{{"Trailer", " " + repDecls[d].names}}, id)
}

func requestReps() []rep {
	P := httpgen.Payload
	fbs := []bodyForm{
		{name: "none", b: httpgen.Body{Kind: httpgen.BodyNone}},
		{name: "cl0", b: httpgen.Body{Kind: httpgen.BodyCL, Data: []byte{}}},
		{name: "cl3", b: httpgen.Body{Kind: httpgen.BodyCL, Data: P(3, 0)}},
		{name: "ch[]", b: httpgen.Body{Kind: httpgen.BodyChunked, Chunks: [][]byte{}}},
		{name: "ch[3]", b: httpgen.Body{Kind: httpgen.BodyChunked, Chunks: [][]byte{P(3, 1)}}},
	}
	var out []rep
	for _, fb := range fbs {
		for d := range repDecls {
			for _, c := range repConns {
				chunked := fb.b.Kind == httpgen.BodyChunked
				if chunked && c.ver == "HTTP/1.0" {
					continue
				}
				id := len(out)
				hs := withConn([]H{{"Host", " h"}, {"X-R", fmt.Sprintf(" q%d", id)}}, c.cf, id%3)
				body, hs := repBody(fb.b, hs, d, id)
				method := "POST"
				if fb.name == "none" {
					method = "GET"
				}
				m := (&httpgen.Req{Method: method, Target: fmt.Sprintf("/q%d?i=%d", id, id), Version: c.ver, Headers: hs, Body: body, FramingFirst: id%2 == 1}).Build()
				m.Desc = fmt.Sprintf("q%d:%s/%s/%s", id, fb.name, repDecls[d].name, c.name)
				out = append(out, rep{m: m, chunked: chunked, decl: d, closing: c.closing, core: c.name == "1.1"})
			}
		}
	}
	return out
}

func responseReps() []rep {
	P := httpgen.Payload
	fbs := []struct {
		bodyForm
		status string
	}{
		{bodyForm{name: "204", b: httpgen.Body{Kind: httpgen.BodyNone}}, "204 No Content"},
		{bodyForm{name: "304", b: httpgen.Body{Kind: httpgen.BodyNone}}, "304 Not Modified"},
		{bodyForm{name: "cl0", b: httpgen.Body{Kind: httpgen.BodyCL, Data: []byte{}}}, "200 OK"},
		{bodyForm{name: "cl3", b: httpgen.Body{Kind: httpgen.BodyCL, Data: P(3, 0)}}, "404 Not Found"},
		{bodyForm{name: "ch[]", b: httpgen.Body{Kind: httpgen.BodyChunked, Chunks: [][]byte{}}}, "201 Created"},
		{bodyForm{name: "ch[3]", b: httpgen.Body{Kind: httpgen.BodyChunked, Chunks: [][]byte{P(3, 1)}}}, "200 OK"},
	}
	var out []rep
	add := func(fb bodyForm, status string, d int, cname, ver string, cf connForm, closing, core bool) {
		id := len(out)
		hs := withConn([]H{{"X-R", fmt.Sprintf(" s%d", id)}}, cf, id%2)
		body, hs := repBody(fb.b, hs, d, id)
		m := (&httpgen.Res{Version: ver, Status: status, Headers: hs, Body: body, FramingFirst: id%2 == 1}).Build()
		m.Desc = fmt.Sprintf("s%d:%q/%s/%s/%s", id, status, fb.name, repDecls[d].name, cname)
		out = append(out, rep{m: m, chunked: fb.b.Kind == httpgen.BodyChunked, decl: d, closing: closing, core: core})
	}
	for _, fb := range fbs {
		for d := range repDecls {
			for _, c := range repConns {
				if c.name == "1.1-x,close" || (fb.b.Kind == httpgen.BodyChunked && c.ver == "HTTP/1.0") {
					continue
				}
				add(fb.bodyForm, fb.status, d, c.name, c.ver, c.cf, c.closing, c.name == "1.1")
			}
		}
	}
	// status-line spellings (RFC 7230 3.1.2: reason-phrase = *( HTAB / SP / VCHAR )), one framing
	// class each; the empty reason-phrase is a member of the quick triples
	for i, fb := range []int{0, 3, 5} {
		code := fbs[fb].status[:3]
		for j, reason := range []string{" ", " 2xx fine", " Very Good Indeed", " (ok)", " 2xx"} {
			add(fbs[fb].bodyForm, code+reason, (i+j)%3, "1.1", "HTTP/1.1", nil, false, j == 0)
		}
	}
	return out
}

// ---------------------------------------------------------------------------------------------
// enumeration

func run(tier string, sh *vkit.Shard, p *vkit.Part) {
	httpgen.StartWatchdog(p, scenario, 30*time.Second)
	thorough := tier == "thorough"
	deadline := vkit.Deadline(tier, 70*time.Second, 17*time.Minute)
	e := &evaluator{p: p}
	skipped := 0
	item := func(f func()) {
		if !sh.Mine() {
			return
		}
		if time.Now().After(deadline) {
			skipped++
			return
		}
		f()
	}
	methods := []string{"GET", "POST", "PUT"}
	targets := []string{"/", "/a/b%20c?x=1&y=2", "*"}
	if thorough {
		methods = []string{"GET", "POST", "PUT", "DELETE", "OPTIONS", "PATCH", "HEAD"}
		targets = []string{"/", "/a?b=c", "/a/b%20c?x=1&y=2", "*", "/?", "/a;p=1", "/%41?q=%20"}
	}
	versions := []string{"HTTP/1.1", "HTTP/1.0"}
	bodies := bodyForms()
	cross := crossForms()
	sampled := 0

	// requests: full product
	hsReq := headerSets(false)
	dims := []int{len(bodies), len(connForms), len(hsReq), 2, len(methods), len(targets), len(versions)}
	httpgen.Product(dims, 1, func(lin int, ix []int) {
		b, cf, hs, ff, method, target, ver := bodies[ix[0]], connForms[ix[1]], hsReq[ix[2]], ix[3] == 1, methods[ix[4]], targets[ix[5]], versions[ix[6]]
		if ver == "HTTP/1.0" && b.b.Kind == httpgen.BodyChunked {
			return // excluded form: HTTP/1.0 with Transfer-Encoding
		}
		item(func() {
			r := &httpgen.Req{Method: method, Target: target, Version: ver, Headers: withConn(hs, cf, ix[2]%3), Body: b.b, FramingFirst: ff}
			m := r.Build()
			m.Desc = fmt.Sprintf("req#%d %s %s %s hdrset=%d conn=%q body=%s framingFirst=%v", lin, method, target, ver, ix[2], []string(cf), b.name, ff)
			e.stream(m, false, "")
			p.Count("grammar_requests", 1)
			if sampled < 1 && b.b.Kind == httpgen.BodyChunked && len(b.b.Trailers) > 0 && len(cf) > 0 {
				sampled++
				p.Sample(map[string]interface{}{"stream": string(m.B), "desc": m.Desc})
			}
		})
	})
	// requests: the cross forms (header features on every framing class) x Connection form x
	// header set x framing-header position x version; method and target vary with the indices
	// (they are a full product with the framing classes above)
	dimsX := []int{len(cross), len(connForms), len(hsReq), 2, len(versions)}
	httpgen.Product(dimsX, 1, func(lin int, ix []int) {
		b, cf, hs, ff, ver := cross[ix[0]], connForms[ix[1]], hsReq[ix[2]], ix[3] == 1, versions[ix[4]]
		if ver == "HTTP/1.0" && b.b.Kind == httpgen.BodyChunked {
			return
		}
		item(func() {
			method, target := methods[ix[2]%len(methods)], targets[ix[1]%len(targets)]
			r := &httpgen.Req{Method: method, Target: target, Version: ver, Headers: withDecl(withConn(hs, cf, ix[2]%3), b.decl, ix[1]+ix[2]), Body: b.b, FramingFirst: ff}
			m := r.Build()
			m.Desc = fmt.Sprintf("xreq#%d %s %s %s hdrset=%d conn=%q body=%s framingFirst=%v", lin, method, target, ver, ix[2], []string(cf), b.name, ff)
			e.stream(m, false, "")
			p.Count("grammar_requests.cross", 1)
			if len(b.decl) > 0 && b.b.Kind != httpgen.BodyChunked {
				p.Count("grammar_requests.trailer_declared_on_non_chunked", 1)
				if sampled < 2 && b.b.Kind == httpgen.BodyCL {
					sampled++
					p.Sample(map[string]interface{}{"stream": string(m.B), "desc": m.Desc})
				}
			}
		})
	})

	// responses: full product
	hsRes := headerSets(true)
	status := []string{"200 OK", "404 Not Found", "204 No Content", "304 Not Modified", "201 Created", "500 Internal Server Error"}
	connRes := []connForm{nil, {" close"}, {" keep-alive"}, {" x, close"}}
	dimsR := []int{len(bodies), len(connRes), len(hsRes), 2, len(status), len(versions)}
	httpgen.Product(dimsR, 1, func(lin int, ix []int) {
		b, cf, hs, ff, st, ver := bodies[ix[0]], connRes[ix[1]], hsRes[ix[2]], ix[3] == 1, status[ix[4]], versions[ix[5]]
		noBody := strings.HasPrefix(st, "204") || strings.HasPrefix(st, "304")
		switch {
		case ver == "HTTP/1.0" && b.b.Kind == httpgen.BodyChunked:
			return
		case noBody && b.b.Kind != httpgen.BodyNone:
			return // a 204/304 carries no body and no framing headers
		case !noBody && b.b.Kind == httpgen.BodyNone:
			return // excluded: a response delimited by connection close
		}
		item(func() {
			r := &httpgen.Res{Version: ver, Status: st, Headers: withConn(hs, cf, ix[2]%3), Body: b.b, FramingFirst: ff}
			m := r.Build()
			m.Desc = fmt.Sprintf("res#%d %s %s hdrset=%d conn=%q body=%s framingFirst=%v", lin, ver, st, ix[2], []string(cf), b.name, ff)
			e.stream(m, true, "")
			p.Count("grammar_responses", 1)
		})
	})
	// responses: the cross forms
	dimsRX := []int{len(cross), len(connRes), len(hsRes), 2, len(versions)}
	httpgen.Product(dimsRX, 1, func(lin int, ix []int) {
		b, cf, hs, ff, ver := cross[ix[0]], connRes[ix[1]], hsRes[ix[2]], ix[3] == 1, versions[ix[4]]
		if ver == "HTTP/1.0" && b.b.Kind == httpgen.BodyChunked {
			return
		}
		item(func() {
			st := []string{"200 OK", "404 Not Found"}[ix[2]%2]
			if b.b.Kind == httpgen.BodyNone {
				st = []string{"204 No Content", "304 Not Modified"}[ix[2]%2]
			}
			r := &httpgen.Res{Version: ver, Status: st, Headers: withDecl(withConn(hs, cf, ix[2]%3), b.decl, ix[1]+ix[2]), Body: b.b, FramingFirst: ff}
			m := r.Build()
			m.Desc = fmt.Sprintf("xres#%d %s %s hdrset=%d conn=%q body=%s framingFirst=%v", lin, ver, st, ix[2], []string(cf), b.name, ff)
			e.stream(m, true, "")
			p.Count("grammar_responses.cross", 1)
			if len(b.decl) > 0 && b.b.Kind != httpgen.BodyChunked {
				p.Count("grammar_responses.trailer_declared_on_non_chunked", 1)
			}
		})
	})
	// responses: status-line spellings x one body form per framing class (+ trailers, + a Trailer
	// declaration on a non-chunked one) x Connection form x header set x position x version
	type statusForm struct {
		text     string
		bodiless bool
		outside  string
	}
	const noSP = "status-line-without-SP-behind-the-code"
	statusForms := []statusForm{
		{"200 ", false, ""}, {"200 2xx", false, ""}, {"200 2xx fine", false, ""}, {"200 (ok)", false, ""}, {"200 O.K.", false, ""},
		{"200 200", false, ""}, {"200  OK", false, ""}, {"200 OK ", false, ""}, {"200 a\tb", false, ""}, {"200 Very Good Indeed", false, ""},
		{"200 ok", false, ""}, {"299 -", false, ""}, {"404 ", false, ""},
		{"204 ", true, ""}, {"304 ", true, ""}, {"204 2xx none", true, ""}, {"304 (not) modified", true, ""},
		// net/http also accepts a status line that ends behind the code; RFC 7230 3.1.2 (and RFC
		// 9112 4) require the SP: outside the grammar of the property, observed only
		{"200", false, noSP}, {"204", true, noSP},
	}
	pick := func(list []bodyForm, names ...string) []bodyForm {
		var out []bodyForm
		for _, n := range names {
			for _, f := range list {
				if f.name == n {
					out = append(out, f)
				}
			}
		}
		if len(out) != len(names) {
			panic("c07: unknown body form in " + strings.Join(names, ","))
		}
		return out
	}
	stBodies := append(pick(bodies, "cl0", "cl3", "ch[]", "ch[3]", "ch[3]-t1"), pick(cross, "cl3+decl[A]")...)
	stNone := append(pick(bodies, "none"), pick(cross, "none+decl[A]")...)
	for si, sf := range statusForms {
		si, sf := si, sf
		bs := stBodies
		if sf.bodiless {
			bs = stNone
		}
		dimsS := []int{len(bs), len(connRes), len(hsRes), 2, len(versions)}
		httpgen.Product(dimsS, 1, func(lin int, ix []int) {
			b, cf, hs, ff, ver := bs[ix[0]], connRes[ix[1]], hsRes[ix[2]], ix[3] == 1, versions[ix[4]]
			if ver == "HTTP/1.0" && b.b.Kind == httpgen.BodyChunked {
				return
			}
			item(func() {
				r := &httpgen.Res{Version: ver, Status: sf.text, Headers: withDecl(withConn(hs, cf, ix[2]%3), b.decl, ix[1]+ix[2]), Body: b.b, FramingFirst: ff}
				m := r.Build()
				m.Desc = fmt.Sprintf("sres#%d.%d %s status-line=%q hdrset=%d conn=%q body=%s framingFirst=%v", si, lin, ver, ver+" "+sf.text, ix[2], []string(cf), b.name, ff)
				e.stream(m, true, sf.outside)
				p.Count("grammar_responses.status_line_spellings", 1)
			})
		})
	}

	// pipelines (1): all ordered pairs and triples of the original base set (larger bodies,
	// extensions, upper-case sizes)
	pickReq := func(method, target, ver string, hs []H, b string) *httpgen.Msg {
		m := (&httpgen.Req{Method: method, Target: target, Version: ver, Headers: hs, Body: pick(bodies, b)[0].b}).Build()
		m.Desc = method + " " + b
		return m
	}
	host := H{"Host", " h"}
	baseReq := []*httpgen.Msg{
		pickReq("GET", "/", "HTTP/1.1", []H{host}, "none"),
		pickReq("POST", "/a?b=c", "HTTP/1.1", []H{host, {"X-A", " a b"}}, "cl3"),
		pickReq("POST", "/", "HTTP/1.1", []H{host}, "cl0"),
		pickReq("PUT", "/", "HTTP/1.1", []H{host}, "cl300"),
		pickReq("POST", "/", "HTTP/1.1", []H{host}, "ch[3]"),
		pickReq("POST", "/", "HTTP/1.1", []H{host, {"X-Empty", ""}}, "ch[10,5]-ext-t2"),
		pickReq("POST", "/", "HTTP/1.1", []H{host}, "ch[]"),
		pickReq("POST", "/", "HTTP/1.1", []H{host}, "ch[300]-upper"),
		pickReq("GET", "/", "HTTP/1.0", []H{host, {"Connection", " keep-alive"}}, "none"),
		pickReq("POST", "/", "HTTP/1.1", []H{host}, "ch[3]-t1"),
	}
	pickRes := func(ver, st string, hs []H, b string) *httpgen.Msg {
		m := (&httpgen.Res{Version: ver, Status: st, Headers: hs, Body: pick(bodies, b)[0].b}).Build()
		m.Desc = st + " " + b
		return m
	}
	baseRes := []*httpgen.Msg{
		pickRes("HTTP/1.1", "204 No Content", nil, "none"),
		pickRes("HTTP/1.1", "200 OK", []H{{"X-A", " a b"}}, "cl3"),
		pickRes("HTTP/1.1", "200 OK", nil, "cl0"),
		pickRes("HTTP/1.1", "404 Not Found", nil, "cl300"),
		pickRes("HTTP/1.1", "200 OK", nil, "ch[3]"),
		pickRes("HTTP/1.1", "200 OK", []H{{"X-Empty", ""}}, "ch[10,5]-ext-t2"),
		pickRes("HTTP/1.1", "200 OK", nil, "ch[]"),
		pickRes("HTTP/1.1", "304 Not Modified", nil, "none"),
	}
	for _, set := range []struct {
		ms     []*httpgen.Msg
		client bool
	}{{baseReq, false}, {baseRes, true}} {
		set := set
		for _, a := range set.ms {
			for _, b := range set.ms {
				a, b := a, b
				item(func() { e.stream(httpgen.Pipeline(a, b), set.client, ""); p.Count("pipelines", 1) })
				for _, c := range set.ms {
					c := c
					item(func() { e.stream(httpgen.Pipeline(a, b, c), set.client, ""); p.Count("pipelines", 1) })
				}
			}
		}
	}

	// pipelines (2): state carried from one message to the next. All ordered pairs of the
	// representative set; all ordered triples of its core (quick) / of the whole set (thorough).
	for _, set := range []struct {
		reps   []rep
		client bool
		side   string
	}{{requestReps(), false, "requests"}, {responseReps(), true, "responses"}} {
		set := set
		// (predecessors that keep the connection open first: the stored witness of a signature is
		// the first case that showed it)
		for _, closing := range []bool{false, true} {
			for _, a := range set.reps {
				if a.closing != closing {
					continue
				}
				for _, b := range set.reps {
					a, b := a, b
					item(func() {
						e.stream(httpgen.Pipeline(a.m, b.m), set.client, "")
						p.Count("pipelines", 1)
						p.Count("pipeline_pairs."+set.side, 1)
						switch {
						case !a.chunked && a.decl > 0 && b.chunked:
							p.Count("pipeline_pairs.trailer_declared_on_non_chunked_then_chunked", 1)
							if sampled < 3 {
								sampled++
								pl := httpgen.Pipeline(a.m, b.m)
								p.Sample(map[string]interface{}{"stream": string(pl.B), "desc": pl.Desc})
							}
						case a.chunked && a.decl > 0 && b.chunked && b.decl != a.decl:
							p.Count("pipeline_pairs.chunked_with_trailers_then_chunked_with_other_or_no_trailers", 1)
						case a.chunked && !b.chunked:
							p.Count("pipeline_pairs.chunked_then_non_chunked", 1)
						}
						if a.closing {
							p.Count("pipeline_pairs.predecessor_ends_the_connection", 1)
						}
					})
				}
			}
		}
		for _, a := range set.reps {
			for _, b := range set.reps {
				if !thorough && !(a.core && b.core) {
					continue
				}
				a, b := a, b
				item(func() {
					for _, c := range set.reps {
						if !thorough && !c.core {
							continue
						}
						e.stream(httpgen.Pipeline(a.m, b.m, c.m), set.client, "")
						p.Count("pipelines", 1)
						p.Count("pipeline_triples."+set.side, 1)
					}
				})
			}
		}
	}
	// configured limit: Engine.MaxHTTPBodySize at exactly the largest body of the stream and one
	// above, for every body-carrying form alone (x Connection form x position x version) and in
	// all ordered pairs / triples of these forms plus a bodiless and an empty-body member
	lb, big := limitBodies()
	limConns := []connForm{nil, {" close"}, {" keep-alive"}}
	dimsL := []int{len(lb), len(limConns), 2, len(versions), 2}
	httpgen.Product(dimsL, 1, func(lin int, ix []int) {
		b, cf, ff, ver, client := lb[ix[0]], limConns[ix[1]], ix[2] == 1, versions[ix[3]], ix[4] == 1
		if ver == "HTTP/1.0" && b.b.Kind == httpgen.BodyChunked {
			return
		}
		item(func() {
			var m *httpgen.Msg
			if client {
				m = (&httpgen.Res{Version: ver, Status: "200 OK", Headers: withConn([]H{{"X-A", " v"}}, cf, ix[0]%2), Body: b.b, FramingFirst: ff}).Build()
			} else {
				m = (&httpgen.Req{Method: "POST", Target: "/", Version: ver, Headers: withConn([]H{{"Host", " h"}, {"X-A", " v"}}, cf, ix[0]%3), Body: b.b, FramingFirst: ff}).Build()
			}
			m.Desc = fmt.Sprintf("lim#%d client=%v %s conn=%q body=%s framingFirst=%v", lin, client, ver, []string(cf), b.name, ff)
			e.limited(m, client)
			p.Count("limit_single_messages", 1)
		})
	})
	for _, client := range []bool{false, true} {
		client := client
		type lrep struct {
			m   *httpgen.Msg
			big bool
		}
		var lreps []lrep
		for i, b := range append([]bodyForm{{name: "none", b: httpgen.Body{Kind: httpgen.BodyNone}}, {name: "cl0", b: httpgen.Body{Kind: httpgen.BodyCL, Data: []byte{}}}}, lb...) {
			var m *httpgen.Msg
			if client {
				st := "200 OK"
				if b.b.Kind == httpgen.BodyNone {
					st = "204 No Content"
				}
				m = (&httpgen.Res{Version: "HTTP/1.1", Status: st, Headers: []H{{"X-R", fmt.Sprintf(" l%d", i)}}, Body: b.b, FramingFirst: i%2 == 1}).Build()
			} else {
				m = (&httpgen.Req{Method: "POST", Target: fmt.Sprintf("/l%d", i), Version: "HTTP/1.1", Headers: []H{{"Host", " h"}, {"X-R", fmt.Sprintf(" l%d", i)}}, Body: b.b, FramingFirst: i%2 == 1}).Build()
			}
			m.Desc = fmt.Sprintf("l%d:%s", i, b.name)
			lreps = append(lreps, lrep{m, big[b.name]})
		}
		for _, a := range lreps {
			for _, b := range lreps {
				a, b := a, b
				item(func() {
					e.limited(httpgen.Pipeline(a.m, b.m), client)
					p.Count("limit_pipelines", 1)
					if a.big || b.big {
						return
					}
					for _, c := range lreps {
						if !c.big {
							e.limited(httpgen.Pipeline(a.m, b.m, c.m), client)
							p.Count("limit_pipelines", 1)
						}
					}
				})
			}
		}
	}
	// trailer sections that disagree with their announcement (and last-chunk extensions): every
	// form x Connection form x every third header set x position, requests and responses; then
	// every form with one chunk in front of and behind every core representative
	af := announceForms()
	var hsReq3, hsRes3 [][]H
	for i := 0; i < len(hsReq); i += 3 {
		hsReq3 = append(hsReq3, hsReq[i])
	}
	for i := 0; i < len(hsRes); i += 3 {
		hsRes3 = append(hsRes3, hsRes[i])
	}
	httpgen.Product([]int{len(af), len(connForms), len(hsReq3), 2}, 1, func(lin int, ix []int) {
		b, cf, hs, ff := af[ix[0]], connForms[ix[1]], hsReq3[ix[2]], ix[3] == 1
		item(func() {
			method, target := methods[ix[2]%len(methods)], targets[ix[1]%len(targets)]
			m := (&httpgen.Req{Method: method, Target: target, Version: "HTTP/1.1", Headers: withConn(hs, cf, ix[2]%3), Body: b.b, FramingFirst: ff}).Build()
			m.Desc = fmt.Sprintf("areq#%d %s %s hdrset=%d conn=%q body=%s framingFirst=%v", lin, method, target, ix[2]*3, []string(cf), b.name, ff)
			e.stream(m, false, "")
			p.Count("grammar_requests.trailer_announcement", 1)
		})
	})
	httpgen.Product([]int{len(af), len(connRes), len(hsRes3), 2}, 1, func(lin int, ix []int) {
		b, cf, hs, ff := af[ix[0]], connRes[ix[1]], hsRes3[ix[2]], ix[3] == 1
		item(func() {
			st := []string{"200 OK", "404 Not Found"}[ix[2]%2]
			m := (&httpgen.Res{Version: "HTTP/1.1", Status: st, Headers: withConn(hs, cf, ix[2]%3), Body: b.b, FramingFirst: ff}).Build()
			m.Desc = fmt.Sprintf("ares#%d %s hdrset=%d conn=%q body=%s framingFirst=%v", lin, st, ix[2]*3, []string(cf), b.name, ff)
			e.stream(m, true, "")
			p.Count("grammar_responses.trailer_announcement", 1)
		})
	})
	for _, set := range []struct {
		reps   []rep
		client bool
	}{{requestReps(), false}, {responseReps(), true}} {
		set := set
		for i, f := range af {
			if !strings.HasPrefix(f.name, "ch[3]-") {
				continue
			}
			var m *httpgen.Msg
			if set.client {
				m = (&httpgen.Res{Version: "HTTP/1.1", Status: "200 OK", Headers: []H{{"X-R", fmt.Sprintf(" a%d", i)}}, Body: f.b, FramingFirst: i%2 == 1}).Build()
			} else {
				m = (&httpgen.Req{Method: "POST", Target: fmt.Sprintf("/a%d", i), Version: "HTTP/1.1", Headers: []H{{"Host", " h"}, {"X-R", fmt.Sprintf(" a%d", i)}}, Body: f.b, FramingFirst: i%2 == 1}).Build()
			}
			m.Desc = fmt.Sprintf("a%d:%s", i, f.name)
			for _, r := range set.reps {
				if !r.core {
					continue
				}
				r := r
				item(func() {
					e.stream(httpgen.Pipeline(m, r.m), set.client, "")
					e.stream(httpgen.Pipeline(r.m, m), set.client, "")
					p.Count("pipelines", 2)
					p.Count("pipeline_pairs.trailer_announcement", 2)
				})
			}
		}
	}
	if skipped > 0 {
		p.Incompletef("wall-clock cap reached: %d work items of this shard were not enumerated", skipped)
	}
}

func replay(_ string, raw json.RawMessage) string {
	c, in, err := httpgen.ParseInput(raw)
	if err != nil {
		return "bad replay input: " + err.Error()
	}
	fmt.Printf("stream (%d bytes): %s\nevery=%d client=%v\n", len(c.Stream), in.Stream, c.Every, c.Client)
	fmt.Printf("Engine.MaxHTTPBodySize=%d\n", c.MaxBody)
	viol, refErr, gos, r := check(c.Stream, c.Client, c.Every, c.MaxBody)
	if refErr != nil {
		fmt.Println("reference rejects the stream:", refErr)
		return ""
	}
	fmt.Printf("net/http: %d message(s):", len(gos))
	for i := range gos {
		fmt.Printf(" [%d] %s ends at %d;", i, features(&gos[i]), gos[i].end)
	}
	fmt.Printf("\nnbhttp: verdict=%q\n%s", r.Verdict, r.Log)
	var out []string
	for _, v := range viol {
		fmt.Printf("MISMATCH %s: %s\n", v.sig, v.desc)
		out = append(out, v.sig+"|"+v.desc)
	}
	return strings.Join(out, "\n")
}

func main() {
	vkit.Main(&vkit.Spec{
		Property: "C07", Level: "model_checking",
		Rule: "one case = (well-formed byte stream, feed); the feed is one piece or byte-at-a-time; the stream is (a) one message of the grammar: full product of body/framing spelling x Connection form x header set x framing-header position x method x target x version (responses: x status); (b) one message of the cross forms - header features that are legal on every framing class, on the classes the base product lacks them: a Trailer declaration (one name, a list, two lines, lower case) on every bodiless / Content-Length form, a declaration written in front of Transfer-Encoding or over two lines on chunked forms, Transfer-Encoding spellings x {no chunk, trailers}, Content-Length spellings of an empty body - x Connection form x header set x position x version; (c) responses: 17 status-line spellings inside the RFC 7230 grammar (empty reason-phrase, several words, leading digit / punctuation, HTAB, surrounding SP) x one body form per framing class x Connection form x header set x position x version; (d) every ordered pair and triple of the 10 base requests / 8 base responses; (e) every ordered pair of the representative set - one representative per (framing class x body presence: bodiless, Content-Length 0 / 3, chunked without / with a chunk) x (trailer declaration: none, names A, names B-c + D; declared and sent on a chunked message, declared only on any other) x (Connection form / version: HTTP/1.1 absent / keep-alive / close / 'x, close', HTTP/1.0 absent / keep-alive), each with its own target and marker header; responses: + 15 status-line spellings - and every ordered triple of its core (no Connection header, HTTP/1.1; thorough: of the whole set); (f) the configured body limit: 14 body-carrying forms (Content-Length 1 / 3 / 300 / 1500, chunked with 1-3 chunks up to 1100 bytes, without and with trailers and extensions) alone (x Connection form x position x version, requests and responses) and in every ordered pair (triple: without the two forms above 1 KiB) of these forms plus a bodiless and an empty-body member, each run with Engine.MaxHTTPBodySize at exactly the largest body of the stream and at one above, and compared with the reference and with its own result without a limit; (g) chunked messages whose trailer section disagrees with its announcement: 8 shapes (1 / 2 fields without a Trailer header, 1 / 2 announced names and no field, announced A and sent B-c / A,B-c / B-c,A, announced A,B-c and sent A) and the exactly announced one, x last-chunk line without / with an extension x 0 / 1 / 2 chunks, x Connection form x every third header set x position, requests and responses, and every one-chunk form in front of and behind every core representative. The stream is parsed by net/http (reference) and by the real nbhttp parser + Server/ClientProcessor and every listed field of every message plus the message boundary offset is compared; a message with predecessors that disagrees is also parsed alone on a fresh parser and, when it agrees there, reported as carried state with the predecessors' features in the signature. A case is non-trivial when the reference saw a body, a trailer, a Connection header / close decision, or more than one message; streams the reference rejects are excluded and counted",
		Assumptions: []string{
			"reference: http.ReadRequest / http.ReadResponse (Go 1.23) in a loop over one bufio.Reader, body read to EOF so that trailers are populated; consumed bytes = stream length - unread bytes",
			"header multimap compared minus the framing headers net/http removes (Host, Transfer-Encoding, and on a chunked message Content-Length and Trailer, Connection once close has been recorded) and with values trimmed of SP/HT on both sides; on a non-chunked message net/http keeps Trailer as a plain header and it is compared like any other",
			"not compared, because the two differ by documented design: URL.Host (nbhttp copies Host into it), ContentLength for bodiless requests (nbhttp -1, net/http 0), Request.TransferEncoding, the words of a reason phrase behind the first (nbhttp keeps the first word; net/http's Status is '<code> <reason>', nbhttp's the reason alone: the first word is compared)",
			"excluded forms: absolute-form and authority-form targets, obs-fold, whitespace before the colon, HTTP/1.0 with Transfer-Encoding, bare LF, responses delimited by connection close, 204/304 with framing headers, Content-Length together with Transfer-Encoding, '+' signed lengths",
			"a trailer section that disagrees with its announcement (fields nobody announced, announced fields that do not arrive, other fields than the announced ones) is well-formed - RFC 7230 4.1.2 / 4.4: announcing is a SHOULD, the chunked grammar does not refer to it - and net/http accepts every such form (reference_rejected stays 0) and delivers the fields that were sent: judged. nbhttp takes the announcement as binding (ErrCRExpected in TailCR without one, the exported sentinel ErrTrailerExpected while an announced field is missing): recorded as open known findings (feature=unannounced-trailers / absent-announced-trailers / other-than-announced-trailers), not repaired",
			"a status line that ends behind the status code without the SP ('HTTP/1.1 200' CRLF) is accepted by net/http but is outside the RFC 7230 3.1.2 grammar: it is run and what nbhttp does is counted (outside_grammar[...]), not judged",
			"trailer fields: a field line with an empty value, with internal spaces, or repeated is well-formed (RFC 7230 3.2 / 4.1.2) and part of the compared space",
			"pipelines: the harness connection does not act on a close decision, so the parser is expected to go on with the messages behind one that ends the connection, as the reference's reader loop does (parser-level agreement on the message boundaries)",
			"configuration: Engine.MaxHTTPBodySize is 0 (no limit) except in part (f), where it sits at or one above the largest body of the stream: a limit that no message exceeds must not change the result (over-limit behaviour and Engine.ReadLimit are C08's subject); ReadLimit is nbhttp's default everywhere",
			"per-case allocator: httpgen's lite allocator (fresh per case, no recycling, freed memory poisoned, no call-site attribution); ownership violations belong to C11 and are only counted",
		},
		Seq: run, ReplaySeq: replay, MinNonTrivial: 1000,
	})
}

// C07: HTTP parsing agrees with Go's net/http on well-formed messages.
//
// Differential bounded-exhaustive enumeration: every message of a well-formed RFC 7230 grammar
// (widened in the value dimension: header values over visible ASCII with internal spaces, commas,
// colons, OWS; repeated and mixed-case names; Connection token lists; Content-Length and
// chunk-size spellings; chunk extensions; declared trailers with spaces / empty values /
// repeats) and all ordered pairs and triples of a base set as pipelines is parsed by
// http.ReadRequest / http.ReadResponse (the reference; body read to EOF so trailers are
// populated, consumed bytes measured) and by the real nbhttp.Parser + ServerProcessor /
// ClientProcessor (fed in one piece and byte-at-a-time). Compared per message: method,
// RequestURI, URL path + query, proto, Host, header multimap (minus the framing headers Go
// removes, values modulo optional whitespace), body bytes, trailer multimap, close decision /
// status code (+ single-word reason), and the message boundary offset.
//
// Deviations from DESIGN section 4 (C07): the quick tier is already the full product of the
// request grammar with three methods and three targets (the design estimated 3 000 messages; the
// product is cheap); thorough widens methods/targets. Messages the reference itself rejects are
// counted as "reference_rejected" and excluded (the property quantifies over forms on which both
// are documented to agree); the counter is expected to be 0.
//
// State carried from one message to the next on a connection (added after an independently
// seeded change was missed: a Trailer header on a non-chunked message that survived in the
// parser's framing-header map and was demanded from the next chunked message):
//   - header features that are legal on every framing class are generated on every framing class
//     (crossForms): a Trailer declaration on Content-Length-framed and bodiless messages (net/http
//     keeps it as a plain header), declarations spread over two Trailer lines, a declaration in
//     front of Transfer-Encoding, Transfer-Encoding and Content-Length spellings together with
//     trailers / with an empty body; Connection forms, repeated headers and empty values already
//     are a full product with every body form;
//   - pipelines: every ORDERED PAIR (quick) and every ordered triple (thorough; quick: triples of
//     the Connection-less core) of a representative set, one representative per (framing class x
//     body presence x trailer declaration {none, names A, names B-c+D; on a non-chunked message
//     declared only, on a chunked one declared and sent} x Connection form / version), every
//     representative with its own target and marker header, so that anything a predecessor leaves
//     behind shows up in a successor that differs from it;
//   - a successor that is rejected / not delivered / delivered differently although it parses
//     correctly on a fresh connection is reported with the framing features of its predecessors:
//     "pipeline-successor-rejected pred=content-length+trailer-declared succ=chunked verdict=...".
//
// Status lines (responses): every spelling net/http accepts that is inside the RFC 7230 grammar
// (empty reason-phrase with its SP, several words, a reason that starts with a digit or with
// punctuation, HTAB, surrounding spaces) on every framing class and in the pipelines. nbhttp keeps
// the first word of a reason-phrase (recorded design): the first word is compared.
//
// The per-case allocator is httpgen's lite allocator (same isolation as verif/track: fresh per
// case, no recycling, freed memory poisoned; no call-site attribution, which cost 80 % of the CPU
// time): ownership violations are C11's business and only counted here.
package main

import (
	"bufio"
	"bytes"
	"encoding/json"
	"fmt"
	"io"
	"net/http"
	"sort"
	"strings"
	"time"

	"verif/seqx/httpgen"
	"verif/track"
	"verif/vkit"
)

const scenario = "c07"

type H = httpgen.Hdr

// ---------------------------------------------------------------------------------------------
// grammar

func headerSets(client bool) [][]H {
	long := strings.Repeat("abcdefghijklmnopqrstuvwxyz0123456789-._~", 5)
	sets := [][]H{
		{},
		{{"X-A", " v"}},
		{{"x-a", " v"}},
		{{"X-A", " a b"}},
		{{"X-A", " a, b"}, {"X-A", " c"}},
		{{"x-a", " 1"}, {"X-A", " 2"}, {"X-a", " 3"}},
		{{"X-Empty", ""}},
		{{"X-Empty", ""}, {"X-After", " z"}},
		{{"X-Ows", "   v  "}},
		{{"X-Tab", "\tv\t"}},
		{{"X-Punct", " !#$%&'*+-.^_`|~;=\"q\"()<>@[]\\{}?/"}},
		{{"X-Colon", " a:b:c"}},
		{{"X-Sp", " 1 2  3   4"}},
		{{"ACCEPT-ENCODING", " gzip, deflate"}, {"content-type", " text/plain; charset=utf-8"}},
		{{"X-A", "v"}},
		{{"X-1", " 1"}, {"X-2", " 2"}, {"X-3", " 3"}, {"X-4", " 4"}, {"X-5", " 5"}},
		{{"!#$%&'*+-.^_`|~", " v"}},
		{{"X-Long", " " + long}},
		{{"Cookie", " a=1; b=2"}, {"Cookie", " c=3"}},
		{{"X-Mix", " v \t "}},
	}
	if client {
		return sets
	}
	// requests: Host variants
	out := make([][]H, 0, len(sets)+2)
	for i, s := range sets {
		host := H{"Host", " h"}
		if i%5 == 3 {
			host = H{"host", " h:8080"}
		}
		if i%2 == 0 {
			out = append(out, append([]H{host}, s...))
		} else {
			out = append(out, append(append([]H{}, s...), host))
		}
	}
	out = append(out, []H{{"X-A", " v"}}) // no Host at all
	return out
}

type connForm []string // values of the Connection header lines ("" list: absent)

var connForms = []connForm{
	nil, {" close"}, {" keep-alive"}, {" Keep-Alive"}, {" close, x"}, {" x, close"}, {" CLOSE"}, {" keep-alive, close"},
	{" keep-alive", " close"}, {" x"},
}

func tr(decl string, sent ...H) func(b httpgen.Body) httpgen.Body {
	return func(b httpgen.Body) httpgen.Body { b.Declared = decl; b.Trailers = sent; return b }
}

type bodyForm struct {
	name string
	b    httpgen.Body
	// decl: Trailer header lines written among the ordinary header lines (Body.Declared stays
	// empty), which is how a declaration gets onto a non-chunked message, in front of
	// Transfer-Encoding, or onto two lines.
	decl []H
}

func bodyForms() []bodyForm {
	P := httpgen.Payload
	ch := func(sizes ...int) httpgen.Body {
		b := httpgen.Body{Kind: httpgen.BodyChunked, Chunks: [][]byte{}}
		for i, n := range sizes {
			b.Chunks = append(b.Chunks, P(n, i+1))
		}
		return b
	}
	with := func(b httpgen.Body, f func(*httpgen.Body)) httpgen.Body { f(&b); return b }
	out := []bodyForm{
		{name: "none", b: httpgen.Body{Kind: httpgen.BodyNone}},
		{name: "cl0", b: httpgen.Body{Kind: httpgen.BodyCL, Data: []byte{}}},
		{name: "cl1", b: httpgen.Body{Kind: httpgen.BodyCL, Data: P(1, 0)}},
		{name: "cl3", b: httpgen.Body{Kind: httpgen.BodyCL, Data: P(3, 0)}},
		{name: "cl300", b: httpgen.Body{Kind: httpgen.BodyCL, Data: P(300, 0)}},
		{name: "cl3-nospace", b: httpgen.Body{Kind: httpgen.BodyCL, Data: P(3, 0), CLText: "3"}},
		{name: "cl3-trailing-sp", b: httpgen.Body{Kind: httpgen.BodyCL, Data: P(3, 0), CLText: " 3  "}},
		{name: "cl3-leading-zero", b: httpgen.Body{Kind: httpgen.BodyCL, Data: P(3, 0), CLText: " 03"}},
		{name: "ch[]", b: ch()},
		{name: "ch[1]", b: ch(1)},
		{name: "ch[3]", b: ch(3)},
		{name: "ch[10,5]", b: ch(10, 5)},
		{name: "ch[16]", b: ch(16)},
		{name: "ch[255,1]", b: ch(255, 1)},
		{name: "ch[300]", b: ch(300)},
		{name: "ch[255,1]-upper", b: with(ch(255, 1), func(b *httpgen.Body) { b.SizeFmt = 1 })},
		{name: "ch[300]-upper", b: with(ch(300), func(b *httpgen.Body) { b.SizeFmt = 1 })},
		{name: "ch[10,5]-zeros", b: with(ch(10, 5), func(b *httpgen.Body) { b.SizeFmt = 2 })},
		{name: "ch[3]-ext", b: with(ch(3), func(b *httpgen.Body) { b.Ext = ";x=y" })},
		{name: "ch[3,2]-extflag", b: with(ch(3, 2), func(b *httpgen.Body) { b.Ext = ";x" })},
		{name: "ch[3]-TE-Chunked", b: with(ch(3), func(b *httpgen.Body) { b.TEText = " Chunked" })},
		{name: "ch[3]-TE-nospace", b: with(ch(3), func(b *httpgen.Body) { b.TEText = "chunked" })},
	}
	trailers := []struct {
		name string
		f    func(httpgen.Body) httpgen.Body
	}{
		{name: "t1", f: tr("A", H{"A", " 1"})},
		{name: "t2", f: tr("A, B-c", H{"A", " 1"}, H{"B-c", " 22"})},
		{name: "t-space", f: tr("A", H{"A", " hello world"})},
		{name: "t-empty", f: tr("A", H{"A", ""})},
		{name: "t-ows", f: tr("A", H{"A", "  1  "})},
		{name: "t-repeat", f: tr("A", H{"A", " 1"}, H{"A", " 2"})},
		{name: "t-lower", f: tr("a", H{"a", " 1"})},
		{name: "t-decl-nospace", f: tr("A,B-c", H{"A", " 1"}, H{"B-c", " 22"})},
		{name: "t-comma", f: tr("A", H{"A", " x,y"})},
		{name: "t-reversed", f: tr("A, B-c", H{"B-c", " 22"}, H{"A", " 1"})},
		{name: "t-tab", f: tr("A", H{"A", "\tv"})},
		{name: "t-nospace", f: tr("A", H{"A", "v"})},
		{name: "t-empty-then-value", f: tr("A, B-c", H{"A", ""}, H{"B-c", " 2"})},
		{name: "t-space-2nd", f: tr("A, B-c", H{"A", " 1"}, H{"B-c", " x y z"})},
	}
	for _, t := range trailers {
		out = append(out, bodyForm{name: "ch[3]-" + t.name, b: t.f(ch(3))})
	}
	out = append(out, bodyForm{name: "ch[]-t1", b: tr("A", H{"A", " 1"})(ch())})
	out = append(out, bodyForm{name: "ch[10,5]-ext-t2", b: with(tr("A, B-c", H{"A", " 1"}, H{"B-c", " 22"})(ch(10, 5)), func(b *httpgen.Body) { b.Ext = ";x=y" })})
	return out
}

// crossForms are the header features that are legal on every framing class, on the classes (and
// in the combinations) the base product does not have: see the comment at the top.
func crossForms() []bodyForm {
	P := httpgen.Payload
	clb := func(n int, text string) httpgen.Body {
		return httpgen.Body{Kind: httpgen.BodyCL, Data: append([]byte{}, P(n, 0)...), CLText: text}
	}
	ch := func(sizes ...int) httpgen.Body {
		b := httpgen.Body{Kind: httpgen.BodyChunked, Chunks: [][]byte{}}
		for i, n := range sizes {
			b.Chunks = append(b.Chunks, P(n, i+1))
		}
		return b
	}
	var out []bodyForm
	// Content-Length spellings with an empty body
	cl0 := []bodyForm{
		{name: "cl0-nospace", b: clb(0, "0")},
		{name: "cl0-trailing-sp", b: clb(0, " 0  ")},
		{name: "cl0-leading-zero", b: clb(0, " 00")},
	}
	out = append(out, cl0...)
	// a Trailer declaration on every non-chunked form
	nonChunked := append([]bodyForm{
		{name: "none", b: httpgen.Body{Kind: httpgen.BodyNone}},
		{name: "cl0", b: clb(0, "")},
		{name: "cl1", b: clb(1, "")},
		{name: "cl3", b: clb(3, "")},
		{name: "cl300", b: clb(300, "")},
		{name: "cl3-nospace", b: clb(3, "3")},
		{name: "cl3-trailing-sp", b: clb(3, " 3  ")},
		{name: "cl3-leading-zero", b: clb(3, " 03")},
	}, cl0...)
	decls := []struct {
		name  string
		lines []H
	}{
		{"decl[A]", []H{{"Trailer", " A"}}},
		{"decl[A, B-c]", []H{{"Trailer", " A, B-c"}}},
		{"decl[A|B-c]", []H{{"Trailer", " A"}, {"Trailer", " B-c"}}},
		{"decl[a]-lower-nospace", []H{{"trailer", "a"}}},
	}
	for _, f := range nonChunked {
		for _, d := range decls {
			out = append(out, bodyForm{name: f.name + "+" + d.name, b: f.b, decl: d.lines})
		}
	}
	// chunked: the declaration as header lines (two lines; in front of Transfer-Encoding when the
	// framing headers come last), all declared fields sent
	sentAB := []H{{"A", " 1"}, {"B-c", " 22"}}
	for _, f := range []bodyForm{{name: "ch[]", b: ch()}, {name: "ch[3]", b: ch(3)}, {name: "ch[10,5]", b: ch(10, 5)}} {
		b := f.b
		b.Trailers = sentAB
		out = append(out, bodyForm{name: f.name + "+decl[A|B-c]-sent", b: b, decl: decls[2].lines})
		out = append(out, bodyForm{name: f.name + "+decl[A, B-c]-sent", b: b, decl: decls[1].lines})
	}
	// Transfer-Encoding spellings x {no chunk, trailers}
	for _, te := range []struct{ name, text string }{{"TE-Chunked", " Chunked"}, {"TE-nospace", "chunked"}, {"TE-UPPER", " CHUNKED"}, {"TE-ows", "  chunked \t"}} {
		b0, b1, b2 := ch(), tr("A", H{"A", " 1"})(ch(3)), ch(3)
		b0.TEText, b1.TEText, b2.TEText = te.text, te.text, te.text
		out = append(out, bodyForm{name: "ch[]-" + te.name, b: b0}, bodyForm{name: "ch[3]-t1-" + te.name, b: b1})
		if te.name == "TE-UPPER" || te.name == "TE-ows" {
			out = append(out, bodyForm{name: "ch[3]-" + te.name, b: b2})
		}
	}
	return out
}

// withDecl inserts Trailer header lines: the first one in front of or behind the first ordinary
// header (by k), the others at the end.
func withDecl(hs []H, decl []H, k int) []H {
	if len(decl) == 0 {
		return hs
	}
	at := k % 2
	if at > len(hs) {
		at = len(hs)
	}
	out := make([]H, 0, len(hs)+len(decl))
	out = append(out, hs[:at]...)
	out = append(out, decl[0])
	out = append(out, hs[at:]...)
	return append(out, decl[1:]...)
}

func withConn(hs []H, cf connForm, at int) []H {
	if len(cf) == 0 {
		return hs
	}
	out := make([]H, 0, len(hs)+len(cf))
	if at > len(hs) {
		at = len(hs)
	}
	out = append(out, hs[:at]...)
	for _, v := range cf {
		out = append(out, H{"Connection", v})
	}
	return append(out, hs[at:]...)
}

// ---------------------------------------------------------------------------------------------
// reference

type goMsg struct {
	req  *http.Request
	res  *http.Response
	body []byte
	end  int
}

func goParse(stream []byte, client bool) ([]goMsg, error) {
	rd := bytes.NewReader(stream)
	br := bufio.NewReader(rd)
	var out []goMsg
	for rd.Len()+br.Buffered() > 0 {
		var m goMsg
		var body io.ReadCloser
		if client {
			res, err := http.ReadResponse(br, &http.Request{Method: "GET"})
			if err != nil {
				return out, err
			}
			m.res, body = res, res.Body
		} else {
			req, err := http.ReadRequest(br)
			if err != nil {
				return out, err
			}
			m.req, body = req, req.Body
		}
		b, err := io.ReadAll(body)
		if err != nil {
			return out, err
		}
		_ = body.Close()
		m.body = b
		m.end = len(stream) - rd.Len() - br.Buffered()
		out = append(out, m)
	}
	return out, nil
}

// ---------------------------------------------------------------------------------------------
// comparison

func trimOWS(s string) string { return strings.Trim(s, " \t") }

// normHeader renders a multimap with OWS-trimmed values, skipping the given keys.
func normHeader(h http.Header, skip map[string]bool) string {
	keys := make([]string, 0, len(h))
	for k, v := range h {
		if !skip[k] && len(v) > 0 {
			keys = append(keys, k)
		}
	}
	sort.Strings(keys)
	var sb strings.Builder
	for _, k := range keys {
		fmt.Fprintf(&sb, "%q=[", k)
		for _, v := range h[k] {
			fmt.Fprintf(&sb, "%q,", trimOWS(v))
		}
		sb.WriteString("] ")
	}
	return sb.String()
}

type mismatch struct{ sig, desc string }

func hasCommaConn(h http.Header) bool {
	for _, v := range h["Connection"] {
		if strings.Contains(v, ",") {
			return true
		}
	}
	return false
}

func cmpTrailer(goT, nbT http.Header) *mismatch {
	a, b := normHeader(goT, nil), normHeader(nbT, nil)
	if a == b {
		return nil
	}
	// refine: is every differing value the reference value cut at its first space?
	trunc := false
	for k, gv := range goT {
		nv := nbT[k]
		if len(gv) != len(nv) {
			trunc = false
			break
		}
		for i := range gv {
			g, n := trimOWS(gv[i]), trimOWS(nv[i])
			if g == n {
				continue
			}
			if j := strings.IndexByte(g, ' '); j >= 0 && g[:j] == n {
				trunc = true
			} else {
				trunc = false
				break
			}
		}
	}
	if trunc {
		return &mismatch{"trailer-value-truncated-at-first-space", fmt.Sprintf("trailers: net/http %s, nbhttp %s", a, b)}
	}
	return &mismatch{"trailer-multimap-differs", fmt.Sprintf("trailers: net/http %s, nbhttp %s", a, b)}
}

func cmpRequest(g *goMsg, n *httpgen.ReqDump) []mismatch {
	var out []mismatch
	add := func(sig, f string, a ...interface{}) { out = append(out, mismatch{sig, fmt.Sprintf(f, a...)}) }
	r := g.req
	if r.Method != n.Method {
		add("request-method-differs", "method: net/http %q, nbhttp %q", r.Method, n.Method)
	}
	if r.RequestURI != n.RequestURI {
		add("request-target-differs", "RequestURI: net/http %q, nbhttp %q", r.RequestURI, n.RequestURI)
	}
	if r.URL.Path != n.Path || r.URL.RawQuery != n.RawQuery {
		add("request-url-differs", "URL path/query: net/http %q?%q, nbhttp %q?%q", r.URL.Path, r.URL.RawQuery, n.Path, n.RawQuery)
	}
	if r.ProtoMajor != n.Major || r.ProtoMinor != n.Minor || r.Proto != n.Proto {
		add("request-version-differs", "proto: net/http %q %d.%d, nbhttp %q %d.%d", r.Proto, r.ProtoMajor, r.ProtoMinor, n.Proto, n.Major, n.Minor)
	}
	if r.Host != n.Host {
		add("request-host-differs", "Host: net/http %q, nbhttp %q", r.Host, n.Host)
	}
	chunked := len(r.TransferEncoding) > 0
	skip := map[string]bool{"Host": true, "Transfer-Encoding": true, "Trailer": true}
	if chunked {
		skip["Content-Length"] = true
	}
	if _, ok := r.Header["Connection"]; !ok && r.Close {
		skip["Connection"] = true // net/http deletes "Connection" once it has recorded close
	}
	if a, b := normHeader(r.Header, skip), normHeader(n.Header, skip); a != b {
		add("request-header-multimap-differs", "headers: net/http %s, nbhttp %s", a, b)
	}
	if !bytes.Equal(g.body, n.Body) {
		add("request-body-differs", "body: net/http %d bytes %q, nbhttp %d bytes %q", len(g.body), clip(g.body), len(n.Body), clip(n.Body))
	}
	if m := cmpTrailer(r.Trailer, n.Trailer); m != nil {
		out = append(out, *m)
	}
	if r.Close != n.Close {
		sig := "close-decision-differs"
		if hasCommaConn(n.Header) {
			sig = "close-decision-ignores-connection-token-list"
		} else if len(n.Header["Connection"]) > 1 {
			sig = "close-decision-differs-with-repeated-connection-header"
		}
		add(sig, "Close: net/http %v, nbhttp %v; Connection=%q proto %d.%d", r.Close, n.Close, n.Header["Connection"], n.Major, n.Minor)
	}
	return out
}

func cmpResponse(g *goMsg, n *httpgen.ResDump) []mismatch {
	var out []mismatch
	add := func(sig, f string, a ...interface{}) { out = append(out, mismatch{sig, fmt.Sprintf(f, a...)}) }
	r := g.res
	if r.StatusCode != n.Code {
		add("response-status-code-differs", "status code: net/http %d, nbhttp %d", r.StatusCode, n.Code)
	}
	// reason phrase: compared only when it is a single word (nbhttp keeps the first word by design)
	if reason := strings.TrimPrefix(r.Status, fmt.Sprintf("%d ", r.StatusCode)); !strings.Contains(reason, " ") && reason != n.Status {
		add("response-reason-differs", "reason: net/http %q, nbhttp %q", reason, n.Status)
	}
	if r.ProtoMajor != n.Major || r.ProtoMinor != n.Minor || r.Proto != n.Proto {
		add("response-version-differs", "proto: net/http %q, nbhttp %q", r.Proto, n.Proto)
	}
	chunked := len(r.TransferEncoding) > 0
	skip := map[string]bool{"Transfer-Encoding": true, "Trailer": true}
	if chunked {
		skip["Content-Length"] = true
	}
	if _, ok := r.Header["Connection"]; !ok && r.Close {
		skip["Connection"] = true
	}
	if a, b := normHeader(r.Header, skip), normHeader(n.Header, skip); a != b {
		add("response-header-multimap-differs", "headers: net/http %s, nbhttp %s", a, b)
	}
	if !bytes.Equal(g.body, n.Body) {
		add("response-body-differs", "body: net/http %d bytes %q, nbhttp %d bytes %q", len(g.body), clip(g.body), len(n.Body), clip(n.Body))
	}
	if m := cmpTrailer(r.Trailer, n.Trailer); m != nil {
		out = append(out, *m)
	}
	return out
}

func clip(b []byte) string {
	if len(b) > 40 {
		return string(b[:40]) + "..."
	}
	return string(b)
}

// ---------------------------------------------------------------------------------------------
// evaluation of one stream

type evaluator struct{ p *vkit.Part }

type feedKind struct {
	name  string
	every int
}

var feeds = []feedKind{{"one-piece", 0}, {"byte-at-a-time", 1}}

// check runs the reference and nbhttp on one stream and returns the violations (also used by replay).
func check(stream []byte, client bool, every int) (viol []mismatch, refErr error, nmsgs int, res *httpgen.Result, nontrivial bool) {
	gos, gerr := goParse(stream, client)
	if gerr != nil {
		return nil, gerr, 0, nil, false
	}
	// non-trivial: the reference saw a body, a trailer, a Connection header or a pipeline, i.e.
	// something beyond a bare start line + plain headers had to be extracted identically
	nontrivial = len(gos) > 1
	for _, g := range gos {
		var h, t http.Header
		var cl bool
		if g.req != nil {
			h, t, cl = g.req.Header, g.req.Trailer, g.req.Close
		} else {
			h, t, cl = g.res.Header, g.res.Trailer, g.res.Close
		}
		if len(g.body) > 0 || len(t) > 0 || cl || len(h["Connection"]) > 0 {
			nontrivial = true
		}
	}
	c := &httpgen.Case{Stream: stream, Client: client, Mode: httpgen.Real, ReadLimit: -1, Policy: track.Pooled, Every: every, Lite: true}
	r := httpgen.Run(c, true)
	res = r
	if len(r.Panics) > 0 {
		viol = append(viol, mismatch{"panic-in-parse", r.Panics[0]})
	}
	got := len(r.Reqs)
	if client {
		got = len(r.Ress)
	}
	if r.Verdict != "" {
		// the message nbhttp failed on is the one after the last delivered; name the feature of
		// that message (as parsed by the reference) that known defects are tied to
		feature := "-"
		if got < len(gos) {
			var t http.Header
			if client {
				t = gos[got].res.Trailer
			} else {
				t = gos[got].req.Trailer
			}
			for _, v := range t {
				if len(v) > 1 {
					feature = "repeated-trailer-field"
				}
				for _, x := range v {
					if x == "" && feature == "-" {
						feature = "empty-trailer-value"
					}
				}
			}
		}
		viol = append(viol, mismatch{fmt.Sprintf("rejects-wellformed verdict=%s state=%s feature=%s", httpgen.ErrKind(r.Verdict), httpgen.StateName(r.ErrState), feature),
			fmt.Sprintf("net/http parses %d message(s) without error; nbhttp returns %q at offset <= %d (parser state %s) in message %d", len(gos), r.Verdict, r.ErrOffset, httpgen.StateName(r.ErrState), got)})
	}
	if got != len(gos) && r.Verdict == "" {
		viol = append(viol, mismatch{"message-count-differs", fmt.Sprintf("net/http delivered %d messages, nbhttp %d", len(gos), got)})
	}
	for i := 0; i < got && i < len(gos); i++ {
		var ms []mismatch
		at := 0
		if client {
			ms = cmpResponse(&gos[i], r.Ress[i])
			at = r.Ress[i].At
		} else {
			ms = cmpRequest(&gos[i], r.Reqs[i])
			at = r.Reqs[i].At
		}
		for _, m := range ms {
			m.desc = fmt.Sprintf("message %d: %s", i, m.desc)
			viol = append(viol, m)
		}
		if every == 1 && at != gos[i].end {
			viol = append(viol, mismatch{"message-boundary-offset-differs", fmt.Sprintf("message %d: net/http consumed %d bytes, nbhttp completed the message after %d bytes", i, gos[i].end, at)})
		}
	}
	return viol, nil, len(gos), r, nontrivial
}

func (e *evaluator) stream(m *httpgen.Msg, client bool) {
	p := e.p
	p.Count("streams", 1)
	for _, fk := range feeds {
		viol, refErr, nmsgs, r, nontrivial := check(m.B, client, fk.every)
		if refErr != nil {
			p.Count("reference_rejected", 1)
			p.Count("reference_rejected: "+refErr.Error(), 1)
			return
		}
		p.Case(nontrivial, 1, r.Feeds)
		p.Count("cases."+fk.name, 1)
		p.Count("messages_compared", nmsgs)
		if len(r.TrackViol) > 0 {
			p.Count("cases_with_ownership_violation(C11)", 1)
		}
		for _, v := range viol {
			c := &httpgen.Case{Stream: m.B, Client: client, Mode: httpgen.Real, ReadLimit: -1, Policy: track.Pooled, Every: fk.every}
			p.Report(v.sig, v.desc+" | feed: "+fk.name+" | stream: "+m.Desc, scenario, c.Input(m.Desc))
		}
		if len(viol) == 0 {
			p.Outcome("agree")
		} else {
			p.Outcome("differ")
		}
	}
}

// ---------------------------------------------------------------------------------------------
// enumeration

func run(tier string, sh *vkit.Shard, p *vkit.Part) {
	httpgen.StartWatchdog(p, scenario, 30*time.Second)
	thorough := tier == "thorough"
	deadline := vkit.Deadline(tier, 70*time.Second, 17*time.Minute)
	e := &evaluator{p: p}
	skipped := 0
	item := func(f func()) {
		if !sh.Mine() {
			return
		}
		if time.Now().After(deadline) {
			skipped++
			return
		}
		f()
	}
	methods := []string{"GET", "POST", "PUT"}
	targets := []string{"/", "/a/b%20c?x=1&y=2", "*"}
	if thorough {
		methods = []string{"GET", "POST", "PUT", "DELETE", "OPTIONS", "PATCH", "HEAD"}
		targets = []string{"/", "/a?b=c", "/a/b%20c?x=1&y=2", "*", "/?", "/a;p=1", "/%41?q=%20"}
	}
	versions := []string{"HTTP/1.1", "HTTP/1.0"}
	bodies := bodyForms()
	sampled := 0

	// requests: full product
	hsReq := headerSets(false)
	dims := []int{len(bodies), len(connForms), len(hsReq), 2, len(methods), len(targets), len(versions)}
	httpgen.Product(dims, 1, func(lin int, ix []int) {
		b, cf, hs, ff, method, target, ver := bodies[ix[0]], connForms[ix[1]], hsReq[ix[2]], ix[3] == 1, methods[ix[4]], targets[ix[5]], versions[ix[6]]
		if ver == "HTTP/1.0" && b.b.Kind == httpgen.BodyChunked {
			return // excluded form: HTTP/1.0 with Transfer-Encoding
		}
		item(func() {
			r := &httpgen.Req{Method: method, Target: target, Version: ver, Headers: withConn(hs, cf, ix[2]%3), Body: b.b, FramingFirst: ff}
			m := r.Build()
			m.Desc = fmt.Sprintf("req#%d %s %s %s hdrset=%d conn=%q body=%s framingFirst=%v", lin, method, target, ver, ix[2], []string(cf), b.name, ff)
			e.stream(m, false)
			p.Count("grammar_requests", 1)
			if sampled < 3 && b.b.Kind == httpgen.BodyChunked && len(b.b.Trailers) > 0 && len(cf) > 0 {
				sampled++
				p.Sample(map[string]interface{}{"stream": string(m.B), "desc": m.Desc})
			}
		})
	})

	// responses: full product
	hsRes := headerSets(true)
	status := []string{"200 OK", "404 Not Found", "204 No Content", "304 Not Modified", "201 Created", "500 Internal Server Error"}
	connRes := []connForm{nil, {" close"}, {" keep-alive"}, {" x, close"}}
	dimsR := []int{len(bodies), len(connRes), len(hsRes), 2, len(status), len(versions)}
	httpgen.Product(dimsR, 1, func(lin int, ix []int) {
		b, cf, hs, ff, st, ver := bodies[ix[0]], connRes[ix[1]], hsRes[ix[2]], ix[3] == 1, status[ix[4]], versions[ix[5]]
		noBody := strings.HasPrefix(st, "204") || strings.HasPrefix(st, "304")
		switch {
		case ver == "HTTP/1.0" && b.b.Kind == httpgen.BodyChunked:
			return
		case noBody && b.b.Kind != httpgen.BodyNone:
			return // a 204/304 carries no body and no framing headers
		case !noBody && b.b.Kind == httpgen.BodyNone:
			return // excluded: a response delimited by connection close
		}
		item(func() {
			r := &httpgen.Res{Version: ver, Status: st, Headers: withConn(hs, cf, ix[2]%3), Body: b.b, FramingFirst: ff}
			m := r.Build()
			m.Desc = fmt.Sprintf("res#%d %s %s hdrset=%d conn=%q body=%s framingFirst=%v", lin, ver, st, ix[2], []string(cf), b.name, ff)
			e.stream(m, true)
			p.Count("grammar_responses", 1)
		})
	})

	// pipelines: all ordered pairs and triples of a base set
	pickReq := func(method, target, ver string, hs []H, b string) *httpgen.Msg {
		var body httpgen.Body
		for _, bf := range bodies {
			if bf.name == b {
				body = bf.b
			}
		}
		m := (&httpgen.Req{Method: method, Target: target, Version: ver, Headers: hs, Body: body}).Build()
		m.Desc = method + " " + b
		return m
	}
	host := H{"Host", " h"}
	baseReq := []*httpgen.Msg{
		pickReq("GET", "/", "HTTP/1.1", []H{host}, "none"),
		pickReq("POST", "/a?b=c", "HTTP/1.1", []H{host, {"X-A", " a b"}}, "cl3"),
		pickReq("POST", "/", "HTTP/1.1", []H{host}, "cl0"),
		pickReq("PUT", "/", "HTTP/1.1", []H{host}, "cl300"),
		pickReq("POST", "/", "HTTP/1.1", []H{host}, "ch[3]"),
		pickReq("POST", "/", "HTTP/1.1", []H{host, {"X-Empty", ""}}, "ch[10,5]-ext-t2"),
		pickReq("POST", "/", "HTTP/1.1", []H{host}, "ch[]"),
		pickReq("POST", "/", "HTTP/1.1", []H{host}, "ch[300]-upper"),
		pickReq("GET", "/", "HTTP/1.0", []H{host, {"Connection", " keep-alive"}}, "none"),
		pickReq("POST", "/", "HTTP/1.1", []H{host}, "ch[3]-t1"),
	}
	pickRes := func(ver, st string, hs []H, b string) *httpgen.Msg {
		var body httpgen.Body
		for _, bf := range bodies {
			if bf.name == b {
				body = bf.b
			}
		}
		m := (&httpgen.Res{Version: ver, Status: st, Headers: hs, Body: body}).Build()
		m.Desc = st + " " + b
		return m
	}
	baseRes := []*httpgen.Msg{
		pickRes("HTTP/1.1", "204 No Content", nil, "none"),
		pickRes("HTTP/1.1", "200 OK", []H{{"X-A", " a b"}}, "cl3"),
		pickRes("HTTP/1.1", "200 OK", nil, "cl0"),
		pickRes("HTTP/1.1", "404 Not Found", nil, "cl300"),
		pickRes("HTTP/1.1", "200 OK", nil, "ch[3]"),
		pickRes("HTTP/1.1", "200 OK", []H{{"X-Empty", ""}}, "ch[10,5]-ext-t2"),
		pickRes("HTTP/1.1", "200 OK", nil, "ch[]"),
		pickRes("HTTP/1.1", "304 Not Modified", nil, "none"),
	}
	for _, set := range []struct {
		ms     []*httpgen.Msg
		client bool
	}{{baseReq, false}, {baseRes, true}} {
		set := set
		for _, a := range set.ms {
			for _, b := range set.ms {
				a, b := a, b
				item(func() { e.stream(httpgen.Pipeline(a, b), set.client); p.Count("pipelines", 1) })
				for _, c := range set.ms {
					c := c
					item(func() { e.stream(httpgen.Pipeline(a, b, c), set.client); p.Count("pipelines", 1) })
				}
			}
		}
	}
	if skipped > 0 {
		p.Incompletef("wall-clock cap reached: %d work items of this shard were not enumerated", skipped)
	}
}

func replay(_ string, raw json.RawMessage) string {
	c, in, err := httpgen.ParseInput(raw)
	if err != nil {
		return "bad replay input: " + err.Error()
	}
	fmt.Printf("stream (%d bytes): %s\nevery=%d client=%v\n", len(c.Stream), in.Stream, c.Every, c.Client)
	viol, refErr, n, r, _ := check(c.Stream, c.Client, c.Every)
	if refErr != nil {
		fmt.Println("reference rejects the stream:", refErr)
		return ""
	}
	fmt.Printf("net/http: %d message(s)\nnbhttp: verdict=%q\n%s", n, r.Verdict, r.Log)
	var out []string
	for _, v := range viol {
		fmt.Printf("MISMATCH %s: %s\n", v.sig, v.desc)
		out = append(out, v.sig+"|"+v.desc)
	}
	return strings.Join(out, "\n")
}

func main() {
	vkit.Main(&vkit.Spec{
		Property: "C07", Level: "model_checking",
		Rule: "one case = (well-formed byte stream, feed) where the stream is one message of the grammar (full product of body/framing spelling x Connection form x header set x framing-header position x method x target x version; responses: x status) or an ordered pair/triple of 10 base requests / 8 base responses, and the feed is one piece or byte-at-a-time; the stream is parsed by net/http (reference) and by the real nbhttp parser + Server/ClientProcessor and every listed field of every message plus the message boundary offset is compared; a case is non-trivial when the reference saw a body, a trailer, a Connection header / close decision, or more than one message; streams the reference rejects are excluded and counted",
		Assumptions: []string{
			"reference: http.ReadRequest / http.ReadResponse (Go 1.23) over a bufio.Reader, body read to EOF so that trailers are populated; consumed bytes = stream length - unread bytes",
			"header multimap compared minus the framing headers net/http removes (Host, Transfer-Encoding, Trailer, Content-Length when chunked, Connection once close has been recorded) and with values trimmed of SP/HT on both sides",
			"not compared, because the two differ by documented design: URL.Host (nbhttp copies Host into it), ContentLength for bodiless requests (nbhttp -1, net/http 0), multi-word reason phrases (nbhttp keeps the first word), Request.TransferEncoding",
			"excluded forms: absolute-form and authority-form targets, obs-fold, whitespace before the colon, HTTP/1.0 with Transfer-Encoding, bare LF, responses delimited by connection close, 204/304 with framing headers, Content-Length together with Transfer-Encoding, '+' signed lengths, trailers that are declared but not sent or sent but not declared",
			"trailer fields: a field line with an empty value, with internal spaces, or repeated is well-formed (RFC 7230 3.2 / 4.1.2) and part of the compared space",
		},
		Seq: run, ReplaySeq: replay, MinNonTrivial: 1000,
	})
}

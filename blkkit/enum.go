//go:build verif

package blkkit

import (
	"encoding/json"
	"flag"
	"fmt"
	"os"
	"path/filepath"
	"sort"
	"strings"
	"sync/atomic"
	"syscall"
	"time"

	"verif/vkit"
)

// Histories enumerates every event sequence of length <= depth over `alphabet` (actions other
// than the opening one) on at most maxConns connections. Connections are opened in index order
// by the opening action ("open", or e.g. "wsopen" when given); an action is offered only when it
// is enabled in the connection's state (Enabled / After); a closed connection's index is not
// reused. The empty history is included.
func Histories(depth, maxConns int, alphabet []string, openAct ...string) [][]Ev {
	opener := "open"
	if len(openAct) > 0 {
		opener = openAct[0]
	}
	var out [][]Ev
	state := make([]string, maxConns)
	var cur []Ev
	var rec func()
	rec = func() {
		out = append(out, append([]Ev(nil), cur...))
		if len(cur) == depth {
			return
		}
		for i := 0; i < maxConns; i++ {
			if state[i] == "" {
				if i == 0 || state[i-1] != "" {
					state[i] = After("", opener)
					cur = append(cur, Ev{i, opener})
					rec()
					cur = cur[:len(cur)-1]
					state[i] = ""
				}
				continue
			}
			for _, a := range alphabet {
				if !Enabled(state[i], a) {
					continue
				}
				old := state[i]
				state[i] = After(old, a)
				cur = append(cur, Ev{i, a})
				rec()
				cur = cur[:len(cur)-1]
				state[i] = old
			}
		}
	}
	rec()
	return out
}

// Conns is the number of connections a history uses.
func Conns(h []Ev) int {
	n := 0
	for _, e := range h {
		if e.C+1 > n {
			n = e.C + 1
		}
	}
	return n
}

// Has reports whether the history contains one of the actions.
func Has(h []Ev, actions ...string) bool {
	for _, e := range h {
		for _, a := range actions {
			if e.A == a {
				return true
			}
		}
	}
	return false
}

// Driver runs cases for a check and books the results.
type Driver struct {
	Part     *vkit.Part
	Shard    *vkit.Shard
	Class    string // which anomalies are this check's violations: "c18" or "c10"
	Property string // C18 / C10: open known findings of the property do not count as violating cases
	Scenario string // scenario name stored in replay files
	Caps     Caps
	// MaxViolating: a worker stops its enumeration after this many violating cases (each costs
	// up to the generous caps); the run is then marked incomplete - it fails anyway.
	MaxViolating int
	violating    int
	stopped      bool
	known        map[string]bool
	spent        time.Duration
	ncases       int
	item         int
	claimDir     string
	claimInit    bool
	cpu0         time.Duration
	parked0      int64
}

func cpuNow() time.Duration {
	var ru syscall.Rusage
	if syscall.Getrusage(syscall.RUSAGE_SELF, &ru) != nil {
		return 0
	}
	return time.Duration(ru.Utime.Nano() + ru.Stime.Nano())
}

// mine decides whether this worker runs work item k. The items are NOT dealt out round-robin
// like the scheduled scenarios: the workers of a run take them one by one from a common list
// (an exclusive file creation per item in the run's scratch directory), so a worker that is
// still busy with its share of scheduled scenarios takes few or none and does not become the
// long pole of the check. This changes only who runs what: every item is run by exactly one
// worker. Without a run directory (single process, replay) the shard selector decides.
func (d *Driver) mine(k int) bool {
	if !d.claimInit {
		d.claimInit = true
		d.cpu0 = cpuNow()
		d.parked0 = atomic.LoadInt64(&ParkedNominal)
		if f := flag.Lookup("out"); f != nil && f.Value.String() != "" && d.Shard.N > 1 {
			d.claimDir = filepath.Dir(f.Value.String())
		}
	}
	if d.claimDir == "" {
		return d.Shard.N <= 1 || k%d.Shard.N == d.Shard.I
	}
	f, err := os.OpenFile(filepath.Join(d.claimDir, fmt.Sprintf("blk-%s-%d.claim", d.Property, k)), os.O_CREATE|os.O_EXCL|os.O_WRONLY, 0o644)
	if err != nil {
		return false
	}
	_ = f.Close()
	return true
}

// Finish books the time this worker spent in the part (summed over the workers in the evidence).
func (d *Driver) Finish() {
	d.Part.Count("part_worker_milliseconds_total", int(d.spent.Milliseconds()))
	if d.claimInit {
		d.Part.Count("part_cpu_milliseconds_total", int((cpuNow() - d.cpu0).Milliseconds()))
	}
	d.Part.Count("part_parked_nominal_milliseconds_total", int((atomic.LoadInt64(&ParkedNominal)-d.parked0)/1e6))
	d.Part.Count("waits_that_hit_the_cap", 0)
	d.Part.Count("histories_with_transfer", 0)
	if os.Getenv("VERIF_TIMING") != "" {
		fmt.Fprintf(os.Stderr, "BLK-PART shard %d/%d: %d cases in %.1fs wall, %.1fs cpu, %.1fs nominal sleep\n", d.Shard.I, d.Shard.N, d.ncases, d.spent.Seconds(), (cpuNow() - d.cpu0).Seconds(), float64(atomic.LoadInt64(&ParkedNominal)-d.parked0)/1e9)
	}
}

// Do runs the case if it belongs to this shard.
func (d *Driver) Do(c Case) {
	k := d.item
	d.item++
	if d.stopped || !d.mine(k) {
		return
	}
	p := d.Part
	if d.known == nil {
		d.known = map[string]bool{}
		for _, k := range vkit.LoadKnown() {
			if k.Property == d.Property && k.Status == "open" {
				d.known[k.Signature] = true
			}
		}
	}
	p.SetCurrent(d.Scenario, c)
	t0 := time.Now()
	var r *Result
	func() {
		defer func() {
			if e := recover(); e != nil {
				p.Errorf("harness panic in case %s: %v", c, e)
				r = &Result{Counters: map[string]int{}}
			}
		}()
		r = Run(c, d.Caps)
	}()
	d.spent += time.Since(t0)
	d.ncases++
	mine := r.Of(d.Class)
	for _, o := range mine {
		p.Report(o.Sig, fmt.Sprintf("case %s: %s", c, o.Desc), d.Scenario, c)
	}
	for _, o := range r.Obs {
		if o.Class != d.Class {
			p.Count("anomalies_of_other_subjects_"+o.Class, 1)
			p.Outcome("other-subject: " + o.Sig)
		}
	}
	for k, v := range r.Counters {
		p.Count(k, v)
	}
	p.Count("histories_mode_"+c.Cfg.Mode, 1)
	p.Count("histories_ending_"+c.End, 1)
	if r.Counters["transfers"] > 0 {
		p.Count("histories_with_transfer", 1)
	}
	if c.Cfg.TCP {
		p.Count("histories_with_relabelled_tcpconn", 1)
	}
	p.Count(fmt.Sprintf("histories_depth_%d", len(c.Hist)), 1)
	if len(r.CapHits) > 0 {
		p.Count("waits_that_hit_the_cap", len(r.CapHits))
		p.Incompletef("%s: harness wait hit its cap: %s", c, strings.Join(r.CapHits, "; "))
	}
	fresh := ""
	for _, o := range mine {
		if !d.known[o.Sig] {
			fresh = o.Sig
			break
		}
	}
	if len(mine) > 0 && fresh == "" {
		p.Count("histories_showing_only_known_findings", 1)
	}
	if fresh == "" {
		p.Outcome(outcomeOf(c, r))
	} else {
		p.Outcome("violation: " + fresh)
		d.violating++
		if d.MaxViolating > 0 && d.violating >= d.MaxViolating {
			d.stopped = true
			p.Incompletef("worker stopped enumerating after %d violating cases", d.violating)
		}
	}
	p.Sample(map[string]interface{}{"case": c.String(), "steps": r.Counters["steps"], "responses": r.Counters["responses"]})
	p.Case(len(c.Hist) > 0, 1+r.Counters["steps"], r.Counters["steps"]+1)
}

func outcomeOf(c Case, r *Result) string {
	keys := []string{}
	for _, k := range []string{"responses", "ws_upgrades", "ws_echoes", "transfers", "ws_close_replies"} {
		if r.Counters[k] > 0 {
			keys = append(keys, fmt.Sprintf("%s=%d", k, r.Counters[k]))
		}
	}
	sort.Strings(keys)
	return fmt.Sprintf("ok %s %s", c.End, strings.Join(keys, " "))
}

// Replay re-runs one stored case; it returns "" or "signature|description".
func Replay(class string, input json.RawMessage, caps Caps) string {
	var c Case
	if err := json.Unmarshal(input, &c); err != nil {
		return "bad-input|" + err.Error()
	}
	r := Run(c, caps)
	for _, l := range r.Trace {
		fmt.Println("  ", l)
	}
	for _, h := range r.CapHits {
		fmt.Println("   cap hit:", h)
	}
	if m := r.Of(class); len(m) > 0 {
		return m[0].Sig + "|" + m[0].Desc
	}
	return ""
}

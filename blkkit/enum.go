//go:build verif

package blkkit

import (
	"encoding/json"
	"fmt"
	"os"
	"sort"
	"strings"
	"time"

	"verif/vkit"
)

// Histories enumerates every event sequence of length <= depth over `alphabet` (actions other
// than "open") on at most maxConns connections. Connections are opened in index order; an action
// is offered only when it is enabled in the connection's state (Enabled / After); a closed
// connection's index is not reused. The empty history is included.
func Histories(depth, maxConns int, alphabet []string) [][]Ev {
	var out [][]Ev
	state := make([]string, maxConns)
	var cur []Ev
	var rec func()
	rec = func() {
		out = append(out, append([]Ev(nil), cur...))
		if len(cur) == depth {
			return
		}
		for i := 0; i < maxConns; i++ {
			if state[i] == "" {
				if i == 0 || state[i-1] != "" {
					state[i] = After("", "open")
					cur = append(cur, Ev{i, "open"})
					rec()
					cur = cur[:len(cur)-1]
					state[i] = ""
				}
				continue
			}
			for _, a := range alphabet {
				if !Enabled(state[i], a) {
					continue
				}
				old := state[i]
				state[i] = After(old, a)
				cur = append(cur, Ev{i, a})
				rec()
				cur = cur[:len(cur)-1]
				state[i] = old
			}
		}
	}
	rec()
	return out
}

// Has reports whether the history contains one of the actions.
func Has(h []Ev, actions ...string) bool {
	for _, e := range h {
		for _, a := range actions {
			if e.A == a {
				return true
			}
		}
	}
	return false
}

// Driver runs cases for a check and books the results.
type Driver struct {
	Part     *vkit.Part
	Shard    *vkit.Shard
	Class    string // which anomalies are this check's violations: "c18" or "c10"
	Property string // C18 / C10: open known findings of the property do not count as violating cases
	Scenario string // scenario name stored in replay files
	Caps     Caps
	// MaxViolating: a worker stops its enumeration after this many violating cases (each costs
	// up to the generous caps); the run is then marked incomplete - it fails anyway.
	MaxViolating int
	violating    int
	stopped      bool
	known        map[string]bool
	spent        time.Duration
	ncases       int
}

// Finish books the time this worker spent in the part (summed over the workers in the evidence).
func (d *Driver) Finish() {
	d.Part.Count("part_worker_milliseconds_total", int(d.spent.Milliseconds()))
	d.Part.Count("waits_that_hit_the_cap", 0)
	d.Part.Count("histories_with_transfer", 0)
	if os.Getenv("VERIF_TIMING") != "" {
		fmt.Fprintf(os.Stderr, "BLK-PART shard %d/%d: %d cases in %.1fs\n", d.Shard.I, d.Shard.N, d.ncases, d.spent.Seconds())
	}
}

// Do runs the case if it belongs to this shard.
func (d *Driver) Do(c Case) {
	if !d.Shard.Mine() || d.stopped {
		return
	}
	p := d.Part
	if d.known == nil {
		d.known = map[string]bool{}
		for _, k := range vkit.LoadKnown() {
			if k.Property == d.Property && k.Status == "open" {
				d.known[k.Signature] = true
			}
		}
	}
	p.SetCurrent(d.Scenario, c)
	t0 := time.Now()
	var r *Result
	func() {
		defer func() {
			if e := recover(); e != nil {
				p.Errorf("harness panic in case %s: %v", c, e)
				r = &Result{Counters: map[string]int{}}
			}
		}()
		r = Run(c, d.Caps)
	}()
	d.spent += time.Since(t0)
	d.ncases++
	mine := r.Of(d.Class)
	for _, o := range mine {
		p.Report(o.Sig, fmt.Sprintf("case %s: %s", c, o.Desc), d.Scenario, c)
	}
	for _, o := range r.Obs {
		if o.Class != d.Class {
			p.Count("anomalies_of_other_subjects_"+o.Class, 1)
			p.Outcome("other-subject: " + o.Sig)
		}
	}
	for k, v := range r.Counters {
		p.Count(k, v)
	}
	p.Count("histories_mode_"+c.Cfg.Mode, 1)
	p.Count("histories_ending_"+c.End, 1)
	if r.Counters["transfers"] > 0 {
		p.Count("histories_with_transfer", 1)
	}
	if c.Cfg.TCP {
		p.Count("histories_with_relabelled_tcpconn", 1)
	}
	p.Count(fmt.Sprintf("histories_depth_%d", len(c.Hist)), 1)
	if len(r.CapHits) > 0 {
		p.Count("waits_that_hit_the_cap", len(r.CapHits))
		p.Incompletef("%s: harness wait hit its cap: %s", c, strings.Join(r.CapHits, "; "))
	}
	fresh := ""
	for _, o := range mine {
		if !d.known[o.Sig] {
			fresh = o.Sig
			break
		}
	}
	if len(mine) > 0 && fresh == "" {
		p.Count("histories_showing_only_known_findings", 1)
	}
	if fresh == "" {
		p.Outcome(outcomeOf(c, r))
	} else {
		p.Outcome("violation: " + fresh)
		d.violating++
		if d.MaxViolating > 0 && d.violating >= d.MaxViolating {
			d.stopped = true
			p.Incompletef("worker stopped enumerating after %d violating cases", d.violating)
		}
	}
	p.Sample(map[string]interface{}{"case": c.String(), "steps": r.Counters["steps"], "responses": r.Counters["responses"]})
	p.Case(len(c.Hist) > 0, 1+r.Counters["steps"], r.Counters["steps"]+1)
}

func outcomeOf(c Case, r *Result) string {
	keys := []string{}
	for _, k := range []string{"responses", "ws_upgrades", "ws_echoes", "transfers", "ws_close_replies"} {
		if r.Counters[k] > 0 {
			keys = append(keys, fmt.Sprintf("%s=%d", k, r.Counters[k]))
		}
	}
	sort.Strings(keys)
	return fmt.Sprintf("ok %s %s", c.End, strings.Join(keys, " "))
}

// Replay re-runs one stored case; it returns "" or "signature|description".
func Replay(class string, input json.RawMessage, caps Caps) string {
	var c Case
	if err := json.Unmarshal(input, &c); err != nil {
		return "bad-input|" + err.Error()
	}
	r := Run(c, caps)
	for _, l := range r.Trace {
		fmt.Println("  ", l)
	}
	for _, h := range r.CapHits {
		fmt.Println("   cap hit:", h)
	}
	if m := r.Of(class); len(m) > 0 {
		return m[0].Sig + "|" + m[0].Desc
	}
	return ""
}

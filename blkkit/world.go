//go:build verif

// Package blkkit runs the real nbhttp.Engine in its goroutine-per-connection I/O modes
// (IOModBlocking, both halves of IOModMixed; IOModNonBlocking as a control) over REAL connected
// socket pairs, one bounded HISTORY of connection activity at a time, with a FREE-RUNNING
// schedule: no cooperative scheduler and no simulated kernel are involved (the overlay's shims
// are in their native pass-through mode: real mutexes, clock, system calls and goroutines).
//
// What this is: bounded-exhaustive enumeration of histories (every history over the alphabet up
// to a depth is executed once) on the real code. What it is not: an enumeration of schedules -
// each history sees the one interleaving the Go runtime and the kernel happen to produce.
//
// Construction, checked against the code of the pinned tree:
//   - connections: syscall.Socketpair(AF_UNIX, SOCK_STREAM); the server end becomes a
//     *net.UnixConn through net.FileConn. No TCP, no ports, no dependence on `lo`.
//   - the engine gets its connections from the accept loop it runs in production
//     (Engine.listen, and lmux.ListenerMux in IOModMixed): Config.Listen returns a fake
//     net.Listener whose Accept hands out the server ends. So AddConnNonTLSBlocking /
//     AddConnNonTLSNonBlocking are called by nbio itself with the `decrease` callbacks it uses in
//     production.
//   - transfer of a blocking connection to the poller: websocket.Upgrader.Upgrade switches on the
//     dynamic type and transfers ONLY *net.TCPConn (a *net.UnixConn falls into its "unknown conn
//     type" branch and is never transferred). To reach that code without TCP the server end can
//     be handed over under the static type *net.TCPConn: net.TCPConn and net.UnixConn are both
//     struct{conn{fd *netFD}} (checked by reflection at start-up), every method nbio calls on the
//     value (Read, Write, Close, SetDeadline, SyscallConn, LocalAddr, RemoteAddr) is the embedded
//     conn's, so the relabelled value behaves like the UnixConn it is (Cfg.TCP).
package blkkit

import (
	"bufio"
	"bytes"
	"context"
	"crypto/sha1"
	"encoding/base64"
	"encoding/binary"
	"errors"
	"fmt"
	"io"
	"net"
	"net/http"
	"os"
	"reflect"
	"runtime"
	"runtime/debug"
	"sort"
	"strconv"
	"strings"
	"sync"
	"sync/atomic"
	"syscall"
	"time"
	"unsafe"

	"github.com/lesismal/nbio"
	"github.com/lesismal/nbio/mempool"
	"github.com/lesismal/nbio/nbhttp"
	"github.com/lesismal/nbio/nbhttp/websocket"

	"verif/vkit"
)

// Cfg is the engine / environment configuration of a case.
type Cfg struct {
	// Mode: "blocking" (IOModBlocking), "mixed" (IOModMixed, MaxBlockingOnline 1: the first
	// connection online is served by the blocking half, further ones by the poller), "mixed-nb"
	// (IOModMixed with an idle filler connection occupying the blocking slot, so that every
	// connection of the history is served by the poller half), "nonblocking" (control).
	Mode     string `json:"mode"`
	Transfer bool   `json:"transfer,omitempty"` // Upgrader.BlockingModTrasferConnToPoller
	Async    bool   `json:"async,omitempty"`    // Upgrader.BlockingModAsyncWrite
	TCP      bool   `json:"tcp,omitempty"`      // server end relabelled *net.TCPConn (see package doc)
	SndBuf   int    `json:"sndbuf,omitempty"`   // SO_SNDBUF of the server end (0: kernel default)
}

func (c Cfg) String() string {
	s := c.Mode
	if c.TCP {
		s += "/tcp"
	}
	if c.Transfer {
		s += "/transfer"
	}
	if c.Async {
		s += "/asyncwrite"
	}
	if c.SndBuf > 0 {
		s += fmt.Sprintf("/sndbuf=%d", c.SndBuf)
	}
	return s
}

// Ev is one event of a history: action A on connection C.
//
//	open      the listener hands a fresh connection to the engine
//	ka        GET, HTTP/1.1 keep-alive, 10-byte response; the whole response is read
//	v10       GET, HTTP/1.0 (the server closes after the response)
//	cl        GET, HTTP/1.1, Connection: close
//	big       GET keep-alive, 70000-byte response
//	bigcl     GET, Connection: close, 70000-byte response
//	post      POST keep-alive with a 5-byte body
//	pipe      two keep-alive GETs in one write; both responses are read
//	pipecl    GET keep-alive + GET Connection: close in one write
//	bigstall  GET keep-alive, 70000-byte response that the peer does not read (with Cfg.SndBuf the
//	          server's write is in flight - blocked or queued - from then on); the peer only waits
//	          until the handler has been entered
//	partial   POST head with Content-Length: 5, body withheld
//	finish    the withheld body (the response is read)
//	ws        WebSocket handshake (101 is read)
//	wsmsg     one masked text message; its echo is read
//	wsopen    open + ws in one event (the C14 part's opening action)
//	wsburst   two masked text messages in one write; both echoes are read, in order
//	wsping    masked ping; the pong is read
//	wssrvclose a text message whose handler closes the connection from the server side (no close
//	          frame); the end of the stream is read
//	wsclose   masked close frame (1000); the reply and the end of the stream are read
//	pclose    the peer closes its socket
//	phalf     the peer shuts down its sending direction and reads to the end of the stream
type Ev struct {
	C int    `json:"c"`
	A string `json:"a"`
}

// Case is one history with its configuration and ending.
type Case struct {
	Cfg  Cfg    `json:"cfg"`
	Hist []Ev   `json:"hist"`
	End  string `json:"end"` // stop | shutdown | peersclose-stop
}

func (c Case) String() string {
	var b strings.Builder
	b.WriteString(c.Cfg.String())
	b.WriteString(" [")
	for i, e := range c.Hist {
		if i > 0 {
			b.WriteByte(' ')
		}
		fmt.Fprintf(&b, "%s%d", e.A, e.C)
	}
	b.WriteString("] ")
	b.WriteString(c.End)
	return b.String()
}

// Caps are the generous wall-clock caps. None of them is an oracle about speed: the ones marked
// "harness" only mark the run incomplete when they expire.
type Caps struct {
	Step     time.Duration // harness: waiting for bytes / notifications of one step
	Quiet    time.Duration // a quiet-state invariant must hold within this time
	StopCall time.Duration // Stop / Shutdown must return within this time
	Ctx      time.Duration // deadline of the context given to Shutdown
	// NoReclaim: C18's oracles are not evaluated (connection count at quiet points, goroutines and
	// descriptors after the stopping call): the C10 part saves their time and their caps.
	NoReclaim bool
	// Own is the class of anomalies the calling check reports ("c18" / "c10"). A wait whose failure
	// would be an anomaly of ANOTHER subject gets the full cap only until two such waits have
	// expired in this process; after that it gets one second (the anomaly is only counted by this
	// check, the run is marked incomplete, and a changed tree that breaks the other subject does not
	// make this check crawl through one full cap per case).
	Own string
}

var otherSlow int32

func (w *world) capFor(class string, base time.Duration) time.Duration {
	if class == w.caps.Own || w.caps.Own == "" {
		return base
	}
	if atomic.LoadInt32(&otherSlow) >= 2 {
		return time.Second
	}
	return base
}

// expired books a wait of another subject that ran into its cap.
func (w *world) expired(class string) {
	if class != w.caps.Own && w.caps.Own != "" {
		if atomic.AddInt32(&otherSlow, 1) > 2 {
			w.capHit("a wait of another check's subject (" + class + ") expired under the reduced cap")
		}
	}
}

// DefaultCaps are used by the checks.
var DefaultCaps = Caps{Step: 30 * time.Second, Quiet: 30 * time.Second, StopCall: 60 * time.Second, Ctx: 45 * time.Second}

// Obs is one anomaly observed while a case ran. Class says whose subject it is: "c18" (stopping,
// reclaiming, connection accounting), "c10" (request / response exchange), "other".
type Obs struct {
	Class string
	Sig   string
	Desc  string
}

// Result of one case.
type Result struct {
	Obs      []Obs
	CapHits  []string // harness waits that hit their cap (not violations)
	Counters map[string]int
	Trace    []string
}

func (r *Result) count(k string, n int) { r.Counters[k] += n }

// Of returns the anomalies of a class.
func (r *Result) Of(class string) []Obs {
	var out []Obs
	for _, o := range r.Obs {
		if o.Class == class {
			out = append(out, o)
		}
	}
	return out
}

const bigLen = 70000

// ---------------------------------------------------------------------------------------------

type fakeAddr struct{}

func (fakeAddr) Network() string { return "unix" }
func (fakeAddr) String() string  { return "blkkit-fake-listener" }

// listener is the net.Listener the engine accepts from.
type listener struct {
	ch     chan net.Conn
	closed chan struct{}
	once   sync.Once
	nclose int32

	// late, when set, is a connection that was accepted by the "kernel" before the listener was
	// closed and that the pending Accept still returns afterwards (a legal net.Listener
	// behaviour: Accept and Close race). It is handed out once, lateDelay after Close - long
	// enough for the stopping call to have finished its sweep over the connection table; the
	// delay decides only what a run can detect, not what is right: whenever it arrives, somebody
	// has to close it.
	lmu       sync.Mutex
	late      net.Conn
	lateGiven int32
}

const lateDelay = 20 * time.Millisecond

func (l *listener) takeLate() net.Conn {
	l.lmu.Lock()
	defer l.lmu.Unlock()
	c := l.late
	l.late = nil
	return c
}

func newListener() *listener {
	return &listener{ch: make(chan net.Conn, 8), closed: make(chan struct{})}
}

func (l *listener) Accept() (net.Conn, error) {
	// a connection is only pushed while the listener is open and the harness waits for its open
	// notification before it goes on, so "queued and closed at once" does not occur
	select {
	case <-l.closed:
		return l.afterClose()
	default:
	}
	select {
	case c := <-l.ch:
		return c, nil
	case <-l.closed:
		return l.afterClose()
	}
}

func (l *listener) afterClose() (net.Conn, error) {
	if c := l.takeLate(); c != nil {
		// not a sleep: a sleeping goroutine would look parked to the "nobody will close it any
		// more" judgement of the reclaim phase while this connection is still to come
		for t0 := time.Now(); time.Since(t0) < lateDelay; {
			runtime.Gosched()
		}
		atomic.AddInt32(&l.lateGiven, 1)
		return c, nil
	}
	return nil, net.ErrClosed
}

func (l *listener) Close() error {
	atomic.AddInt32(&l.nclose, 1)
	l.once.Do(func() { close(l.closed) })
	return nil
}

func (l *listener) Addr() net.Addr { return fakeAddr{} }

// ---------------------------------------------------------------------------------------------

type conn struct {
	id         int
	cli        *net.UnixConn
	br         *bufio.Reader
	srv        net.Conn // kept reachable: engine.conns stores the pointer as bytes (no GC reference)
	srvIno     string
	state      string // http | partial | ws
	half       string // A: blocking reader goroutine, B: poller, T: transferred from A to the poller
	open       bool   // open from the harness's point of view (neither side has closed)
	cliOpen    bool   // the harness still holds its descriptor
	nreq       int
	partTag    string
	nmsg       int
	rxBytes    int // response bytes received on this connection
	isFill     bool
	upgraded   bool   // the peer read the 101
	halfClosed bool   // the peer shut down its sending direction (the server is closing or has closed)
	noted      bool   // its unexpected end was reported once
	endedBy    string // "peer": the harness closed first; "server": the peer read the end of the stream
}

type world struct {
	lateConn *conn // endings "*-late": the connection the closed listener still hands out
	c        Case
	caps     Caps
	res      *Result
	engine   *nbhttp.Engine
	ln       *listener
	conns    map[int]*conn
	all      []*conn
	trace    bool

	mu        sync.Mutex
	opens     []string // "blk" / "nb" per open notification, in order
	closes    int
	handled   map[string]int
	upgErrs   []string
	closeErrs []string // what the engine's close notifications said, in order
	acceptErr []string

	gbase  GBase
	fdbase map[int]string
	dead   bool // the case cannot go on (a step failed)

	stopPanic string
	t0        time.Time

	// connections the HARNESS closed since the last point at which the engine's counts agreed with
	// the peers' view: the engine may not have noticed them yet
	pendingClosed, pendingClosedA int

	cb    map[int]*cbLog // WebSocket callback logs per connection id (under mu)
	cbSeq int
}

// cbLog is what the WebSocket callbacks of one connection did, in the order they did it.
type cbLog struct {
	ev      []string // "open<", "open>", "msg<payload", "msg>", "close"
	inMsg   int
	inOpen  bool
	overlap string
	early   string // a message callback entered before the open callback had returned
	late    string // a callback after the close callback
	closes  int
	sent    []string // payloads the peer sent as data messages, in wire order
	async   bool
}

func (w *world) cbOf(id int) *cbLog {
	l := w.cb[id]
	if l == nil {
		l = &cbLog{}
		w.cb[id] = l
	}
	return l
}

func (w *world) logf(format string, a ...interface{}) {
	if w.trace || len(w.res.Trace) < 200 {
		s := fmt.Sprintf(format, a...)
		w.res.Trace = append(w.res.Trace, s)
		if w.trace {
			fmt.Fprintf(os.Stderr, "  . %7.1fms %s\n", float64(time.Since(w.t0).Microseconds())/1000, s)
		}
	}
}

func (w *world) obs(class, sig, format string, a ...interface{}) {
	o := Obs{Class: class, Sig: sig, Desc: fmt.Sprintf(format, a...)}
	w.res.Obs = append(w.res.Obs, o)
	w.logf("ANOMALY[%s] %s | %s", class, sig, o.Desc)
}

func (w *world) capHit(what string) {
	w.res.CapHits = append(w.res.CapHits, what)
	w.logf("CAP %s", what)
}

// qual qualifies a C10-style signature with the half that serves the connection, so that what
// the poller path does (already covered by the scheduled C10 scenarios, whose signatures are
// reused unchanged) and what the goroutine-per-connection path does stay apart.
func qual(c *conn) string {
	if c.half == "A" {
		return " io=blocking"
	}
	return ""
}

// ---------------------------------------------------------------------------------------------
// layout self-test for the relabelling

var layoutOK = func() bool {
	tu, tt := reflect.TypeOf(net.UnixConn{}), reflect.TypeOf(net.TCPConn{})
	if tu.Size() != tt.Size() || tu.NumField() != 1 || tt.NumField() != 1 {
		return false
	}
	fu, ft := tu.Field(0), tt.Field(0)
	if fu.Type != ft.Type || fu.Offset != 0 || ft.Offset != 0 || !fu.Anonymous || !ft.Anonymous {
		return false
	}
	return fu.Type.Kind() == reflect.Struct && fu.Type.NumField() == 1 && fu.Type.Field(0).Type.Kind() == reflect.Ptr
}()

// LayoutOK reports whether *net.UnixConn can be relabelled *net.TCPConn with this toolchain.
func LayoutOK() bool { return layoutOK }

func relabel(u *net.UnixConn) net.Conn {
	return (*net.TCPConn)(unsafe.Pointer(u))
}

// ---------------------------------------------------------------------------------------------

func socketIno(fd int) string {
	t, _ := os.Readlink(fmt.Sprintf("/proc/self/fd/%d", fd))
	return t
}

func (w *world) newPair() (srv net.Conn, cli *net.UnixConn, ino string, err error) {
	fds, err := syscall.Socketpair(syscall.AF_UNIX, syscall.SOCK_STREAM|syscall.SOCK_CLOEXEC, 0)
	if err != nil {
		return nil, nil, "", err
	}
	if w.c.Cfg.SndBuf > 0 {
		_ = syscall.SetsockoptInt(fds[0], syscall.SOL_SOCKET, syscall.SO_SNDBUF, w.c.Cfg.SndBuf)
	}
	ino = socketIno(fds[0])
	sf := os.NewFile(uintptr(fds[0]), "blk-srv")
	cf := os.NewFile(uintptr(fds[1]), "blk-cli")
	defer sf.Close()
	defer cf.Close()
	sc, err := net.FileConn(sf)
	if err != nil {
		return nil, nil, "", err
	}
	cc, err := net.FileConn(cf)
	if err != nil {
		_ = sc.Close()
		return nil, nil, "", err
	}
	su, ok1 := sc.(*net.UnixConn)
	cu, ok2 := cc.(*net.UnixConn)
	if !ok1 || !ok2 {
		_ = sc.Close()
		_ = cc.Close()
		return nil, nil, "", fmt.Errorf("FileConn returned %T / %T", sc, cc)
	}
	srv = su
	if w.c.Cfg.TCP {
		srv = relabel(su)
	}
	return srv, cu, ino, nil
}

// WantBody is the body the handler sends for a request (tag, request body, length).
func WantBody(tag string, reqBody []byte, n int) []byte {
	unit := []byte(tag + ":" + string(reqBody) + ";")
	out := make([]byte, 0, n+len(unit))
	for len(out) < n {
		out = append(out, unit...)
	}
	return out[:n]
}

func (w *world) start() error {
	cfg := w.c.Cfg
	alloc := mempool.New(1024, 1024*1024*1024)
	mempool.DefaultMemPool = alloc
	w.ln = newListener()
	mux := http.NewServeMux()
	mux.HandleFunc("/r", func(rw http.ResponseWriter, r *http.Request) {
		rb, _ := io.ReadAll(r.Body)
		tag := r.Header.Get("X-Tag")
		n, _ := strconv.Atoi(r.URL.Query().Get("n"))
		w.mu.Lock()
		w.handled[tag]++
		w.mu.Unlock()
		rw.Header().Set("X-Tag", tag)
		_, _ = rw.Write(WantBody(tag, rb, n))
	})
	mux.HandleFunc("/ws", func(rw http.ResponseWriter, r *http.Request) {
		id, _ := strconv.Atoi(r.Header.Get("X-Conn"))
		// one Upgrader per request, as nbio's own examples do: its callbacks know the connection
		if _, err := w.newUpgrader(id).Upgrade(rw, r, nil); err != nil {
			w.mu.Lock()
			w.upgErrs = append(w.upgErrs, err.Error())
			w.mu.Unlock()
		}
	})
	conf := nbhttp.Config{
		Name: "blk", Network: "unix", Addrs: []string{"blkkit-fake-listener"},
		Listen:  func(network, addr string) (net.Listener, error) { return w.ln, nil },
		NPoller: 1, Handler: mux, KeepaliveTime: 10 * time.Minute,
		SupportServerOnly: true, BodyAllocator: alloc,
		ReadBufferPool: mempool.New(nbhttp.DefaultBlockingReadBufferSize, nbhttp.DefaultBlockingReadBufferSize*2),
		OnAcceptError: func(err error) {
			w.mu.Lock()
			w.acceptErr = append(w.acceptErr, err.Error())
			w.mu.Unlock()
		},
	}
	switch cfg.Mode {
	case "blocking":
		conf.IOMod = nbhttp.IOModBlocking
	case "mixed", "mixed-nb":
		conf.IOMod = nbhttp.IOModMixed
		conf.MaxBlockingOnline = 1
	case "nonblocking":
		conf.IOMod = nbhttp.IOModNonBlocking
	default:
		return fmt.Errorf("unknown mode %q", cfg.Mode)
	}
	e := nbhttp.NewEngine(conf)
	e.OnOpen(func(c net.Conn) {
		k := "nb"
		if _, ok := c.(*nbhttp.Conn); ok {
			k = "blk"
		}
		w.mu.Lock()
		w.opens = append(w.opens, k)
		w.mu.Unlock()
	})
	e.OnClose(func(c net.Conn, err error) {
		w.mu.Lock()
		w.closes++
		if len(w.closeErrs) < 16 {
			w.closeErrs = append(w.closeErrs, fmt.Sprintf("%T: %v", c, err))
		}
		w.mu.Unlock()
	})
	w.engine = e
	if err := e.Start(); err != nil {
		return err
	}
	return nil
}

// newUpgrader builds the Upgrader for connection id: echo handler, callback log.
func (w *world) newUpgrader(id int) *websocket.Upgrader {
	cfg := w.c.Cfg
	u := websocket.NewUpgrader()
	u.Engine = w.engine
	u.KeepaliveTime = 10 * time.Minute
	u.BlockingModTrasferConnToPoller = cfg.Transfer
	u.BlockingModAsyncWrite = cfg.Async
	// the only short runtime timer of these engines: an async-write connection closes itself this
	// long after Conn.Close() (default 100 ms). 1 ms keeps it well inside the observation window of
	// the early-exit rules (window()).
	u.BlockingModAsyncCloseDelay = time.Millisecond
	note := func(f func(l *cbLog)) {
		w.mu.Lock()
		f(w.cbOf(id))
		w.mu.Unlock()
	}
	u.OnOpen(func(c *websocket.Conn) {
		note(func(l *cbLog) { l.ev = append(l.ev, "open<"); l.inOpen = true })
		// a handler takes its time: whatever may overtake it gets the chance (the peer has the 101
		// already - Upgrade sends it before it calls the open handler - and sends its next frame
		// at once)
		if w.caps.Own == "c14" {
			Nap(time.Millisecond)
		} else {
			runtime.Gosched()
		}
		note(func(l *cbLog) { l.ev = append(l.ev, "open>"); l.inOpen = false })
	})
	u.OnMessage(func(c *websocket.Conn, mt websocket.MessageType, data []byte) {
		pl := string(data)
		note(func(l *cbLog) {
			if l.closes > 0 && l.late == "" {
				l.late = "message callback (" + short(data) + ") entered after the close callback"
			}
			if (l.inOpen || len(l.ev) < 2) && l.early == "" {
				l.early = "message callback (" + short(data) + ") entered before the open callback had returned"
			}
			if l.inMsg > 0 && l.overlap == "" {
				l.overlap = "message callback (" + short(data) + ") entered while another one was running"
			}
			l.inMsg++
			l.ev = append(l.ev, "msg<"+pl)
		})
		runtime.Gosched()
		if strings.HasPrefix(pl, "close-me") {
			_ = c.Close()
		} else {
			_ = c.WriteMessage(mt, data)
		}
		note(func(l *cbLog) { l.inMsg--; l.ev = append(l.ev, "msg>") })
	})
	u.OnClose(func(c *websocket.Conn, err error) {
		note(func(l *cbLog) {
			if l.inMsg > 0 && l.overlap == "" {
				l.overlap = "close callback entered while a message callback was running"
			}
			if l.inOpen && l.early == "" {
				l.early = "close callback entered before the open callback had returned"
			}
			l.closes++
			l.ev = append(l.ev, "close")
		})
	})
	return u
}

func (w *world) nOpens() int {
	w.mu.Lock()
	defer w.mu.Unlock()
	return len(w.opens)
}

func (w *world) openKind(i int) string {
	w.mu.Lock()
	defer w.mu.Unlock()
	if i < len(w.opens) {
		return w.opens[i]
	}
	return ""
}

// peek asks the kernel what the peer of c could read right now, without consuming anything:
// "open" (nothing to read, stream not ended), "end" (end of stream or reset: the server closed),
// "data" (unread bytes: whether the stream has ended behind them cannot be seen).
func peek(c *conn) string {
	if !c.cliOpen {
		return "gone"
	}
	if c.br.Buffered() > 0 {
		return "data"
	}
	rc, err := c.cli.SyscallConn()
	if err != nil {
		return "end"
	}
	st := "open"
	var b [1]byte
	_ = rc.Control(func(fd uintptr) {
		n, _, e := syscall.Recvfrom(int(fd), b[:], syscall.MSG_PEEK|syscall.MSG_DONTWAIT)
		switch {
		case e == syscall.EAGAIN || e == syscall.EINTR:
			st = "open"
		case e != nil:
			st = "end"
		case n == 0:
			st = "end"
		default:
			st = "data"
		}
	})
	return st
}

// view is what the peers can see at one instant: must = connections that are verifiably open
// (the harness holds them, has not shut anything down, and the kernel says the stream has not
// ended), unc = connections whose state the peer cannot decide (unread data in front of a possible
// end of stream; a half-closed connection the server is closing). The A fields count the
// connections served by the blocking half only.
type view struct {
	must, unc, mustA, uncA int
	desc                   string
}

func (w *world) observe() view {
	var v view
	var parts []string
	for _, c := range w.all {
		st := peek(c)
		parts = append(parts, fmt.Sprintf("c%d:%s/%s", c.id, c.half, st))
		if st == "gone" {
			continue
		}
		a := 0
		if c.half == "A" {
			a = 1
		}
		switch {
		case st == "end":
			// the server closed it; its removal from the tables follows on a running goroutine
			if c.open && !c.halfClosed && !c.noted {
				c.noted = true
				w.obs("other", "connection-closed-by-server-at-a-quiet-point"+qual(c), "c%d (half %s, state %s, server-side socket %s): the peer had neither closed nor asked for a close, yet the kernel reports the end of its stream; descriptors and epoll interest lists of the process at that moment: %s", c.id, c.half, c.state, c.srvIno, procSnapshot())
			}
			c.open = false
			if c.endedBy == "" {
				c.endedBy = "server"
			}
		case st == "data" || c.halfClosed:
			v.unc++
			v.uncA += a
		default:
			v.must++
			v.mustA += a
		}
	}
	v.desc = strings.Join(parts, " ")
	return v
}

// procSnapshot lists the descriptors of the process and, for epoll descriptors, their interest
// lists (diagnostics of a rare anomaly only).
func procSnapshot() string {
	var b strings.Builder
	fds := FDs()
	var ks []int
	for k := range fds {
		ks = append(ks, k)
	}
	sort.Ints(ks)
	for _, k := range ks {
		fmt.Fprintf(&b, "%d->%s ", k, fds[k])
		if strings.Contains(fds[k], "eventpoll") {
			if info, err := os.ReadFile(fmt.Sprintf("/proc/self/fdinfo/%d", k)); err == nil {
				for _, l := range strings.Split(string(info), "\n") {
					if strings.HasPrefix(l, "tfd:") {
						b.WriteString("{" + strings.Join(strings.Fields(l), " ") + "} ")
					}
				}
			}
		}
	}
	return b.String()
}

func (w *world) allParked() bool {
	for _, g := range w.gbase.Extra() {
		if !Blocked(g) {
			return false
		}
	}
	return true
}

// quiet is the state invariant of a quiet history: engine.Online() (C18: the bookkeeping
// Shutdown's wait loop relies on) and, in IOModMixed, the listener mux's count of connections
// served by the blocking half (C10: dispatch between the halves) agree with what the peers see.
//
// Nothing here is computed once and then waited for. Every poll iteration takes FRESH observations
// of every peer (peek) and fresh counter values and asks whether  must <= count <= must + unc.
// A disagreement is reported only when it is STABLE: the same numbers in 5 consecutive samples,
// spread over the observation window, in each of which every engine goroutine is parked (pollers
// in epoll_wait count as parked). The one thing parked goroutines can still owe is the delivery of
// a kernel event: while connections that the HARNESS itself closed since the last agreement may
// still be counted ("more" with pendingClosed > 0) the verdict waits for the generous cap instead.
func (w *world) quiet(after string) {
	if w.dead {
		return
	}
	lm := w.engine.VerifListenerMux()
	start := time.Now()
	streak, last, counted := 0, "", time.Now()
	d := 50 * time.Microsecond
	for {
		v := w.observe()
		on, onA := w.engine.VerifOnline(), 0
		ok18 := w.caps.NoReclaim || (v.must <= on && on <= v.must+v.unc)
		ok10 := true
		if lm != nil {
			onA = lm.VerifOnlineA()
			ok10 = v.mustA <= onA && onA <= v.mustA+v.uncA
		}
		if ok18 && ok10 {
			w.pendingClosed, w.pendingClosedA = 0, 0
			return
		}
		// which of the disagreements can be decided by stability alone?
		fast18 := ok18 || on < v.must || w.pendingClosed == 0
		fast10 := ok10 || onA < v.mustA || w.pendingClosedA == 0
		key := fmt.Sprint(on, v.must, v.unc, onA, v.mustA, v.uncA)
		switch {
		case key != last || !w.allParked():
			streak, counted = 0, time.Now()
		case time.Since(counted) >= w.window()/4:
			streak, counted = streak+1, time.Now()
		}
		last = key
		el := time.Since(start)
		expired := (ok18 || el > w.capFor("c18", w.caps.Quiet)) && (ok10 || el > w.capFor("c10", w.caps.Quiet))
		if (streak >= 5 && fast18 && fast10) || expired {
			how := "in 5 consecutive samples with every engine goroutine parked"
			if expired {
				how = fmt.Sprintf("for %v", time.Since(start).Round(time.Second))
			}
			if !ok18 {
				dir := "more"
				if on < v.must {
					dir = "fewer"
				}
				if expired {
					w.expired("c18")
				}
				w.obs("c18", "online-count-"+dir+"-than-open-connections",
					"after %s: engine.Online() = %d, but the peers see %d connection(s) verifiably open and %d undecidable (fresh observations, %s; per connection id:half/peer-state: %s; closed by the harness and possibly not yet noticed: %d): stale or missing entries in engine.conns, the count Shutdown waits on",
					after, on, v.must, v.unc, how, v.desc, w.pendingClosed)
			}
			if !ok10 {
				if expired {
					w.expired("c10")
				}
				w.obs("c10", "mixed-blocking-half-count-wrong",
					"after %s: the listener mux counts %d connection(s) in the blocking half, the peers see %d verifiably open there and %d undecidable (fresh observations, %s; %s): the `decrease` accounting decides which half serves the next connection",
					after, onA, v.mustA, v.uncA, how, v.desc)
			}
			w.pendingClosed, w.pendingClosedA = 0, 0
			return
		}
		Nap(d)
		if d < 2*time.Millisecond {
			d = d * 3 / 2
		}
	}
}

// ---------------------------------------------------------------------------------------------
// events

func (w *world) open(id int, filler bool) {
	srv, cli, ino, err := w.newPair()
	if err != nil {
		w.capHit("socketpair: " + err.Error())
		w.dead = true
		return
	}
	c := &conn{id: id, cli: cli, br: bufio.NewReaderSize(cli, 4096), srv: srv, srvIno: ino, state: "http", open: true, cliOpen: true, isFill: filler}
	if !filler {
		w.conns[id] = c
	}
	// which half must serve it? In IOModMixed: the blocking half while fewer than MaxBlockingOnline
	// (1) connections are online there. The expectation is taken from fresh observations, and the
	// dispatch is judged only when they leave no room: the mux's counter equals the number of
	// blocking-half connections the peers see verifiably open, none is undecidable or freshly closed.
	judge, inA := true, 0
	switch w.c.Cfg.Mode {
	case "blocking":
		c.half = "A"
	case "nonblocking":
		c.half = "B"
	default:
		v := w.observe()
		inA = v.mustA
		c.half = "B"
		if inA == 0 {
			c.half = "A"
		}
		if lm := w.engine.VerifListenerMux(); lm == nil || lm.VerifOnlineA() != v.mustA || v.uncA > 0 || w.pendingClosedA > 0 {
			judge = false
			w.res.count("dispatch_not_judged", 1)
		}
	}
	w.all = append(w.all, c)
	n := w.nOpens()
	w.ln.ch <- srv
	if !WaitFor(w.caps.Step, func() bool { return w.nOpens() > n }) {
		w.capHit("open notification of a handed-over connection")
		w.dead = true
		return
	}
	k := w.openKind(n)
	got := "B"
	if k == "blk" {
		got = "A"
	}
	w.logf("open c%d -> half %s (expected %s)", id, got, c.half)
	if got != c.half && !judge {
		c.half = got
	}
	if got != c.half {
		w.obs("c10", "mixed-dispatch-wrong-half want="+c.half+" got="+got,
			"connection c%d was accepted while %d connection(s) were online in the blocking half (MaxBlockingOnline 1): it must be served by half %s, it is served by half %s (A: goroutine per connection, B: poller)",
			id, inA, c.half, got)
		c.half = got
	}
	w.res.count("opens_half_"+c.half, 1)
}

type reqSpec struct {
	v10     bool
	connHdr string
	body    []byte
	n       int
	tag     string
}

func (r reqSpec) closes() bool {
	if r.v10 {
		return r.connHdr != "keep-alive"
	}
	return r.connHdr == "close"
}

func (r reqSpec) method() string {
	if r.body != nil {
		return "POST"
	}
	return "GET"
}

func (r reqSpec) head() string {
	v := "HTTP/1.1"
	if r.v10 {
		v = "HTTP/1.0"
	}
	s := fmt.Sprintf("%s /r?n=%d %s\r\nHost: h\r\nX-Tag: %s\r\n", r.method(), r.n, v, r.tag)
	if r.connHdr != "" {
		s += "Connection: " + r.connHdr + "\r\n"
	}
	if r.body != nil {
		s += fmt.Sprintf("Content-Length: %d\r\n", len(r.body))
	}
	return s + "\r\n"
}

func (w *world) newReq(c *conn, v10 bool, connHdr string, body []byte, n int) reqSpec {
	r := reqSpec{v10: v10, connHdr: connHdr, body: body, n: n, tag: fmt.Sprintf("c%dr%d", c.id, c.nreq)}
	c.nreq++
	return r
}

func isTimeout(err error) bool {
	var ne net.Error
	return errors.As(err, &ne) && ne.Timeout()
}

func isEnd(err error) bool {
	return errors.Is(err, io.EOF) || errors.Is(err, io.ErrUnexpectedEOF) || errors.Is(err, syscall.ECONNRESET) || errors.Is(err, syscall.EPIPE)
}

func (w *world) write(c *conn, b []byte) bool {
	_ = c.cli.SetWriteDeadline(time.Now().Add(w.caps.Step))
	if _, err := c.cli.Write(b); err != nil {
		if isTimeout(err) {
			w.capHit("peer write")
		} else {
			w.obs("other", "peer-write-failed", "writing %d bytes on open connection c%d failed: %v", len(b), c.id, err)
		}
		w.dead = true
		return false
	}
	return true
}

// settleInq lets a response that cannot fit the socket buffers run into back-pressure before the
// peer starts to read (coverage only: the verdict does not depend on it).
func (w *world) settleInq(c *conn) {
	rc, err := c.cli.SyscallConn()
	if err != nil {
		return
	}
	last, same := -1, 0
	for i := 0; i < 200 && same < 10; i++ {
		n := 0
		_ = rc.Control(func(fd uintptr) {
			v, e := syscallIoctlInt(int(fd), 0x541B) // FIONREAD
			if e == nil {
				n = v
			}
		})
		if n == last && n > 0 {
			same++
		} else {
			same = 0
		}
		last = n
		Nap(2 * time.Millisecond)
	}
	if last < bigLen {
		w.res.count("backpressure_engaged", 1)
	}
}

func syscallIoctlInt(fd int, req uintptr) (int, error) {
	var v int32
	_, _, e := syscall.Syscall(syscall.SYS_IOCTL, uintptr(fd), req, uintptr(unsafe.Pointer(&v)))
	if e != 0 {
		return 0, e
	}
	return int(v), nil
}

// readResponse reads one response for r; ok=false means the case cannot continue on c.
func (w *world) readResponse(c *conn, r reqSpec, histCloses bool) (ok bool) {
	backlog := w.c.Cfg.SndBuf > 0 && r.n > w.c.Cfg.SndBuf
	cp := w.capFor("c10", w.caps.Step)
	_ = c.cli.SetReadDeadline(time.Now().Add(cp))
	resp, err := http.ReadResponse(c.br, &http.Request{Method: r.method()})
	if err != nil {
		if isTimeout(err) {
			w.expired("c10")
			w.obs("c10", "response-missing"+qual(c), "request %s on c%d (%s): no response within %v, the connection is open and the peer is waiting", r.tag, c.id, strings.TrimSpace(strings.SplitN(r.head(), "\r\n", 2)[0]), cp)
			if w.caps.Own != "c10" {
				w.capHit("response " + r.tag)
			}
		} else {
			w.obs("c10", fmt.Sprintf("response-missing-or-malformed%s history-closes=%v backlog=%v", qual(c), histCloses, backlog),
				"request %s on c%d: reading the response failed: %v", r.tag, c.id, err)
			if isEnd(err) {
				w.peerSawEnd(c)
			}
		}
		w.dead = true
		return false
	}
	body, err := io.ReadAll(resp.Body)
	c.rxBytes += len(body)
	w.res.count("responses", 1)
	switch {
	case err != nil && isTimeout(err):
		w.expired("c10")
		w.obs("c10", fmt.Sprintf("response-body-stalled%s history-closes=%v backlog=%v", qual(c), histCloses, backlog),
			"request %s on c%d: body stalled after %d of %d bytes for %v", r.tag, c.id, len(body), r.n, cp)
		if w.caps.Own != "c10" {
			w.capHit("response body " + r.tag)
		}
		w.dead = true
		return false
	case err != nil:
		w.obs("c10", fmt.Sprintf("response-body-truncated%s history-closes=%v backlog=%v", qual(c), histCloses, backlog),
			"request %s on c%d: body read failed after %d of %d bytes: %v (the request asks to close: %v; the response does not fit the socket buffer: %v)", r.tag, c.id, len(body), r.n, err, r.closes(), backlog)
		if isEnd(err) {
			w.peerSawEnd(c)
		}
		w.dead = true
		return false
	case resp.Header.Get("X-Tag") != r.tag:
		w.obs("c10", "response-mismatched"+qual(c), "c%d: the response to %s carries tag %q", c.id, r.tag, resp.Header.Get("X-Tag"))
	case !bytes.Equal(body, WantBody(r.tag, r.body, r.n)):
		w.obs("c10", "response-body-wrong"+qual(c), "c%d request %s: body of %d bytes differs from the handler's (%d bytes)", c.id, r.tag, len(body), r.n)
	case resp.StatusCode != 200:
		w.obs("c10", "response-status"+qual(c), "c%d request %s: status %d", c.id, r.tag, resp.StatusCode)
	}
	for _, o := range w.all {
		if o != c && !o.isFill && bytes.Contains(body, []byte(fmt.Sprintf("c%dr", o.id))) {
			w.obs("c10", "cross-connection"+qual(c), "c%d received bytes tagged for connection c%d", c.id, o.id)
		}
	}
	return true
}

// peerSawEnd: the peer read the end of the stream (EOF or reset): the server closed.
func (w *world) peerSawEnd(c *conn) {
	c.open = false
	if c.endedBy == "" {
		c.endedBy = "server"
	}
	if c.cliOpen {
		_ = c.cli.Close()
		c.cliOpen = false
	}
}

// expectEnd reads to the end of the stream; extra bytes before it are reported by `extra`.
func (w *world) expectEnd(c *conn, why string, class, sigNotClosed string, extraIsAnomaly bool) bool {
	cp := w.capFor(class, w.caps.Quiet)
	_ = c.cli.SetReadDeadline(time.Now().Add(cp))
	var extra []byte
	buf := make([]byte, 4096)
	for {
		n, err := c.br.Read(buf)
		if len(extra) < 256 {
			extra = append(extra, buf[:n]...)
		}
		if err != nil {
			if isTimeout(err) {
				w.expired(class)
				w.obs(class, sigNotClosed, "c%d: %s, but the peer has not seen the end of the stream for %v", c.id, why, cp)
				return false
			}
			break
		}
	}
	if len(extra) > 0 && extraIsAnomaly {
		w.obs("c10", "response-extra"+qual(c), "c%d: %d+ bytes after the expected responses: %q", c.id, len(extra), short(extra))
	}
	w.peerSawEnd(c)
	return true
}

func short(b []byte) string {
	if len(b) > 60 {
		return string(b[:60]) + "..."
	}
	return string(b)
}

// stillOpen: a keep-alive connection must not have been closed by the server. A read that runs
// into its (short) deadline proves nothing and is fine; an end of stream is a fact.
func (w *world) stillOpen(c *conn, why string) {
	if !c.cliOpen || !c.open {
		return
	}
	atomic.AddInt64(&ParkedNominal, int64(time.Millisecond))
	_ = c.cli.SetReadDeadline(time.Now().Add(time.Millisecond))
	b, err := c.br.Peek(1)
	if err == nil {
		w.obs("c10", "response-extra"+qual(c), "c%d: unexpected byte %q after the expected responses (%s)", c.id, b, why)
		return
	}
	if isTimeout(err) {
		return
	}
	if isEnd(err) {
		w.obs("c10", "closed-keepalive"+qual(c), "c%d: %s, but the server closed the connection (%v)", c.id, why, err)
		w.peerSawEnd(c)
		w.dead = true
	}
}

func (w *world) exchange(c *conn, reqs []reqSpec) {
	var wire []byte
	histCloses := false
	for _, r := range reqs {
		wire = append(wire, r.head()...)
		wire = append(wire, r.body...)
		if r.closes() {
			histCloses = true
		}
	}
	if !w.write(c, wire) {
		return
	}
	w.readResponses(c, reqs, histCloses)
}

func (w *world) readResponses(c *conn, reqs []reqSpec, histCloses bool) {
	if w.c.Cfg.SndBuf > 0 {
		for _, r := range reqs {
			if r.n > w.c.Cfg.SndBuf {
				w.settleInq(c)
				break
			}
		}
	}
	for _, r := range reqs {
		if !w.readResponse(c, r, histCloses) {
			return
		}
		if r.closes() {
			if !w.expectEnd(c, fmt.Sprintf("request %s asks for the connection to be closed after the response", r.tag), "c10", "not-closed"+qual(c), true) {
				w.dead = true
			}
			w.checkHandled(reqs, r.tag)
			return
		}
	}
	w.checkHandled(reqs, "")
	w.stillOpen(c, "every request so far allows keep-alive")
}

// checkHandled: the handler ran exactly once for every request up to (and including) `upto`,
// and not at all for the ones pipelined behind a closing request.
func (w *world) checkHandled(reqs []reqSpec, upto string) {
	w.mu.Lock()
	defer w.mu.Unlock()
	after := false
	for _, r := range reqs {
		n := w.handled[r.tag]
		if !after && n != 1 {
			w.res.Obs = append(w.res.Obs, Obs{"c10", "handler-run-count", fmt.Sprintf("request %s was answered, its handler ran %d times", r.tag, n)})
		}
		if r.tag == upto {
			after = true
		}
	}
}

func (w *world) doRequest(c *conn, kind string) {
	switch kind {
	case "ka":
		w.exchange(c, []reqSpec{w.newReq(c, false, "", nil, 10)})
	case "v10":
		w.exchange(c, []reqSpec{w.newReq(c, true, "", nil, 10)})
	case "cl":
		w.exchange(c, []reqSpec{w.newReq(c, false, "close", nil, 10)})
	case "big":
		w.exchange(c, []reqSpec{w.newReq(c, false, "", nil, bigLen)})
	case "bigcl":
		w.exchange(c, []reqSpec{w.newReq(c, false, "close", nil, bigLen)})
	case "post":
		w.exchange(c, []reqSpec{w.newReq(c, false, "", []byte("hello"), 10)})
	case "pipe":
		w.exchange(c, []reqSpec{w.newReq(c, false, "", nil, 10), w.newReq(c, false, "", nil, 10)})
	case "pipecl":
		w.exchange(c, []reqSpec{w.newReq(c, false, "", nil, 10), w.newReq(c, false, "close", nil, 10)})
	case "bigstall":
		r := w.newReq(c, false, "", nil, bigLen)
		if !w.write(c, []byte(r.head())) {
			return
		}
		entered := func() bool { w.mu.Lock(); defer w.mu.Unlock(); return w.handled[r.tag] > 0 }
		if !WaitFor(w.caps.Step, entered) {
			w.capHit("handler entry of " + r.tag)
			w.dead = true
			return
		}
		c.state = "stalled"
		w.res.count("writes_left_in_flight", 1)
	case "partial":
		r := w.newReq(c, false, "", []byte("world"), 10)
		if w.write(c, []byte(r.head())) {
			c.state = "partial"
			c.partTag = r.tag
		}
	case "finish":
		r := reqSpec{body: []byte("world"), n: 10, tag: c.partTag}
		if w.write(c, r.body) {
			c.state = "http"
			w.readResponses(c, []reqSpec{r}, false)
		}
	}
}

const wsKey = "dGhlIHNhbXBsZSBub25jZQ=="

func wsAccept(key string) string {
	h := sha1.Sum([]byte(key + "258EAFA5-E914-47DA-95CA-C5AB0DC85B11"))
	return base64.StdEncoding.EncodeToString(h[:])
}

func clientFrame(op byte, payload []byte) []byte {
	mask := [4]byte{0x11, 0x22, 0x33, 0x44}
	b := []byte{0x80 | op}
	switch {
	case len(payload) < 126:
		b = append(b, 0x80|byte(len(payload)))
	default:
		b = append(b, 0x80|126, 0, 0)
		binary.BigEndian.PutUint16(b[2:], uint16(len(payload)))
	}
	b = append(b, mask[:]...)
	for i, x := range payload {
		b = append(b, x^mask[i%4])
	}
	return b
}

// readFrame reads one unmasked server frame.
func readFrame(br *bufio.Reader) (op byte, fin bool, payload []byte, err error) {
	var h [2]byte
	if _, err = io.ReadFull(br, h[:]); err != nil {
		return
	}
	op, fin = h[0]&0x0f, h[0]&0x80 != 0
	n := int(h[1] & 0x7f)
	if h[1]&0x80 != 0 {
		return op, fin, nil, fmt.Errorf("server frame is masked")
	}
	switch n {
	case 126:
		var x [2]byte
		if _, err = io.ReadFull(br, x[:]); err != nil {
			return
		}
		n = int(binary.BigEndian.Uint16(x[:]))
	case 127:
		var x [8]byte
		if _, err = io.ReadFull(br, x[:]); err != nil {
			return
		}
		n = int(binary.BigEndian.Uint64(x[:]))
	}
	payload = make([]byte, n)
	_, err = io.ReadFull(br, payload)
	return
}

func (w *world) sentMsg(c *conn, msgs ...[]byte) {
	w.mu.Lock()
	l := w.cbOf(c.id)
	for _, m := range msgs {
		l.sent = append(l.sent, string(m))
	}
	w.mu.Unlock()
}

// readEcho reads the echo of one text message.
func (w *world) readEcho(c *conn, msg []byte) bool {
	cp := w.capFor("other", w.caps.Step)
	_ = c.cli.SetReadDeadline(time.Now().Add(cp))
	op, fin, pl, err := readFrame(c.br)
	switch {
	case err != nil && isTimeout(err):
		w.expired("other")
		w.capHit("echo of a WebSocket message")
		w.obs("other", "ws-echo-missing"+qual(c), "c%d: no echo of %q within %v", c.id, msg, cp)
		w.dead = true
		return false
	case err != nil:
		w.obs("other", "ws-echo-failed"+qual(c), "c%d: reading the echo of %q failed: %v", c.id, msg, err)
		if isEnd(err) {
			w.peerSawEnd(c)
		}
		w.dead = true
		return false
	case op != 1 || !fin || !bytes.Equal(pl, msg):
		w.obs("other", "ws-echo-wrong"+qual(c), "c%d: sent %q, got opcode %d fin %v payload %q", c.id, msg, op, fin, short(pl))
	default:
		w.res.count("ws_echoes", 1)
	}
	return true
}

func (w *world) doWS(c *conn, kind string) {
	switch kind {
	case "ws":
		req := fmt.Sprintf("GET /ws HTTP/1.1\r\nHost: h\r\nX-Conn: %d\r\nUpgrade: websocket\r\nConnection: Upgrade\r\nSec-WebSocket-Key: %s\r\nSec-WebSocket-Version: 13\r\n\r\n", c.id, wsKey)
		nOpen := w.nOpens()
		if !w.write(c, []byte(req)) {
			return
		}
		cp := w.capFor("c10", w.caps.Step)
		_ = c.cli.SetReadDeadline(time.Now().Add(cp))
		resp, err := http.ReadResponse(c.br, &http.Request{Method: "GET"})
		if err != nil {
			if isTimeout(err) {
				w.expired("c10")
				w.obs("c10", "response-missing"+qual(c), "WebSocket handshake on c%d: no response within %v", c.id, cp)
				w.capHit("handshake response")
			} else {
				w.obs("c10", "ws-handshake-failed"+qual(c), "WebSocket handshake on c%d: reading the response failed: %v", c.id, err)
				if isEnd(err) {
					w.peerSawEnd(c)
				}
			}
			w.dead = true
			return
		}
		if resp.StatusCode != 101 || resp.Header.Get("Sec-Websocket-Accept") != wsAccept(wsKey) {
			w.mu.Lock()
			ue := strings.Join(w.upgErrs, "; ")
			w.mu.Unlock()
			w.obs("c10", "ws-handshake-failed"+qual(c), "WebSocket handshake on c%d: status %d, accept %q (Upgrade errors: %s)", c.id, resp.StatusCode, resp.Header.Get("Sec-Websocket-Accept"), ue)
			w.dead = true
			return
		}
		c.state = "ws"
		c.upgraded = true
		w.res.count("ws_upgrades", 1)
		// a blocking connection of static type *net.TCPConn is transferred to the poller
		if w.c.Cfg.Transfer && w.c.Cfg.TCP && c.half == "A" {
			if !WaitFor(w.caps.Step, func() bool { return w.nOpens() > nOpen }) {
				w.capHit("open notification of the transferred connection")
				w.dead = true
				return
			}
			c.half = "T"
			w.res.count("transfers", 1)
			w.logf("c%d transferred to the poller", c.id)
		}
	case "wsburst":
		m1 := []byte(fmt.Sprintf("c%dm%d", c.id, c.nmsg))
		m2 := []byte(fmt.Sprintf("c%dm%d", c.id, c.nmsg+1))
		c.nmsg += 2
		w.sentMsg(c, m1, m2)
		if !w.write(c, append(clientFrame(1, m1), clientFrame(1, m2)...)) {
			return
		}
		for _, msg := range [][]byte{m1, m2} {
			if !w.readEcho(c, msg) {
				return
			}
		}
	case "wsping":
		if !w.write(c, clientFrame(9, []byte("pi"))) {
			return
		}
		_ = c.cli.SetReadDeadline(time.Now().Add(w.capFor("other", w.caps.Step)))
		op, _, pl, err := readFrame(c.br)
		switch {
		case err != nil && isTimeout(err):
			w.expired("other")
			w.capHit("pong")
			w.dead = true
		case err != nil:
			w.obs("other", "ws-pong-failed"+qual(c), "c%d: reading the pong failed: %v", c.id, err)
			if isEnd(err) {
				w.peerSawEnd(c)
			}
			w.dead = true
		case op != 10 || string(pl) != "pi":
			w.obs("other", "ws-pong-wrong"+qual(c), "c%d: ping answered by opcode %d payload %q", c.id, op, short(pl))
		default:
			w.res.count("ws_pongs", 1)
		}
	case "wssrvclose":
		msg := []byte(fmt.Sprintf("close-me c%d", c.id))
		w.sentMsg(c, msg)
		if !w.write(c, clientFrame(1, msg)) {
			return
		}
		if !w.expectEnd(c, "the message handler closed the connection from the server side", "other", "ws-not-closed-by-handler-close"+qual(c), false) {
			w.dead = true
		} else {
			w.res.count("ws_server_side_closes", 1)
		}
	case "wsmsg":
		msg := []byte(fmt.Sprintf("c%dm%d", c.id, c.nmsg))
		c.nmsg++
		w.sentMsg(c, msg)
		if !w.write(c, clientFrame(1, msg)) {
			return
		}
		w.readEcho(c, msg)
	case "wsclose":
		if !w.write(c, clientFrame(8, []byte{0x03, 0xe8})) {
			return
		}
		_ = c.cli.SetReadDeadline(time.Now().Add(w.capFor("other", w.caps.Step)))
		op, _, _, err := readFrame(c.br)
		if err != nil && isTimeout(err) {
			w.expired("other")
			w.capHit("reply to a WebSocket close frame")
			w.dead = true
			return
		}
		if err == nil && op != 8 {
			w.obs("other", "ws-close-reply-wrong"+qual(c), "c%d: close frame answered by opcode %d", c.id, op)
		}
		if err == nil {
			w.res.count("ws_close_replies", 1)
			w.expectEnd(c, "the WebSocket closing handshake is complete", "other", "ws-not-closed-after-close-handshake"+qual(c), false)
		} else if isEnd(err) {
			w.peerSawEnd(c)
		} else {
			w.obs("other", "ws-close-failed"+qual(c), "c%d: %v", c.id, err)
			w.dead = true
		}
	}
}

func (w *world) closeCli(c *conn) {
	if c.cliOpen {
		if peek(c) != "end" {
			// the engine still has to notice this one
			w.pendingClosed++
			if c.half == "A" {
				w.pendingClosedA++
			}
		}
		_ = c.cli.Close()
		c.cliOpen = false
	}
	c.open = false
	if c.endedBy == "" {
		c.endedBy = "peer"
	}
}

func (w *world) doPeer(c *conn, kind string) {
	switch kind {
	case "pclose":
		w.closeCli(c)
	case "phalf":
		if err := c.cli.CloseWrite(); err != nil {
			w.capHit("CloseWrite: " + err.Error())
			w.dead = true
			return
		}
		// The server reads the end of the stream: it has nothing more to answer and is expected to
		// close, which the peer sees as the end of its own stream. Until the peer has seen it the
		// connection is "closed or closing": either count is acceptable (observe: undecidable).
		c.halfClosed = true
		if w.expectEnd(c, "the peer shut down its sending direction", "other", "half-closed-connection-never-closed"+qual(c), false) {
			return
		}
		w.res.count("half_closed_never_closed", 1)
		w.closeCli(c)
	}
}

// readToEnd consumes the peer's stream in the background; the channel yields true when the end of
// the stream was read, false when the deadline expired first.
func (w *world) readToEnd(c *conn, cap time.Duration) chan bool {
	ended := make(chan bool, 1)
	_ = c.cli.SetReadDeadline(time.Now().Add(cap))
	go func() {
		buf := make([]byte, 4096)
		for {
			_, err := c.br.Read(buf)
			if err != nil {
				ended <- !isTimeout(err)
				return
			}
		}
	}()
	return ended
}

// probeEnd asks the kernel directly whether the end of c's stream can be read now: a read with a
// fresh deadline always begins with a read system call, so an end of stream that is already there
// is seen even if the runtime's poller has not delivered it to a parked reader yet.
func (w *world) probeEnd(c *conn) bool {
	buf := make([]byte, 4096)
	for {
		_ = c.cli.SetReadDeadline(time.Now().Add(time.Millisecond))
		_, err := c.br.Read(buf)
		if err != nil {
			return !isTimeout(err)
		}
	}
}

// window is the observation window of the early-exit rules (see awaitClosedByEngine): 5 samples
// spread over it. No engine built here arms a runtime timer shorter than the 10 min keep-alive,
// except the close delay of an async-write WebSocket connection (set to 1 ms in start()), for
// which the window is wider.
func (w *world) window() time.Duration {
	if w.c.Cfg.Async {
		return 100 * time.Millisecond
	}
	return 40 * time.Millisecond
}

// Enabled reports whether action a can be applied to a connection in the given harness state
// ("" : not opened yet, "closed", "http", "partial", "ws", "stalled").
func Enabled(state, a string) bool {
	switch a {
	case "open", "wsopen":
		return state == ""
	case "ka", "v10", "cl", "big", "bigcl", "post", "pipe", "pipecl", "partial", "ws", "bigstall":
		return state == "http"
	case "finish":
		return state == "partial"
	case "wsmsg", "wsclose", "wsburst", "wsping", "wssrvclose":
		return state == "ws"
	case "pclose":
		return state == "http" || state == "partial" || state == "ws" || state == "stalled"
	case "phalf":
		return state == "http" || state == "partial" || state == "ws"
	}
	return false
}

// After is the harness-side state of a connection after action a (on the unchanged tree).
func After(state, a string) string {
	switch a {
	case "open":
		return "http"
	case "wsopen":
		return "ws"
	case "v10", "cl", "bigcl", "pipecl", "wsclose", "wssrvclose", "pclose", "phalf":
		return "closed"
	case "partial":
		return "partial"
	case "bigstall":
		return "stalled"
	case "finish":
		return "http"
	case "ws":
		return "ws"
	}
	return state
}

func (w *world) step(e Ev) {
	if e.A == "open" {
		w.open(e.C, false)
		return
	}
	if e.A == "wsopen" {
		w.open(e.C, false)
		if c := w.conns[e.C]; c != nil && !w.dead {
			w.doWS(c, "ws")
		}
		return
	}
	c := w.conns[e.C]
	if c == nil || !c.open || !c.cliOpen {
		w.logf("skip %s%d: connection not open any more", e.A, e.C)
		w.dead = true
		return
	}
	switch e.A {
	case "ws", "wsmsg", "wsclose", "wsburst", "wsping", "wssrvclose":
		w.doWS(c, e.A)
	case "pclose", "phalf":
		w.doPeer(c, e.A)
	default:
		w.doRequest(c, e.A)
	}
}

// ---------------------------------------------------------------------------------------------
// endings and the reclaim oracle

func (w *world) callStop(name string, f func() error) (returned bool, err error) {
	done := make(chan error, 1)
	go func() {
		defer func() {
			if e := recover(); e != nil {
				w.mu.Lock()
				w.stopPanic = fmt.Sprintf("%v\n%s", e, debug.Stack())
				w.mu.Unlock()
				done <- nil
			}
		}()
		done <- f()
	}()
	t := time.NewTimer(w.caps.StopCall)
	defer t.Stop()
	select {
	case err = <-done:
		w.mu.Lock()
		sp := w.stopPanic
		w.stopPanic = ""
		w.mu.Unlock()
		if sp != "" {
			w.obs("c18", name+"-panics "+normLog(strings.SplitN(sp, "\n", 2)[0]), "%s panicked: %s", name, sp)
		}
		return true, err
	case <-t.C:
		var stacks []string
		for _, g := range Goroutines() {
			if strings.Contains(g.Text, "created by verif/blkkit.(*world).callStop") {
				stacks = append(stacks, g.Text)
			}
		}
		w.obs("c18", name+"-does-not-return", "%s has not returned after %v; its goroutine:\n%s", name, w.caps.StopCall, strings.Join(stacks, "\n"))
		return false, nil
	}
}

// armLate prepares the connection that the listener's pending Accept returns after the stopping
// call has closed the listener (endings "stop-late", "shutdown-late").
func (w *world) armLate() {
	srv, cli, ino, err := w.newPair()
	if err != nil {
		w.capHit("socketpair: " + err.Error())
		return
	}
	half := "B"
	if w.c.Cfg.Mode == "blocking" {
		half = "A"
	}
	c := &conn{id: 90, cli: cli, br: bufio.NewReaderSize(cli, 4096), srv: srv, srvIno: ino, state: "http", half: half, open: true, cliOpen: true}
	w.all = append(w.all, c)
	w.lateConn = c
	w.ln.lmu.Lock()
	w.ln.late = srv
	w.ln.lmu.Unlock()
	w.res.count("late_accepts_armed", 1)
}

func (w *world) end() {
	kind := w.c.End
	if strings.HasSuffix(kind, "-late") {
		kind = strings.TrimSuffix(kind, "-late")
		w.armLate()
	}
	if w.dead && kind == "shutdown" {
		// the history did not run to its end: only clean up
		kind = "stop"
	}
	if kind == "peersclose-stop" {
		for _, c := range w.all {
			w.closeCli(c)
		}
		w.dead = false
		w.quiet("all peers closed")
		if w.caps.Own == "c14" {
			w.judgeWS()
		}
	}
	returned := false
	switch kind {
	case "shutdown":
		ctx, cancel := context.WithTimeout(context.Background(), w.caps.Ctx)
		var err error
		t0 := time.Now()
		returned, err = w.callStop("shutdown", func() error { return w.engine.Shutdown(ctx) })
		cancel()
		atomic.AddInt64(&ParkedNominal, int64(200*time.Millisecond)) // nbhttp's Shutdown polls with a 200 ms ticker
		if returned && err != nil {
			w.obs("c18", "shutdown-live-context-returns-error", "Shutdown(ctx) with a live context (deadline %v away) returned %v after %v; engine.Online() = %d; the core engine was not stopped", w.caps.Ctx, err, time.Since(t0).Round(time.Millisecond), w.engine.VerifOnline())
			// do what the caller would have to do, so that the rest of the process stays usable
			// (the core engine's Stop: nbhttp's Stop would close the listener mux a second time)
			r2, _ := w.callStop("core-stop-after-failed-shutdown", func() error { w.engine.Engine.Stop(); return nil })
			returned = r2
		}
	default:
		returned, _ = w.callStop("stop", func() error { w.engine.Stop(); return nil })
	}
	if atomic.LoadInt32(&w.ln.nclose) == 0 {
		w.obs("c18", "listener-not-closed", "the stopping call returned=%v and never closed the listener", returned)
	}
	if w.lateConn != nil {
		// whoever takes the late connection out of the listener owns it: the engine's accept loop
		// (then the engine has to close it, judged below like every other connection), or - when
		// no Accept call was pending or came after the close, e.g. a Stop that overtakes the start
		// of the accept loop - the harness, standing in for the kernel that drops the accept queue
		// of a closed listener
		if c := w.ln.takeLate(); c != nil {
			_ = c.Close()
			w.closeCli(w.lateConn)
			for i, x := range w.all {
				if x == w.lateConn {
					w.all = append(w.all[:i], w.all[i+1:]...)
					break
				}
			}
			w.res.count("late_accepts_never_requested_by_the_engine", 1)
		} else {
			w.res.count("late_accepts_returned_after_listener_close", 1)
		}
	}
	w.logf("%s returned=%v", kind, returned)
	w.reclaim(kind, returned)
	w.logf("reclaim checked")
}

// judgeWS is C14's oracle, evaluated while the engine is still running, once every connection of
// the history is gone from its peer's point of view. For every connection whose upgrade succeeded
// (the peer read the 101): the open callback had returned before any message callback was entered,
// message callbacks ran one at a time, in wire order, with the payloads the peer sent, and the
// close callback ran exactly once, after them.
//
// "Exactly once" needs a moment at which a missing close callback is final. Both teardown paths of
// nbhttp run the WebSocket connection's CloseAndClean (which calls the close callback
// synchronously) BEFORE they remove the connection from engine.conns (readConnBlocking's deferred
// clean-up; the core engine's OnClose job). So the harness waits (observable condition, generous
// cap, 'incomplete' when it expires) until the engine's table is empty; a count other than 1 is
// then confirmed by the goroutine evidence (every engine goroutine parked - pollers in
// epoll_wait - in 5 consecutive samples) before it is reported.
func (w *world) judgeWS() {
	if !WaitFor(w.caps.Quiet, func() bool { return w.engine.VerifOnline() == 0 }) {
		w.capHit(fmt.Sprintf("engine.Online() stays %d after every peer is gone", w.engine.VerifOnline()))
		return
	}
	counts := func() (bad bool) {
		w.mu.Lock()
		defer w.mu.Unlock()
		for _, c := range w.all {
			if c.upgraded && w.cbOf(c.id).closes != 1 {
				bad = true
			}
		}
		return
	}
	if counts() {
		parked := 0
		for i := 0; i < 3000 && parked < 5; i++ {
			all := true
			for _, g := range w.gbase.Extra() {
				if !Blocked(g) {
					all = false
				}
			}
			if all {
				parked++
			} else {
				parked = 0
			}
			Nap(w.window() / 4)
			if !counts() {
				break
			}
		}
	}
	w.mu.Lock()
	defer w.mu.Unlock()
	for _, c := range w.all {
		if !c.upgraded {
			continue
		}
		l := w.cbOf(c.id)
		q := " half=" + c.half
		trace := strings.Join(l.ev, " ")
		add := func(sig, format string, a ...interface{}) {
			w.res.Obs = append(w.res.Obs, Obs{"c14", sig + q, fmt.Sprintf("c%d (served by half %s): ", c.id, c.half) + fmt.Sprintf(format, a...) + "; callback log: [" + trace + "]"})
		}
		w.res.Counters["ws_connections_judged"]++
		switch {
		case l.closes == 0:
			add("close-callback-missing", "the connection is gone from its peer's point of view (ended by the %s), the engine has dropped it from its table and every engine goroutine is parked, but the close callback never ran", c.endedBy)
		case l.closes > 1:
			add("close-callback-duplicated", "the close callback ran %d times", l.closes)
		}
		if l.early != "" {
			add("callback-before-open-completed", "%s", l.early)
		}
		if l.overlap != "" {
			add("callbacks-overlap", "%s", l.overlap)
		}
		if l.late != "" {
			add("callback-after-close", "%s", l.late)
		}
		if l.early == "" && (len(l.ev) < 2 || l.ev[0] != "open<" || l.ev[1] != "open>") {
			add("open-callback-missing-or-late", "the open callback did not run first")
		}
		var got []string
		for _, e := range l.ev {
			if strings.HasPrefix(e, "msg<") {
				got = append(got, e[4:])
			}
		}
		// every data message was answered (echo read, or end of stream after close-me) before the
		// history went on, so all of them must have reached the message callback, in wire order
		if !w.dead && strings.Join(got, "|") != strings.Join(l.sent, "|") {
			add("message-callbacks-order-or-payload", "the peer sent %q, the message callback got %q", l.sent, got)
		}
		w.res.Counters["ws_message_callbacks"] += len(got)
	}
}

// reclaim: after the stopping call returned, (1) every connection the engine manages is closed
// from its peer's point of view, (2) no engine goroutine is left, (3) no descriptor opened since
// the baseline is left, (4) nbio logged no error.
func (w *world) reclaim(kind string, returned bool) {
	// (1)
	for _, c := range w.all {
		if !c.cliOpen {
			continue
		}
		if returned {
			w.awaitClosedByEngine(c, kind)
		}
	}
	for _, c := range w.all {
		w.closeCli(c)
	}
	if !returned {
		// the stopping goroutine is stuck inside the engine: nothing more can be judged
		return
	}
	if w.caps.NoReclaim {
		w.logErrors()
		for _, c := range w.all {
			if c.srv != nil {
				_ = c.srv.Close()
			}
		}
		return
	}
	// (2)
	var left []G
	if !WaitFor(w.caps.Quiet, func() bool { left = w.gbase.Extra(); return len(left) == 0 }) {
		seen := map[string]bool{}
		for _, g := range left {
			f := TopFunc(g)
			if seen[f] {
				continue
			}
			seen[f] = true
			w.obs("c18", "goroutine-left-after-"+kind+" "+f, "%v after %s returned and every peer closed, %d engine goroutine(s) are still there; one of them:\n%s", w.caps.Quiet, kind, len(left), g.Text)
		}
	}
	// (3) descriptors. No engine goroutine is left at this point, so only a runtime timer or the
	// garbage collector's finalizers could still close something: the wait ends early when the set
	// of left-over descriptors has not changed over a whole observation window.
	var fds []string
	stable, last := 0, ""
	t0 := time.Now()
	for {
		fds = FDExtra(w.fdbase)
		if len(fds) == 0 {
			break
		}
		if k := strings.Join(fds, " "); k == last && len(w.gbase.Extra()) == 0 {
			stable++
		} else {
			stable, last = 0, k
		}
		if stable >= 5 || time.Since(t0) > w.caps.Quiet {
			break
		}
		Nap(w.window() / 4)
	}
	if len(fds) > 0 {
		seen := map[string]bool{}
		for _, e := range fds {
			k := FDKind(e)
			owner := ""
			var oc *conn
			for _, c := range w.all {
				if strings.HasSuffix(e, "->"+c.srvIno) {
					oc = c
					owner = fmt.Sprintf(" (the server end of c%d, served by half %s, last state %s, ended by the %s)", c.id, c.half, c.state, c.endedBy)
					k += fmt.Sprintf(" server-end-of-connection half=%s state=%s ended-by=%s", c.half, httpOrWS(c.state), c.endedBy)
				}
			}
			if seen[k] {
				continue
			}
			seen[k] = true
			gc := ""
			if oc != nil && gcProbes < 2 {
				// does at least the finalizer of the net package release it once nothing refers to it?
				gcProbes++
				oc.srv = nil
				gone := false
				for i := 0; i < 40 && !gone; i++ {
					runtime.GC()
					Nap(5 * time.Millisecond)
					gone = true
					for _, x := range FDExtra(w.fdbase) {
						if x == e {
							gone = false
						}
					}
				}
				if gone {
					gc = "; once the harness dropped its own reference and forced garbage collections, the finalizer of the net package closed it: the descriptor is released by the collector only"
					w.res.count("fd_left_released_by_gc_finalizer_only", 1)
				} else {
					gc = "; it stays open even after the harness dropped its reference and forced garbage collections"
					w.res.count("fd_left_survives_gc", 1)
				}
			}
			w.obs("c18", "fd-left-after-stopping "+k, "after %s returned, every peer closed and no engine goroutine is left, descriptor %s%s is still open (all left: %v)%s", kind, e, owner, fds, gc)
		}
	}
	// the harness does not let descriptors pile up in its process
	for _, c := range w.all {
		if c.srv != nil {
			_ = c.srv.Close()
		}
	}
	// (4)
	w.logErrors()
	w.mu.Lock()
	if w.closes < len(w.opens) {
		w.res.count("close_notifications_fewer_than_open_notifications", 1)
	}
	if len(w.acceptErr) > 0 {
		w.res.count("accept_error_callbacks", len(w.acceptErr))
	}
	w.mu.Unlock()
}

var gcProbes int

// logErrors: nbio reports the panics it recovers through its logger (both checks care).
func (w *world) logErrors() {
	for _, e := range vkit.Log.TakeErrors() {
		first := e
		if i := strings.IndexByte(first, '\n'); i > 0 {
			first = first[:i]
		}
		for _, class := range []string{"c18", "c10"} {
			w.obs(class, "logged-error "+normLog(first), "nbio logged an error (a recovered panic?): %s", short([]byte(e)))
		}
	}
}

func httpOrWS(state string) string {
	if state == "ws" {
		return "ws"
	}
	return "http"
}

func normLog(s string) string {
	var b strings.Builder
	for _, r := range s {
		switch {
		case r >= '0' && r <= '9':
			if b.Len() == 0 || b.String()[b.Len()-1] != '#' {
				b.WriteByte('#')
			}
		default:
			b.WriteRune(r)
		}
		if b.Len() > 80 {
			break
		}
	}
	return b.String()
}

// awaitClosedByEngine waits until the peer of c sees the end of the stream. The wait ends early,
// with the verdict the cap would give, once there is positive evidence that nobody is going to
// close the connection: the stopping call has returned and every engine goroutine that is left
// was parked (none running, runnable or in a system call) in 5 consecutive samples spread over
// the observation window. Parked goroutines can only be woken by I/O (the peers are idle: the
// harness is waiting here), by another goroutine (there is none) or by a runtime timer (the
// engines built here arm none shorter than the 10 min keep-alive, except the 1 ms close delay the
// window covers). Load does not matter: a goroutine that waits for a CPU is runnable, not parked.
// Finally the kernel is asked directly (probeEnd), because the harness's own reader may be parked
// with the end of the stream already there.
func (w *world) awaitClosedByEngine(c *conn, kind string) {
	ended := w.readToEnd(c, w.caps.Quiet)
	parked := 0
	var left []G
	tick := time.NewTicker(w.window() / 4)
	defer tick.Stop()
	for {
		select {
		case ok := <-ended:
			if ok {
				w.peerSawEnd(c)
				return
			}
			w.notClosed(c, kind, left, fmt.Sprintf("for %v", w.caps.Quiet))
			return
		case <-tick.C:
			atomic.AddInt64(&ParkedNominal, int64(w.window()/4))
			left = w.gbase.Extra()
			all := true
			for _, g := range left {
				if !Blocked(g) {
					all = false
				}
			}
			if all {
				parked++
			} else {
				parked = 0
			}
			if parked >= 5 {
				_ = c.cli.SetReadDeadline(time.Now()) // end the reader
				if ok := <-ended; ok || w.probeEnd(c) {
					w.peerSawEnd(c)
					return
				}
				w.notClosed(c, kind, left, "and every engine goroutine that is left is parked")
				return
			}
		}
	}
}

func (w *world) notClosed(c *conn, kind string, left []G, how string) {
	reader := ""
	for _, g := range left {
		if strings.Contains(g.Text, "readConnBlocking") || strings.Contains(g.Text, "HandleRead") {
			reader = "\nits reader:\n" + g.Text
			break
		}
	}
	w.obs("c18", fmt.Sprintf("connection-open-after-%s half=%s", kind, c.half),
		"%s returned, connection c%d (served by half %s, state %s) is still open from its peer's point of view %s: the engine did not close it%s", kind, c.id, c.half, c.state, how, reader)
}

// ---------------------------------------------------------------------------------------------

var warm sync.Once

// Run executes one case and returns what was observed.
func Run(c Case, caps Caps) *Result {
	warm.Do(func() {
		// the Go runtime creates its own epoll / eventfd descriptors on first network use
		if fds, err := syscall.Socketpair(syscall.AF_UNIX, syscall.SOCK_STREAM|syscall.SOCK_CLOEXEC, 0); err == nil {
			f := os.NewFile(uintptr(fds[0]), "warm")
			if nc, err := net.FileConn(f); err == nil {
				_ = nc.SetReadDeadline(time.Now().Add(time.Millisecond))
				_, _ = nc.Read(make([]byte, 1))
				_ = nc.Close()
			}
			_ = f.Close()
			_ = syscall.Close(fds[1])
		}
		if nbio.MaxOpenFiles < 4096 {
			nbio.MaxOpenFiles = 4096
		}
	})
	res := &Result{Counters: map[string]int{}}
	w := &world{cb: map[int]*cbLog{}, t0: time.Now(), c: c, caps: caps, res: res, conns: map[int]*conn{}, handled: map[string]int{}, trace: os.Getenv("VERIF_BLK_TRACE") != ""}
	if w.trace {
		fmt.Fprintf(os.Stderr, "CASE %s\n", c)
	}
	if c.Cfg.TCP && !layoutOK {
		w.capHit("net.TCPConn / net.UnixConn layouts differ: relabelling not possible with this toolchain")
		return res
	}
	_ = vkit.Log.TakeErrors()
	w.gbase = TakeGBase()
	w.fdbase = FDs()
	w.logf("baseline taken")
	if err := w.start(); err != nil {
		w.capHit("engine start: " + err.Error())
		return res
	}
	w.logf("engine started")
	if c.Cfg.Mode == "mixed-nb" {
		w.open(-1, true)
		w.quiet("the filler connection was opened")
	}
	for i, e := range c.Hist {
		if w.dead {
			break
		}
		w.step(e)
		w.logf("event %s%d done", e.A, e.C)
		res.count("steps", 1)
		w.quiet(fmt.Sprintf("event %d (%s on c%d)", i, e.A, e.C))
	}
	w.end()
	if len(res.Obs) > 0 {
		w.mu.Lock()
		w.logf("close notifications of the engine, in order: %q", w.closeErrs)
		w.mu.Unlock()
	}
	return res
}

//go:build verif

package blkkit

import (
	"fmt"
	"os"
	"runtime"
	"sort"
	"strconv"
	"strings"
	"sync/atomic"
	"time"
)

// ---------------------------------------------------------------------------------------------
// goroutines

// G is one goroutine of a full stack dump.
type G struct {
	ID    int
	State string
	Text  string // the whole block
}

// Goroutines parses runtime.Stack(all).
func Goroutines() []G {
	buf := make([]byte, 1<<20)
	for {
		n := runtime.Stack(buf, true)
		if n < len(buf) {
			buf = buf[:n]
			break
		}
		buf = make([]byte, 2*len(buf))
	}
	var out []G
	for _, blk := range strings.Split(string(buf), "\n\n") {
		blk = strings.TrimSpace(blk)
		if !strings.HasPrefix(blk, "goroutine ") {
			continue
		}
		head := blk
		if i := strings.IndexByte(blk, '\n'); i >= 0 {
			head = blk[:i]
		}
		// goroutine 12 [IO wait, 2 minutes]:
		f := strings.Fields(head)
		if len(f) < 3 {
			continue
		}
		id, err := strconv.Atoi(f[1])
		if err != nil {
			continue
		}
		st := head[strings.IndexByte(head, '[')+1:]
		if j := strings.IndexAny(st, ",]"); j >= 0 {
			st = st[:j]
		}
		out = append(out, G{ID: id, State: st, Text: blk})
	}
	return out
}

// GBase is the set of goroutine ids present at a baseline.
type GBase map[int]bool

// TakeGBase records the goroutines that exist now.
func TakeGBase() GBase {
	b := GBase{}
	for _, g := range Goroutines() {
		b[g.ID] = true
	}
	return b
}

// isEngine: the goroutine runs code of the library under test (nbio's own `go` statements are
// rewritten to vsched.Go by the overlay, so "created by verif/vsched" marks them too; timer
// callbacks are created by time.goFunc and carry nbio frames).
func isEngine(g G) bool {
	if strings.Contains(g.Text, "created by verif/blkkit.") {
		return false // a harness goroutine (e.g. the one that called Stop)
	}
	return strings.Contains(g.Text, "github.com/lesismal/nbio") || strings.Contains(g.Text, "verif/vsched.Go")
}

// Extra returns the engine goroutines that are not in the baseline.
func (b GBase) Extra() []G {
	var out []G
	for _, g := range Goroutines() {
		if !b[g.ID] && isEngine(g) {
			out = append(out, g)
		}
	}
	return out
}

// TopFunc names the innermost nbio function of a goroutine (for signatures).
func TopFunc(g G) string {
	lines := strings.Split(g.Text, "\n")
	for _, l := range lines[1:] {
		if strings.HasPrefix(l, "\t") || strings.HasPrefix(l, "created by") {
			continue
		}
		if i := strings.Index(l, "github.com/lesismal/nbio"); i >= 0 {
			fn := l[i+len("github.com/lesismal/nbio"):]
			fn = strings.TrimPrefix(fn, "/")
			if j := strings.LastIndexByte(fn, '('); j > 0 {
				fn = fn[:j]
			}
			return normFunc(fn)
		}
	}
	for _, l := range lines {
		if strings.HasPrefix(l, "created by ") {
			return "created-by:" + normFunc(strings.Fields(strings.TrimPrefix(l, "created by "))[0])
		}
	}
	return "?"
}

func normFunc(fn string) string {
	// drop closure numbering, which moves with unrelated edits: Engine.listen.func1 -> Engine.listen.func
	for {
		n := len(fn)
		for n > 0 && fn[n-1] >= '0' && fn[n-1] <= '9' {
			n--
		}
		if n == len(fn) {
			break
		}
		fn = fn[:n]
		if strings.HasSuffix(fn, ".") {
			fn = fn[:len(fn)-1]
		}
	}
	return fn
}

// Blocked reports whether the goroutine cannot run without an outside event.
func Blocked(g G) bool {
	if g.State == "syscall" && strings.Contains(g.Text, "syscall.EpollWait(") {
		return true // a poller of a running engine, waiting for events
	}
	switch g.State {
	case "running", "runnable", "syscall", "waiting", "preempted", "copystack", "dead", "idle":
		return false
	}
	return true // IO wait, chan receive, chan send, select, semacquire, sync.*, sleep, ...
}

// ---------------------------------------------------------------------------------------------
// descriptors

// FDs lists /proc/self/fd as "fd -> target".
func FDs() map[int]string {
	out := map[int]string{}
	ents, err := os.ReadDir("/proc/self/fd")
	if err != nil {
		return out
	}
	self := fmt.Sprintf("/proc/%d/fd", os.Getpid())
	for _, e := range ents {
		n, err := strconv.Atoi(e.Name())
		if err != nil {
			continue
		}
		t, err := os.Readlink("/proc/self/fd/" + e.Name())
		if err != nil {
			continue // closed between the listing and the readlink
		}
		if t == self || t == "/proc/self/fd" {
			continue // the listing's own descriptor
		}
		out[n] = t
	}
	return out
}

// FDExtra returns the descriptors open now that were not open (with the same target) at base.
func FDExtra(base map[int]string) []string {
	var out []string
	for fd, t := range FDs() {
		if bt, ok := base[fd]; !ok || bt != t {
			out = append(out, fmt.Sprintf("%d->%s", fd, t))
		}
	}
	sort.Strings(out)
	return out
}

// FDKind classifies a /proc/self/fd target for signatures.
func FDKind(entry string) string {
	t := entry
	if i := strings.Index(entry, "->"); i >= 0 {
		t = entry[i+2:]
	}
	switch {
	case strings.HasPrefix(t, "socket:"):
		return "socket"
	case strings.HasPrefix(t, "anon_inode:[eventpoll]"):
		return "epoll"
	case strings.HasPrefix(t, "anon_inode:[eventfd]"):
		return "eventfd"
	case strings.HasPrefix(t, "pipe:"):
		return "pipe"
	case strings.HasPrefix(t, "anon_inode:"):
		return strings.Trim(strings.TrimPrefix(t, "anon_inode:"), "[]")
	}
	return "file"
}

// ---------------------------------------------------------------------------------------------
// polling

// ParkedNominal accumulates the nominal time (ns) the harness asked to sleep in its polling and
// observation loops: together with the CPU time it gives the cost of a part on a quiet machine
// (under load the measured wall time says little).
var ParkedNominal int64

// Nap sleeps and books the nominal duration.
func Nap(d time.Duration) {
	atomic.AddInt64(&ParkedNominal, int64(d))
	time.Sleep(d)
}

// WaitFor polls cond (first quickly, then every 2 ms) until it holds or cap expires.
func WaitFor(cap time.Duration, cond func() bool) bool {
	if cond() {
		return true
	}
	end := time.Now().Add(cap)
	d := 50 * time.Microsecond
	for {
		Nap(d)
		if cond() {
			return true
		}
		if time.Now().After(end) {
			return cond()
		}
		if d < 2*time.Millisecond {
			d = d * 3 / 2
		}
	}
}

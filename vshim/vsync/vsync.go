// Package vsync replaces "sync" in the instrumented copy of nbio. Outside an execution every
// type behaves exactly like its native counterpart.
package vsync

import (
	"fmt"
	"reflect"
	"runtime"
	"strconv"
	"strings"
	"sync"

	"verif/vsched"
)

// Locker is sync.Locker.
type Locker = sync.Locker

// Once is not used under the scheduler by nbio's blocking paths; keep the native one.
type Once = sync.Once

var (
	kLock    = vsched.HashString("lock")
	kUnlock  = vsched.HashString("unlock")
	kRLock   = vsched.HashString("rlock")
	kRUnlock = vsched.HashString("runlock")
	kWgAdd   = vsched.HashString("wg.add")
	kWgWait  = vsched.HashString("wg.wait")
	kPool    = vsched.HashString("pool")
	kMap     = vsched.HashString("map")
)

// ---------------------------------------------------------------------------------------------

// Mutex is a scheduler-aware sync.Mutex.
type Mutex struct {
	n     sync.Mutex
	o     vsched.Obj
	held  bool
	owner int
	where string
}

func (m *Mutex) Lock() {
	if !vsched.Active() {
		if vsched.Aborting() {
			return
		}
		m.n.Lock()
		return
	}
	if m.o.Fresh() {
		m.held = false
	}
	why := "mutex"
	if m.held && vsched.Logging() {
		why = "mutex held by T" + strconv.Itoa(m.owner) + " since " + m.where
	}
	vsched.Block(why, func() bool { return !m.held })
	m.held = true
	m.owner = vsched.Cur()
	if vsched.Logging() {
		m.where = caller()
	}
	vsched.Record(&m.o, kLock, true, 0)
}

func caller() string {
	pcs := make([]uintptr, 6)
	n := runtime.Callers(3, pcs)
	fr := runtime.CallersFrames(pcs[:n])
	out := ""
	for i := 0; i < 3; i++ {
		f, more := fr.Next()
		fn := f.Function
		if j := strings.LastIndex(fn, "/"); j >= 0 {
			fn = fn[j+1:]
		}
		out += fn + ":" + strconv.Itoa(f.Line) + " "
		if !more {
			break
		}
	}
	return out
}

func (m *Mutex) TryLock() bool {
	if !vsched.Active() {
		if vsched.Aborting() {
			return true
		}
		return m.n.TryLock()
	}
	if m.o.Fresh() {
		m.held = false
	}
	vsched.Point()
	if m.held {
		vsched.Record(&m.o, kLock, false, 1)
		return false
	}
	m.held = true
	m.owner = vsched.Cur()
	vsched.Record(&m.o, kLock, true, 0)
	return true
}

func (m *Mutex) Unlock() {
	if !vsched.Active() {
		if vsched.Aborting() {
			return
		}
		m.n.Unlock()
		return
	}
	if m.o.Fresh() {
		m.held = false
	}
	if !m.held {
		panic("vsync: unlock of unlocked mutex")
	}
	m.held = false
	vsched.Record(&m.o, kUnlock, true, 0)
	// a point after the release, so that unsynchronised accesses that follow an unlock can be
	// separated from the critical section by other threads' steps
	vsched.Point()
}

// ---------------------------------------------------------------------------------------------

// RWMutex is a scheduler-aware sync.RWMutex.
type RWMutex struct {
	n       sync.RWMutex
	o       vsched.Obj
	writer  bool
	readers int
}

func (m *RWMutex) fresh() {
	if m.o.Fresh() {
		m.writer = false
		m.readers = 0
	}
}

func (m *RWMutex) Lock() {
	if !vsched.Active() {
		if vsched.Aborting() {
			return
		}
		m.n.Lock()
		return
	}
	m.fresh()
	vsched.Block("rwmutex.w", func() bool { return !m.writer && m.readers == 0 })
	m.writer = true
	vsched.Record(&m.o, kLock, true, 0)
}

func (m *RWMutex) Unlock() {
	if !vsched.Active() {
		if vsched.Aborting() {
			return
		}
		m.n.Unlock()
		return
	}
	m.fresh()
	if !m.writer {
		panic("vsync: unlock of unlocked rwmutex")
	}
	m.writer = false
	vsched.Record(&m.o, kUnlock, true, 0)
	vsched.Point()
}

func (m *RWMutex) RLock() {
	if !vsched.Active() {
		if vsched.Aborting() {
			return
		}
		m.n.RLock()
		return
	}
	m.fresh()
	vsched.Block("rwmutex.r", func() bool { return !m.writer })
	m.readers++
	vsched.Record(&m.o, kRLock, true, 0)
}

func (m *RWMutex) RUnlock() {
	if !vsched.Active() {
		if vsched.Aborting() {
			return
		}
		m.n.RUnlock()
		return
	}
	m.fresh()
	if m.readers <= 0 {
		panic("vsync: runlock of unlocked rwmutex")
	}
	m.readers--
	vsched.Record(&m.o, kRUnlock, true, 0)
	vsched.Point()
}

// RLocker mirrors sync.RWMutex.RLocker.
func (m *RWMutex) RLocker() Locker { return (*rlocker)(m) }

type rlocker RWMutex

func (r *rlocker) Lock()   { (*RWMutex)(r).RLock() }
func (r *rlocker) Unlock() { (*RWMutex)(r).RUnlock() }

// ---------------------------------------------------------------------------------------------

// WaitGroup is a scheduler-aware sync.WaitGroup.
type WaitGroup struct {
	n sync.WaitGroup
	o vsched.Obj
	c int
}

func (w *WaitGroup) fresh() {
	if w.o.Fresh() {
		w.c = 0
	}
}

// Count exposes the counter to oracles (only meaningful inside an execution).
func (w *WaitGroup) Count() int { return w.c }

func (w *WaitGroup) Add(d int) {
	if !vsched.Active() {
		if vsched.Aborting() {
			return
		}
		w.n.Add(d)
		return
	}
	w.fresh()
	vsched.Point()
	w.c += d
	if w.c < 0 {
		panic("sync: negative WaitGroup counter")
	}
	vsched.Record(&w.o, kWgAdd, true, uint64(w.c))
}

func (w *WaitGroup) Done() { w.Add(-1) }

func (w *WaitGroup) Wait() {
	if !vsched.Active() {
		if vsched.Aborting() {
			return
		}
		w.n.Wait()
		return
	}
	w.fresh()
	vsched.Block("waitgroup", func() bool { return w.c == 0 })
	vsched.Record(&w.o, kWgWait, false, 0)
}

// ---------------------------------------------------------------------------------------------

// Pool is a scheduler-aware sync.Pool: deterministic LIFO reuse by default; returning a brand
// new object instead of a pooled one is an explorer deviation ("pool.miss"), which mirrors what
// the real pool may do at any time (per-P caches, GC).
type Pool struct {
	n     sync.Pool
	New   func() interface{}
	o     vsched.Obj
	items []interface{}
	init  bool
	// monitor mode outside an exploration: the pool keeps its objects itself (a real sync.Pool
	// may drop them at a collection, after which their addresses can be reused and identity
	// would mean nothing)
	mu   sync.Mutex
	kept []interface{}
}

// DoublePut, when set, turns on the pool ownership monitor: it is called (with the dynamic type
// of the object) when an object that is already in a pool is put into the same pool again - the
// pool would hand the one object to two owners. Checks that use it report it as a violation of
// their property (the two owners corrupt each other's state).
var DoublePut func(typ string)

func identity(x interface{}) (uintptr, bool) {
	if x == nil {
		return 0, false
	}
	v := reflect.ValueOf(x)
	switch v.Kind() {
	case reflect.Ptr, reflect.UnsafePointer, reflect.Map, reflect.Chan, reflect.Func:
		return v.Pointer(), true
	case reflect.Slice:
		if v.Cap() == 0 {
			return 0, false
		}
		return v.Pointer(), true
	}
	return 0, false
}

func pooledAlready(items []interface{}, x interface{}) bool {
	id, ok := identity(x)
	if !ok {
		return false
	}
	for _, y := range items {
		if yid, ok := identity(y); ok && yid == id && reflect.TypeOf(x) == reflect.TypeOf(y) {
			return true
		}
	}
	return false
}

func (p *Pool) syncNew() {
	if !p.init || p.n.New == nil {
		p.n.New = p.New
		p.init = true
	}
}

func (p *Pool) Get() interface{} {
	if !vsched.Active() {
		if DoublePut != nil {
			p.mu.Lock()
			if n := len(p.kept); n > 0 {
				v := p.kept[n-1]
				p.kept = p.kept[:n-1]
				p.mu.Unlock()
				return v
			}
			p.mu.Unlock()
			if p.New != nil {
				return p.New()
			}
			return nil
		}
		p.syncNew()
		return p.n.Get()
	}
	if p.o.Fresh() {
		p.items = nil
	}
	vsched.Point()
	var v interface{}
	if n := len(p.items); n > 0 {
		if PoolMissDeviations && vsched.Choose(2, "pool.miss") == 1 {
			vsched.Record(&p.o, kPool, true, 2)
			if p.New != nil {
				return p.New()
			}
			return nil
		}
		v = p.items[n-1]
		p.items = p.items[:n-1]
		vsched.Record(&p.o, kPool, true, 1)
		return v
	}
	vsched.Record(&p.o, kPool, true, 0)
	if p.New != nil {
		return p.New()
	}
	return nil
}

func (p *Pool) Put(x interface{}) {
	if !vsched.Active() {
		if vsched.Aborting() {
			return
		}
		if DoublePut != nil {
			p.mu.Lock()
			dup := pooledAlready(p.kept, x)
			if !dup && len(p.kept) < 4096 {
				p.kept = append(p.kept, x)
			}
			p.mu.Unlock()
			if dup {
				DoublePut(fmt.Sprintf("%T", x))
			}
			return
		}
		p.syncNew()
		p.n.Put(x)
		return
	}
	if p.o.Fresh() {
		p.items = nil
	}
	vsched.Point()
	if DoublePut != nil && pooledAlready(p.items, x) {
		DoublePut(fmt.Sprintf("%T", x))
	}
	p.items = append(p.items, x)
	vsched.Record(&p.o, kPool, true, 3)
	// a point after the hand-back: "free, then keep using the buffer" must be separable from
	// another thread's Get
	vsched.Point()
}

// PoolMissDeviations turns on the "pool returns a new object although one is pooled" deviation.
var PoolMissDeviations = false

// ---------------------------------------------------------------------------------------------

// Map is a scheduler-aware sync.Map (only the methods nbio uses, plus the common ones).
type Map struct {
	n sync.Map
	o vsched.Obj
	m map[interface{}]interface{}
}

func (m *Map) fresh() {
	if m.o.Fresh() || m.m == nil {
		m.m = map[interface{}]interface{}{}
	}
}

func (m *Map) Load(k interface{}) (interface{}, bool) {
	if !vsched.Active() {
		return m.n.Load(k)
	}
	m.fresh()
	vsched.Point()
	v, ok := m.m[k]
	vsched.Record(&m.o, kMap, true, 0)
	return v, ok
}

func (m *Map) Store(k, v interface{}) {
	if !vsched.Active() {
		if vsched.Aborting() {
			return
		}
		m.n.Store(k, v)
		return
	}
	m.fresh()
	vsched.Point()
	m.m[k] = v
	vsched.Record(&m.o, kMap, true, 1)
}

func (m *Map) LoadOrStore(k, v interface{}) (interface{}, bool) {
	if !vsched.Active() {
		return m.n.LoadOrStore(k, v)
	}
	m.fresh()
	vsched.Point()
	defer vsched.Record(&m.o, kMap, true, 2)
	if old, ok := m.m[k]; ok {
		return old, true
	}
	m.m[k] = v
	return v, false
}

func (m *Map) Delete(k interface{}) {
	if !vsched.Active() {
		if vsched.Aborting() {
			return
		}
		m.n.Delete(k)
		return
	}
	m.fresh()
	vsched.Point()
	delete(m.m, k)
	vsched.Record(&m.o, kMap, true, 3)
}

func (m *Map) Range(f func(k, v interface{}) bool) {
	if !vsched.Active() {
		m.n.Range(f)
		return
	}
	m.fresh()
	vsched.Point()
	vsched.Record(&m.o, kMap, true, 4)
	if len(m.m) > 1 {
		panic("vsync.Map.Range over more than one entry inside an execution (iteration order is not controlled)")
	}
	for k, v := range m.m {
		if !f(k, v) {
			break
		}
	}
}

// Package vrand replaces "math/rand" in the instrumented copy of nbio with a deterministic
// generator, so that wire bytes (WebSocket masking keys) are reproducible.
package vrand

import "math/rand"

var src = rand.New(rand.NewSource(20240601))

type (
	Rand   = rand.Rand
	Source = rand.Source
)

var (
	New       = rand.New
	NewSource = rand.NewSource
)

func Reset()                          { src = rand.New(rand.NewSource(20240601)) }
func Uint32() uint32                  { return src.Uint32() }
func Uint64() uint64                  { return src.Uint64() }
func Int() int                        { return src.Int() }
func Intn(n int) int                  { return src.Intn(n) }
func Int31() int32                    { return src.Int31() }
func Int31n(n int32) int32            { return src.Int31n(n) }
func Int63() int64                    { return src.Int63() }
func Int63n(n int64) int64            { return src.Int63n(n) }
func Float64() float64                { return src.Float64() }
func Float32() float32                { return src.Float32() }
func Perm(n int) []int                { return src.Perm(n) }
func Read(p []byte) (int, error)      { return src.Read(p) }
func Seed(seed int64)                 { src = rand.New(rand.NewSource(seed)) }
func Shuffle(n int, f func(i, j int)) { src.Shuffle(n, f) }

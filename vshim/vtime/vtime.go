// Package vtime replaces "time" in the instrumented copy of nbio. Inside an execution the clock
// is virtual: it only moves when the scheduler decides that the earliest pending timer fires.
// Outside an execution everything is the real package time.
package vtime

import (
	"fmt"
	"time"

	"verif/vsched"
)

type (
	Time       = time.Time
	Duration   = time.Duration
	Month      = time.Month
	Weekday    = time.Weekday
	Location   = time.Location
	ParseError = time.ParseError
)

const (
	Nanosecond  = time.Nanosecond
	Microsecond = time.Microsecond
	Millisecond = time.Millisecond
	Second      = time.Second
	Minute      = time.Minute
	Hour        = time.Hour

	RFC1123     = time.RFC1123
	RFC3339     = time.RFC3339
	RFC3339Nano = time.RFC3339Nano
	RFC822      = time.RFC822
	RFC850      = time.RFC850
	ANSIC       = time.ANSIC
	UnixDate    = time.UnixDate
	Kitchen     = time.Kitchen
)

var (
	UTC   = time.UTC
	Local = time.Local

	Date          = time.Date
	Unix          = time.Unix
	UnixMilli     = time.UnixMilli
	Parse         = time.Parse
	ParseDuration = time.ParseDuration
	FixedZone     = time.FixedZone
	LoadLocation  = time.LoadLocation
)

var (
	kNow   = vsched.HashString("time.now")
	kArm   = vsched.HashString("timer.arm")
	kStop  = vsched.HashString("timer.stop")
	kFire  = vsched.HashString("timer.fire")
	kSleep = vsched.HashString("time.sleep")
)

// Base is the virtual time at the start of every execution.
var Base = time.Date(2030, 1, 1, 0, 0, 0, 0, time.UTC)

type clock struct {
	o      vsched.Obj
	now    time.Time
	timers []*Timer // armed virtual timers
	seq    int
	fired  int
}

var ck clock

func init() { vsched.SetTimers(&ck) }

// Reset implements vsched.TimerSource.
func (c *clock) Reset() {
	c.o = vsched.Obj{}
	c.now = Base
	c.timers = nil
	c.seq = 0
	c.fired = 0
}

func (c *clock) effective(t *Timer) bool {
	if t.c != nil && t.period > 0 && len(t.c) == cap(t.c) {
		return false // a tick that would be dropped changes nothing
	}
	return true
}

// candidates returns the timers that could fire next: those with the minimal deadline among the
// armed timers whose firing has an effect.
func (c *clock) candidates() []*Timer {
	var min time.Time
	found := false
	for _, t := range c.timers {
		if !c.effective(t) {
			continue
		}
		if !found || t.when.Before(min) {
			min, found = t.when, true
		}
	}
	if !found {
		return nil
	}
	var out []*Timer
	for _, t := range c.timers {
		if c.effective(t) && t.when.Equal(min) {
			out = append(out, t)
		}
	}
	return out
}

func (c *clock) Pending() int { return len(c.candidates()) }

func (c *clock) Describe(i int) string {
	cs := c.candidates()
	if i >= len(cs) {
		return "?"
	}
	t := cs[i]
	return fmt.Sprintf("timer#%d(%s) at +%v", t.seq, t.name, t.when.Sub(Base))
}

func (c *clock) remove(t *Timer) {
	for i, x := range c.timers {
		if x == t {
			c.timers = append(c.timers[:i], c.timers[i+1:]...)
			return
		}
	}
}

func (c *clock) Fire(i int) {
	cs := c.candidates()
	t := cs[i]
	if t.when.After(c.now) {
		c.now = t.when
	}
	// silently advance dropped ticks that lie in the past
	for _, x := range c.timers {
		if x != t && x.period > 0 && !c.effective(x) {
			for !x.when.After(c.now) {
				x.when = x.when.Add(x.period)
			}
		}
	}
	c.fired++
	vsched.Record2(&c.o, &t.o, kFire, uint64(t.seq))
	if t.period > 0 {
		t.when = t.when.Add(t.period)
	} else {
		t.armed = false
		c.remove(t)
	}
	switch {
	case t.f != nil:
		f := t.f
		vsched.GoNamed("timer:"+t.name, f)
	case t.c != nil:
		select {
		case t.c <- c.now:
		default:
		}
	case t.wake != nil:
		*t.wake = true
	}
}

// Armed returns the number of armed virtual timers (for oracles).
func Armed() int { return len(ck.timers) }

// ArmedNames lists the armed virtual timers (for oracles).
func ArmedNames() []string {
	var out []string
	for _, t := range ck.timers {
		out = append(out, fmt.Sprintf("%s@+%v", t.name, t.when.Sub(Base)))
	}
	return out
}

// Fired returns how many timer events fired in this execution.
func Fired() int { return ck.fired }

// VNow returns the virtual time without recording a step (for oracles).
func VNow() time.Time { return ck.now }

// FireNext lets a harness thread fire the earliest pending timer explicitly; it returns false
// if none is pending. The alternative candidates (equal deadlines) are an explorer choice.
func FireNext() bool {
	n := ck.Pending()
	if n == 0 {
		return false
	}
	i := vsched.ChooseFree(n, "firenext")
	ck.Fire(i)
	return true
}

// ---------------------------------------------------------------------------------------------

// Timer mirrors time.Timer.
type Timer struct {
	C      <-chan Time
	c      chan Time
	n      *time.Timer
	o      vsched.Obj
	when   time.Time
	f      func()
	wake   *bool
	armed  bool
	period time.Duration
	seq    int
	name   string
}

func (c *clock) arm(t *Timer, d time.Duration) {
	if d < 0 {
		d = 0
	}
	t.when = c.now.Add(d)
	if !t.armed {
		t.armed = true
		c.timers = append(c.timers, t)
	}
	vsched.Record2(&c.o, &t.o, kArm, uint64(d))
}

func newVirtual(name string) *Timer {
	ck.seq++
	return &Timer{seq: ck.seq, name: name}
}

// inert returns a timer that never fires: during the tear-down of an execution (parked threads
// leaving through Goexit run deferred code) nothing may arm a REAL timer, whose callback would
// fire natively in the middle of a later execution.
func inert() *Timer {
	c := make(chan Time)
	return &Timer{C: c, c: nil}
}

func NewTimer(d Duration) *Timer {
	if vsched.Aborting() {
		return inert()
	}
	if !vsched.Active() {
		n := time.NewTimer(d)
		return &Timer{n: n, C: n.C}
	}
	vsched.Point()
	t := newVirtual("chan")
	t.c = make(chan Time, 1)
	t.C = t.c
	ck.arm(t, d)
	return t
}

func AfterFunc(d Duration, f func()) *Timer {
	if vsched.Aborting() {
		return inert()
	}
	if !vsched.Active() {
		return &Timer{n: time.AfterFunc(d, f)}
	}
	vsched.Point()
	t := newVirtual("func")
	t.f = f
	ck.arm(t, d)
	return t
}

func After(d Duration) <-chan Time { return NewTimer(d).C }

func (t *Timer) Stop() bool {
	if t.n != nil {
		return t.n.Stop()
	}
	if !vsched.Active() {
		return false
	}
	vsched.Point()
	was := t.armed
	if was {
		t.armed = false
		ck.remove(t)
	}
	r := uint64(0)
	if was {
		r = 1
	}
	vsched.Record2(&ck.o, &t.o, kStop, r)
	return was
}

func (t *Timer) Reset(d Duration) bool {
	if t.n != nil {
		return t.n.Reset(d)
	}
	if !vsched.Active() {
		return false
	}
	vsched.Point()
	was := t.armed
	ck.arm(t, d)
	return was
}

// Ticker mirrors time.Ticker.
type Ticker struct {
	C <-chan Time
	n *time.Ticker
	t *Timer
}

func NewTicker(d Duration) *Ticker {
	if vsched.Aborting() {
		t := inert()
		return &Ticker{C: t.C, t: t}
	}
	if !vsched.Active() {
		n := time.NewTicker(d)
		return &Ticker{n: n, C: n.C}
	}
	if d <= 0 {
		panic("non-positive interval for NewTicker")
	}
	vsched.Point()
	t := newVirtual("ticker")
	t.c = make(chan Time, 1)
	t.C = t.c
	t.period = d
	ck.arm(t, d)
	return &Ticker{C: t.c, t: t}
}

func (k *Ticker) Stop() {
	if k.n != nil {
		k.n.Stop()
		return
	}
	k.t.Stop()
}

func (k *Ticker) Reset(d Duration) {
	if k.n != nil {
		k.n.Reset(d)
		return
	}
	k.t.period = d
	k.t.Reset(d)
}

func Tick(d Duration) <-chan Time { return NewTicker(d).C }

// ---------------------------------------------------------------------------------------------

func Now() Time {
	if !vsched.Active() {
		if vsched.Aborting() {
			return ck.now
		}
		return time.Now()
	}
	vsched.Record(&ck.o, kNow, false, uint64(ck.now.UnixNano()))
	return ck.now
}

func Since(t Time) Duration { return Now().Sub(t) }
func Until(t Time) Duration { return t.Sub(Now()) }

func Sleep(d Duration) {
	if !vsched.Active() {
		if vsched.Aborting() {
			return
		}
		time.Sleep(d)
		return
	}
	if d <= 0 {
		vsched.Point()
		return
	}
	woke := false
	t := newVirtual("sleep")
	t.wake = &woke
	ck.arm(t, d)
	vsched.Block("sleep", func() bool { return woke })
	vsched.Record(&t.o, kSleep, true, 0)
}

package vsys

import (
	"fmt"
	"syscall"

	"verif/vsched"
)

// Peer is the remote side of a simulated stream connection, driven by harness threads. Every
// method is one atomic step of "the other process" and a scheduling point.
type Peer struct {
	e   *endpoint
	Got []byte // everything the peer has read so far
}

// Read consumes up to max queued bytes (max <= 0: everything) without blocking.
func (p *Peer) Read(max int) []byte {
	vsched.Point()
	return p.read(max)
}

func (p *Peer) read(max int) []byte {
	e := p.e
	n := len(e.rcv)
	if max > 0 && max < n {
		n = max
	}
	out := append([]byte(nil), e.rcv[:n]...)
	e.rcv = append([]byte(nil), e.rcv[n:]...)
	p.Got = append(p.Got, out...)
	e.received += n
	a := e.other()
	var objs []*vsched.Obj
	if n > 0 && a.nospace && a.free() > 0 && a.f != nil && !a.closed {
		a.nospace = false
		objs = a.f.wake(EPOLLOUT, objs)
	}
	record(hPeer, uint64(n)+1<<40, &e.pair.o, objs)
	vsched.Logf("peer%d reads %d (left %d)", e.pair.id, n, len(e.rcv))
	return out
}

// Queued is the number of bytes waiting for the peer.
func (p *Peer) Queued() int { return len(p.e.rcv) }

// Readable reports whether Read would return data or the stream has ended.
func (p *Peer) Readable() bool { return len(p.e.rcv) > 0 || p.e.eof || p.e.rst }

// EOF reports whether the code under test has closed (or shut down) its side and everything
// was consumed.
func (p *Peer) EOF() bool { return len(p.e.rcv) == 0 && (p.e.eof || p.e.rst) }

// Closed reports whether the code under test closed its descriptor.
func (p *Peer) ClosedByRemote() bool { return p.e.other().closed }

// WaitReadable blocks until data or end of stream is available.
func (p *Peer) WaitReadable() {
	vsched.Block("peer.read", func() bool { return p.Readable() })
}

// Drain reads everything whenever something is queued, until the remote side closes or the
// whole system is otherwise idle; it is meant to run as its own (daemon) thread.
func (p *Peer) Drain() {
	vsched.SetDaemon()
	for {
		p.WaitReadable()
		if len(p.e.rcv) == 0 {
			return
		}
		p.read(0)
	}
}

// Write queues as much of b as fits towards the code under test and returns the count.
func (p *Peer) Write(b []byte) int {
	vsched.Point()
	return p.write(b)
}

func (p *Peer) write(b []byte) int {
	e := p.e
	a := e.other()
	if a.closed || e.wclosed || e.closed {
		vsched.Record(&e.pair.o, hPeer, true, 2<<40)
		return 0
	}
	n := a.rcvCap - len(a.rcv)
	if n > len(b) {
		n = len(b)
	}
	if n < 0 {
		n = 0
	}
	a.rcv = append(a.rcv, b[:n]...)
	e.sent += n
	var objs []*vsched.Obj
	if n > 0 && a.f != nil {
		objs = a.f.wake(EPOLLIN, objs)
	}
	record(hPeer, uint64(n)+3<<40, &e.pair.o, objs)
	vsched.Logf("peer%d writes %d/%d", e.pair.id, n, len(b))
	return n
}

// WriteAll blocks until all of b was queued (or the remote side closed).
func (p *Peer) WriteAll(b []byte) bool {
	for len(b) > 0 {
		a := p.e.other()
		vsched.Block("peer.write", func() bool { return a.closed || a.rcvCap-len(a.rcv) > 0 })
		if a.closed {
			return false
		}
		n := p.write(b)
		b = b[n:]
	}
	return true
}

// CloseWrite sends FIN.
func (p *Peer) CloseWrite() {
	vsched.Point()
	e := p.e
	a := e.other()
	e.wclosed = true
	a.eof = true
	var objs []*vsched.Obj
	if a.f != nil && !a.closed {
		objs = a.f.wake(EPOLLIN|EPOLLRDHUP, objs)
	}
	record(hPeer, 4<<40, &e.pair.o, objs)
	vsched.Logf("peer%d FIN", e.pair.id)
}

// Close closes the peer's socket (FIN, or RST if unread data is pending).
func (p *Peer) Close() {
	vsched.Point()
	e := p.e
	a := e.other()
	e.wclosed = true
	e.closed = true
	a.eof = true
	ev := uint32(EPOLLIN | EPOLLRDHUP)
	if len(e.rcv) > 0 {
		a.rst = true
		ev |= EPOLLERR | EPOLLHUP
	}
	if a.wclosed || a.unix {
		ev |= EPOLLHUP
	}
	e.rcv = nil
	var objs []*vsched.Obj
	if a.f != nil && !a.closed {
		objs = a.f.wake(ev, objs)
	}
	record(hPeer, 5<<40, &e.pair.o, objs)
	vsched.Logf("peer%d close", e.pair.id)
}

// Reset aborts the connection (RST).
func (p *Peer) Reset() {
	vsched.Point()
	e := p.e
	a := e.other()
	e.wclosed = true
	e.closed = true
	a.rst = true
	a.eof = true
	a.soerr = ECONNRESET
	e.rcv = nil
	var objs []*vsched.Obj
	if a.f != nil && !a.closed {
		objs = a.f.wake(EPOLLIN|EPOLLRDHUP|EPOLLERR|EPOLLHUP, objs)
	}
	record(hPeer, 6<<40, &e.pair.o, objs)
	vsched.Logf("peer%d RST", e.pair.id)
}

// Sent is the total number of bytes the code under test managed to hand to the kernel.
func (p *Peer) SentByRemote() int { return p.e.other().sent }

// ID identifies the connection in logs.
func (p *Peer) ID() int { return p.e.pair.id }

// ---------------------------------------------------------------------------------------------
// dialing

// DialPlan says how the next Connect calls behave.
type DialPlan struct {
	Immediate bool  // connect succeeds synchronously
	Err       Errno // connect fails synchronously with this error
}

var defaultPlan = DialPlan{}

// SetDialPlan sets the behaviour of subsequent stream Connect calls in this execution.
func SetDialPlan(p DialPlan) { k.dialPlan["*"] = &p }

// PendingDial is a connect in progress, resolved by the harness.
type PendingDial struct {
	e        *endpoint
	resolved bool
	closed   bool
	Addr     Sockaddr
}

// Dials lists the connects the code under test started.
func Dials() []*PendingDial { return k.dials }

// Resolved reports whether Accept or Refuse was called.
func (d *PendingDial) Resolved() bool { return d.resolved }

// ClosedByRemote reports whether the dialing side closed the descriptor already.
func (d *PendingDial) ClosedByRemote() bool { return d.closed }

// Accept completes the handshake and returns the server-side peer.
func (d *PendingDial) Accept() *Peer {
	vsched.Point()
	d.resolved = true
	e := d.e
	var objs []*vsched.Obj
	if !e.closed {
		e.state = csEstablished
		e.nospace = false
		objs = e.f.wake(EPOLLOUT, objs)
	}
	record(hConnect, 1, &e.pair.o, objs)
	vsched.Logf("dial fd=%d established", e.f.fd)
	return &Peer{e: e.other()}
}

// Refuse makes the connect fail with ECONNREFUSED.
func (d *PendingDial) Refuse() {
	vsched.Point()
	d.resolved = true
	e := d.e
	var objs []*vsched.Obj
	if !e.closed {
		e.state = csRefused
		e.soerr = ECONNREFUSED
		objs = e.f.wake(EPOLLIN|EPOLLOUT|EPOLLERR|EPOLLHUP|EPOLLRDHUP, objs)
	}
	record(hConnect, 2, &e.pair.o, objs)
	vsched.Logf("dial fd=%d refused", e.f.fd)
}

// Established reports whether the connection reached ESTABLISHED.
func (d *PendingDial) Established() bool { return d.e.state == csEstablished }

func Socket(domain, typ, proto int) (int, error) {
	if !vsched.Active() {
		if vsched.Aborting() {
			return -1, EMFILE
		}
		return syscall.Socket(domain, typ, proto)
	}
	vsched.Point()
	switch typ &^ (SOCK_NONBLOCK | SOCK_CLOEXEC) {
	case SOCK_STREAM, SOCK_SEQPACKET:
		f := k.alloc(kSock)
		k.npairs++
		p := &pair{id: k.npairs}
		a := &endpoint{pair: p, isA: true, f: f, rcvCap: 1 << 20, state: csUnconnected, unix: domain == AF_UNIX}
		b := &endpoint{pair: p, rcvCap: DialSndCap, unix: a.unix}
		p.a, p.b = a, b
		f.ep = a
		if a.unix {
			a.addr = &SockaddrUnix{Name: ""}
		} else {
			a.addr = &SockaddrInet4{Addr: [4]byte{127, 0, 0, 1}, Port: 50000 + p.id}
		}
		vsched.Record(&p.o, hSock, true, uint64(f.fd))
		return f.fd, nil
	case SOCK_DGRAM:
		f := k.alloc(kDgram)
		f.dg = &dgramSock{f: f, addr: &SockaddrInet4{Addr: [4]byte{127, 0, 0, 1}, Port: 51000 + f.fd}}
		vsched.Record(&f.dg.o, hSock, true, uint64(f.fd))
		return f.fd, nil
	}
	return -1, EINVAL
}

// DialSndCap is the send capacity of dialed connections.
var DialSndCap = 1 << 20

func Connect(fd int, sa Sockaddr) error {
	if !vsched.Active() {
		if vsched.Aborting() {
			return EBADF
		}
		return syscall.Connect(fd, sa)
	}
	vsched.Point()
	f := k.get(fd, "connect")
	if f == nil {
		return EBADF
	}
	if f.kind == kDgram {
		f.dg.connected = sa
		vsched.Record(&f.dg.o, hConnect, true, 0)
		return nil
	}
	if f.kind != kSock {
		return ENOTSOCK
	}
	e := f.ep
	e.raddr = sa
	plan := k.dialPlan["*"]
	if plan == nil {
		plan = &defaultPlan
	}
	if plan.Err != 0 {
		vsched.Record(&e.pair.o, hConnect, true, uint64(plan.Err))
		return plan.Err
	}
	d := &PendingDial{e: e, Addr: sa}
	k.dials = append(k.dials, d)
	if plan.Immediate {
		e.state = csEstablished
		d.resolved = true
		vsched.Record(&e.pair.o, hConnect, true, 3)
		return nil
	}
	e.state = csInProgress
	vsched.Record(&e.pair.o, hConnect, true, 4)
	vsched.Logf("connect fd=%d -> EINPROGRESS", fd)
	return EINPROGRESS
}

// PeerOf returns the server-side peer of an immediately established dial.
func (d *PendingDial) Peer() *Peer { return &Peer{e: d.e.other()} }

// ---------------------------------------------------------------------------------------------
// datagram sockets

type dgram struct {
	from    Sockaddr
	payload []byte
}

// SentDgram is a datagram the code under test sent.
type SentDgram struct {
	To      Sockaddr
	Payload []byte
}

type dgramSock struct {
	o         vsched.Obj
	f         *file
	q         []dgram
	addr      Sockaddr
	connected Sockaddr
	closed    bool
	out       []SentDgram
}

// UDPPeer drives a simulated datagram socket from outside.
type UDPPeer struct{ d *dgramSock }

// NewUDPSocket creates a bound datagram socket owned by the code under test.
func NewUDPSocket(port int) (int, *UDPPeer) {
	f := k.alloc(kDgram)
	f.dg = &dgramSock{f: f, addr: &SockaddrInet4{Addr: [4]byte{127, 0, 0, 1}, Port: port}}
	vsched.Record(&f.dg.o, hSock, true, uint64(f.fd))
	return f.fd, &UDPPeer{d: f.dg}
}

// UDPPeerOf returns the outside handle of a datagram descriptor created by Socket().
func UDPPeerOf(fd int) *UDPPeer {
	f := k.files[fd]
	if f == nil || f.kind != kDgram {
		return nil
	}
	return &UDPPeer{d: f.dg}
}

// Send delivers one datagram from the remote address 10.0.0.1:fromPort.
func (u *UDPPeer) Send(fromPort int, payload []byte) {
	u.SendFrom(&SockaddrInet4{Addr: [4]byte{10, 0, 0, 1}, Port: fromPort}, payload)
}

// SendFrom delivers one datagram from the given remote address (IPv4 or IPv6, any zone).
func (u *UDPPeer) SendFrom(from Sockaddr, payload []byte) {
	vsched.Point()
	d := u.d
	if d.closed {
		vsched.Record(&d.o, hPeer, true, 7<<40)
		return
	}
	var h uint64
	switch a := from.(type) {
	case *SockaddrInet4:
		a2 := *a
		from = &a2
		h = uint64(a.Port)
		for _, b := range a.Addr {
			h = h*131 + uint64(b)
		}
	case *SockaddrInet6:
		a2 := *a
		from = &a2
		h = uint64(a.Port)*31 + uint64(a.ZoneId) + 6
		for _, b := range a.Addr {
			h = h*131 + uint64(b)
		}
	}
	d.q = append(d.q, dgram{from: from, payload: append([]byte(nil), payload...)})
	objs := d.f.wake(EPOLLIN, nil)
	record(hPeer, 8<<40|(h&0xffffffffff), &d.o, objs)
	vsched.Logf("udp datagram from %v len=%d", from, len(payload))
}

// Sent lists what the code under test sent through the socket.
func (u *UDPPeer) Sent() []SentDgram { return u.d.out }

// Queued is the number of datagrams not yet received.
func (u *UDPPeer) Queued() int { return len(u.d.q) }

func (d *dgramSock) recvfrom(p []byte) (int, Sockaddr, error) {
	k.stats.Reads++
	if len(d.q) == 0 {
		k.stats.ReadEagain++
		vsched.Record(&d.o, hRead, true, 0xea6)
		vsched.Logf("recvfrom fd=%d -> EAGAIN", d.f.fd)
		return -1, nil, EAGAIN
	}
	if k.Eintr && vsched.Choose(2, "recvfrom.eintr") == 1 {
		k.stats.Eintrs++
		vsched.Record(&d.o, hRead, true, 0xe1)
		return -1, nil, EINTR
	}
	g := d.q[0]
	d.q = d.q[1:]
	n := copy(p, g.payload)
	vsched.Record(&d.o, hRead, true, uint64(n))
	vsched.Logf("recvfrom fd=%d -> %d", d.f.fd, n)
	return n, g.from, nil
}

func (d *dgramSock) write(p []byte) (int, error) {
	if d.connected == nil {
		return -1, Errno(syscall.EDESTADDRREQ)
	}
	d.out = append(d.out, SentDgram{To: d.connected, Payload: append([]byte(nil), p...)})
	vsched.Record(&d.o, hWrite, true, uint64(len(p)))
	return len(p), nil
}

func Recvfrom(fd int, p []byte, flags int) (int, Sockaddr, error) {
	if !vsched.Active() || !isSim(fd) {
		if vsched.Aborting() {
			return -1, nil, EBADF
		}
		return syscall.Recvfrom(fd, p, flags)
	}
	vsched.Point()
	f := k.get(fd, "recvfrom")
	if f == nil {
		return -1, nil, EBADF
	}
	if f.kind != kDgram {
		return -1, nil, ENOTSOCK
	}
	return f.dg.recvfrom(p)
}

func Sendto(fd int, p []byte, flags int, to Sockaddr) error {
	if !vsched.Active() || !isSim(fd) {
		if vsched.Aborting() {
			return EBADF
		}
		return syscall.Sendto(fd, p, flags, to)
	}
	vsched.Point()
	f := k.get(fd, "sendto")
	if f == nil {
		return EBADF
	}
	if f.kind != kDgram {
		return ENOTSOCK
	}
	f.dg.out = append(f.dg.out, SentDgram{To: to, Payload: append([]byte(nil), p...)})
	vsched.Record(&f.dg.o, hWrite, true, uint64(len(p)))
	return nil
}

// String renders a socket address.
func AddrString(sa Sockaddr) string {
	switch v := sa.(type) {
	case *SockaddrInet4:
		return fmt.Sprintf("%d.%d.%d.%d:%d", v.Addr[0], v.Addr[1], v.Addr[2], v.Addr[3], v.Port)
	case *SockaddrUnix:
		return "unix:" + v.Name
	}
	return "?"
}

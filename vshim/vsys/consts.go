// Package vsys replaces "syscall" in the instrumented copy of nbio with a small simulated Linux
// socket / epoll / eventfd layer whose nondeterministic answers are decided by the explorer.
package vsys

import "syscall"

type (
	Errno         = syscall.Errno
	EpollEvent    = syscall.EpollEvent
	Iovec         = syscall.Iovec
	Sockaddr      = syscall.Sockaddr
	SockaddrInet4 = syscall.SockaddrInet4
	SockaddrInet6 = syscall.SockaddrInet6
	SockaddrUnix  = syscall.SockaddrUnix
	RawConn       = syscall.RawConn
	Rlimit        = syscall.Rlimit
	Linger        = syscall.Linger
	Signal        = syscall.Signal
	Stat_t        = syscall.Stat_t
	Timeval       = syscall.Timeval
)

const (
	EINTR        = syscall.EINTR
	EAGAIN       = syscall.EAGAIN
	EWOULDBLOCK  = syscall.EWOULDBLOCK
	EINPROGRESS  = syscall.EINPROGRESS
	ENOENT       = syscall.ENOENT
	EINVAL       = syscall.EINVAL
	EBADF        = syscall.EBADF
	EPIPE        = syscall.EPIPE
	ECONNRESET   = syscall.ECONNRESET
	ECONNREFUSED = syscall.ECONNREFUSED
	ENOTCONN     = syscall.ENOTCONN
	EEXIST       = syscall.EEXIST
	EMFILE       = syscall.EMFILE
	ENOTSOCK     = syscall.ENOTSOCK
	ETIMEDOUT    = syscall.ETIMEDOUT
	ECONNABORTED = syscall.ECONNABORTED
	EISCONN      = syscall.EISCONN
	EALREADY     = syscall.EALREADY
	ENOMEM       = syscall.ENOMEM
	ENOBUFS      = syscall.ENOBUFS
	EMSGSIZE     = syscall.EMSGSIZE

	EPOLLIN      = syscall.EPOLLIN
	EPOLLOUT     = syscall.EPOLLOUT
	EPOLLPRI     = syscall.EPOLLPRI
	EPOLLERR     = syscall.EPOLLERR
	EPOLLHUP     = syscall.EPOLLHUP
	EPOLLRDHUP   = syscall.EPOLLRDHUP
	EPOLLONESHOT = syscall.EPOLLONESHOT
	EPOLLET      = syscall.EPOLLET

	EPOLL_CTL_ADD = syscall.EPOLL_CTL_ADD
	EPOLL_CTL_MOD = syscall.EPOLL_CTL_MOD
	EPOLL_CTL_DEL = syscall.EPOLL_CTL_DEL
	EPOLL_CLOEXEC = syscall.EPOLL_CLOEXEC

	AF_UNIX  = syscall.AF_UNIX
	AF_INET  = syscall.AF_INET
	AF_INET6 = syscall.AF_INET6

	SOCK_STREAM    = syscall.SOCK_STREAM
	SOCK_DGRAM     = syscall.SOCK_DGRAM
	SOCK_SEQPACKET = syscall.SOCK_SEQPACKET
	SOCK_NONBLOCK  = syscall.SOCK_NONBLOCK
	SOCK_CLOEXEC   = syscall.SOCK_CLOEXEC

	SOL_SOCKET   = syscall.SOL_SOCKET
	SO_KEEPALIVE = syscall.SO_KEEPALIVE
	SO_SNDBUF    = syscall.SO_SNDBUF
	SO_RCVBUF    = syscall.SO_RCVBUF
	SO_LINGER    = syscall.SO_LINGER
	SO_REUSEADDR = syscall.SO_REUSEADDR
	SO_REUSEPORT = 0xf
	SO_ERROR     = syscall.SO_ERROR

	IPPROTO_TCP   = syscall.IPPROTO_TCP
	IPPROTO_UDP   = syscall.IPPROTO_UDP
	TCP_NODELAY   = syscall.TCP_NODELAY
	TCP_KEEPINTVL = syscall.TCP_KEEPINTVL
	TCP_KEEPIDLE  = syscall.TCP_KEEPIDLE
	TCP_KEEPCNT   = syscall.TCP_KEEPCNT

	SYS_WRITEV   = syscall.SYS_WRITEV
	SYS_EVENTFD2 = syscall.SYS_EVENTFD2
	SYS_READV    = syscall.SYS_READV

	O_NONBLOCK = syscall.O_NONBLOCK
	O_CLOEXEC  = syscall.O_CLOEXEC
	O_RDONLY   = syscall.O_RDONLY

	RLIMIT_NOFILE = syscall.RLIMIT_NOFILE

	MSG_DONTWAIT = syscall.MSG_DONTWAIT
	MSG_NOSIGNAL = syscall.MSG_NOSIGNAL

	SHUT_RD   = syscall.SHUT_RD
	SHUT_WR   = syscall.SHUT_WR
	SHUT_RDWR = syscall.SHUT_RDWR

	SIGPIPE = syscall.SIGPIPE
)

// Getrlimit is always the real one (it runs in package init).
func Getrlimit(resource int, rlim *Rlimit) error { return syscall.Getrlimit(resource, rlim) }

package vsys

import (
	"fmt"
	"sort"
	"syscall"
	"unsafe"

	"verif/vsched"
)

// FDBase is the first simulated descriptor number. Smaller numbers are real descriptors.
const FDBase = 64

// FDLimit is one past the last simulated descriptor number.
const FDLimit = 128

type fkind int

const (
	kSock fkind = iota
	kEpoll
	kEventfd
	kDgram
)

type file struct {
	fd   int
	kind fkind
	ep   *endpoint
	epi  *epoll
	evc  uint64     // eventfd counter
	dg   *dgramSock // datagram socket
	gen  int        // open generation of this fd number
	o    vsched.Obj // eventfd / misc object
	// epoll items watching this file
	watchers []*epitem
	nonblock bool
}

type connState int

const (
	csEstablished connState = iota
	csUnconnected
	csInProgress
	csRefused
)

// endpoint is one side of a simulated stream connection.
type endpoint struct {
	pair     *pair
	isA      bool // the side owned by the code under test (has a descriptor)
	f        *file
	rcv      []byte // bytes queued for this side to read
	rcvCap   int    // how many bytes the other side may queue here
	nospace  bool   // this side, as a writer, ran out of space (SOCK_NOSPACE)
	eof      bool   // the other side shut down its write direction
	rst      bool   // connection reset
	wclosed  bool   // this side shut down its write direction
	closed   bool   // this side is fully closed
	state    connState
	soerr    Errno
	sent     int // total bytes this side wrote
	received int // total bytes this side read
	unix     bool
	addr     Sockaddr
	raddr    Sockaddr
}

type pair struct {
	o    vsched.Obj
	a, b *endpoint
	id   int
}

type epitem struct {
	f        *file
	mask     uint32
	ready    bool // on the ready list (a wait-queue callback fired since the last report)
	readySeq int
	disabled bool // EPOLLONESHOT consumed
	user     EpollEvent
}

type epoll struct {
	o     vsched.Obj
	items map[int]*epitem
	seq   int
}

// Stats counts what the simulated kernel was asked to do in the current execution
// (vacuity counters for the harnesses).
type Stats struct {
	Writes, ShortWrites, Eagains, Eintrs, Reads, ReadEagain, EpollWaits, EpollEvents int
	Sendfiles, Writevs, EBADF, CtlENOENT                                             int
}

type kernel struct {
	files    [FDLimit]*file
	gens     [FDLimit]int
	npairs   int
	stats    Stats
	badfd    []string // syscalls on descriptors that are not open
	log      []string
	realDups map[int]bool // real descriptors the code under test obtained from Dup
	dialPlan map[string]*DialPlan
	dials    []*PendingDial
	opened   int
	// fault switches
	ShortWrites bool // offer short-count deviations on writes
	Eintr       bool // offer EINTR deviations
}

var k *kernel

func init() {
	vsched.OnStart(func() {
		if k != nil {
			// real descriptors the previous execution obtained from Dup and never closed
			for fd := range k.realDups {
				_ = syscall.Close(fd)
			}
		}
		k = &kernel{realDups: map[int]bool{}, dialPlan: map[string]*DialPlan{}, ShortWrites: true, Eintr: true}
	})
}

// Configure sets the fault menu for the current execution.
func Configure(shortWrites, eintr bool) {
	k.ShortWrites = shortWrites
	k.Eintr = eintr
}

// GetStats returns the counters of the current execution.
func GetStats() Stats { return k.stats }

// BadFDCalls lists system calls issued on closed descriptor numbers in this execution.
func BadFDCalls() []string { return k.badfd }

// OpenFDs lists the simulated descriptors that are open, with their kind.
func OpenFDs() []string {
	var out []string
	for fd := FDBase; fd < FDLimit; fd++ {
		if f := k.files[fd]; f != nil {
			out = append(out, fmt.Sprintf("%d:%s", fd, [...]string{"sock", "epoll", "eventfd", "dgram"}[f.kind]))
		}
	}
	var rd []int
	for fd := range k.realDups {
		rd = append(rd, fd)
	}
	sort.Ints(rd)
	for _, fd := range rd {
		out = append(out, fmt.Sprintf("%d:realdup", fd))
	}
	return out
}

func (kk *kernel) alloc(kind fkind) *file {
	for fd := FDBase; fd < FDLimit; fd++ {
		if kk.files[fd] == nil {
			kk.gens[fd]++
			f := &file{fd: fd, kind: kind, gen: kk.gens[fd]}
			kk.files[fd] = f
			kk.opened++
			return f
		}
	}
	panic("vsys: out of simulated descriptors")
}

func isSim(fd int) bool { return fd >= FDBase && fd < FDLimit }

func (kk *kernel) get(fd int, call string) *file {
	if !isSim(fd) {
		return nil
	}
	f := kk.files[fd]
	if f == nil {
		kk.stats.EBADF++
		kk.badfd = append(kk.badfd, fmt.Sprintf("%s(fd=%d) by %s", call, fd, vsched.CurName()))
	}
	return f
}

var (
	hWrite   = vsched.HashString("sys.write")
	hRead    = vsched.HashString("sys.read")
	hClose   = vsched.HashString("sys.close")
	hCtl     = vsched.HashString("sys.epoll_ctl")
	hWait    = vsched.HashString("sys.epoll_wait")
	hEvent   = vsched.HashString("sys.eventfd")
	hPeer    = vsched.HashString("peer")
	hConnect = vsched.HashString("sys.connect")
	hSock    = vsched.HashString("sys.socket")
)

// ---------------------------------------------------------------------------------------------
// readiness and wake-ups

func (e *endpoint) free() int {
	p := e.other()
	n := p.rcvCap - len(p.rcv)
	if n < 0 {
		n = 0
	}
	return n
}

func (e *endpoint) other() *endpoint {
	if e.isA {
		return e.pair.b
	}
	return e.pair.a
}

// readiness of the A side as poll() would report it.
func (e *endpoint) readiness() uint32 {
	var r uint32
	switch e.state {
	case csUnconnected, csInProgress:
		return 0
	case csRefused:
		return EPOLLIN | EPOLLOUT | EPOLLERR | EPOLLHUP | EPOLLRDHUP
	}
	if len(e.rcv) > 0 || e.eof || e.rst {
		r |= EPOLLIN
	}
	if e.eof {
		r |= EPOLLRDHUP
	}
	if e.rst {
		r |= EPOLLERR | EPOLLHUP | EPOLLRDHUP | EPOLLOUT
	} else if (e.eof && e.wclosed) || (e.unix && e.other().closed) {
		// AF_UNIX: the surviving end reports HUP as soon as the peer closed its descriptor
		// (unix_release_sock shuts both directions of the peer), also with input still unread
		r |= EPOLLHUP
	}
	if !e.rst && !e.wclosed && (e.free() > 0 || e.other().closed) {
		r |= EPOLLOUT
	}
	return r
}

func (f *file) readiness() uint32 {
	switch f.kind {
	case kSock:
		return f.ep.readiness()
	case kEventfd:
		r := uint32(EPOLLOUT)
		if f.evc > 0 {
			r |= EPOLLIN
		}
		return r
	case kDgram:
		r := uint32(EPOLLOUT)
		if len(f.dg.q) > 0 {
			r |= EPOLLIN
		}
		return r
	}
	return 0
}

// wake is the wait-queue callback: events says what happened. Returns the epoll objects whose
// state changed (for happens-before recording).
func (f *file) wake(events uint32, objs []*vsched.Obj) []*vsched.Obj {
	for _, it := range f.watchers {
		if it.disabled {
			continue
		}
		if events&(it.mask|EPOLLERR|EPOLLHUP) == 0 {
			continue
		}
		ep := f.epOf(it)
		if !it.ready {
			it.ready = true
			ep.seq++
			it.readySeq = ep.seq
		}
		objs = append(objs, &ep.o)
	}
	return objs
}

func (f *file) epOf(it *epitem) *epoll {
	for fd := FDBase; fd < FDLimit; fd++ {
		if g := k.files[fd]; g != nil && g.kind == kEpoll {
			if g.epi.items[f.fd] == it {
				return g.epi
			}
		}
	}
	panic("vsys: epitem without epoll")
}

func record(kind uint64, result uint64, primary *vsched.Obj, others []*vsched.Obj) {
	if len(others) == 0 {
		vsched.Record(primary, kind, true, result)
		return
	}
	for _, o := range others {
		vsched.Record2(primary, o, kind, result)
	}
}

// ---------------------------------------------------------------------------------------------
// stream sockets

// NewStreamPair creates an established, non-blocking simulated stream connection. sndCap is the
// number of bytes the code under test can have in flight towards the peer; rcvCap bounds what
// the peer can queue towards the code under test.
func NewStreamPair(unix bool, sndCap, rcvCap int) (int, *Peer) {
	f := k.alloc(kSock)
	k.npairs++
	p := &pair{id: k.npairs}
	a := &endpoint{pair: p, isA: true, f: f, rcvCap: rcvCap, unix: unix}
	b := &endpoint{pair: p, rcvCap: sndCap, unix: unix}
	p.a, p.b = a, b
	f.ep = a
	f.nonblock = true
	port := 40000 + p.id
	a.addr = &SockaddrInet4{Addr: [4]byte{127, 0, 0, 1}, Port: port}
	a.raddr = &SockaddrInet4{Addr: [4]byte{127, 0, 0, 1}, Port: 80}
	vsched.Record(&p.o, hSock, true, uint64(f.fd))
	return f.fd, &Peer{e: b}
}

type wopt struct {
	n   int
	err Errno
}

// writeMenu enumerates the answers the kernel may give to a write of n bytes with f bytes of
// room: the default (as much as fits) first, then the deviations.
func writeMenu(n, free int, cuts []int) []wopt {
	if free == 0 {
		return []wopt{{-1, EAGAIN}}
	}
	m := n
	if free < m {
		m = free
	}
	opts := []wopt{{m, 0}}
	if k.ShortWrites {
		seen := map[int]bool{m: true}
		cand := append([]int{1, m - 1}, cuts...)
		for _, c := range cand {
			if c >= 1 && c < m && !seen[c] {
				seen[c] = true
				opts = append(opts, wopt{c, 0})
			}
		}
	}
	if k.Eintr {
		opts = append(opts, wopt{-1, EINTR})
	}
	return opts
}

// streamWrite appends data produced by fill (which copies k bytes into the destination) to
// the peer's receive queue.
func (e *endpoint) streamWrite(call string, n int, cuts []int, take func(k int) []byte) (int, error) {
	if e.rst || e.other().closed || e.wclosed {
		k.stats.Writes++
		vsched.Record(&e.pair.o, hWrite, true, 0xdead)
		vsched.Logf("%s fd=%d n=%d -> EPIPE", call, e.f.fd, n)
		return -1, EPIPE
	}
	if e.state != csEstablished {
		vsched.Record(&e.pair.o, hWrite, true, 0xdeae)
		switch e.state {
		case csRefused:
			return -1, ECONNREFUSED
		case csInProgress:
			e.nospace = true
			k.stats.Eagains++
			return -1, EAGAIN
		}
		return -1, ENOTCONN
	}
	free := e.free()
	menu := writeMenu(n, free, cuts)
	c := 0
	if len(menu) > 1 {
		c = vsched.Choose(len(menu), call)
	}
	o := menu[c]
	k.stats.Writes++
	if o.err != 0 {
		if o.err == EAGAIN {
			e.nospace = true
			k.stats.Eagains++
		} else {
			k.stats.Eintrs++
		}
		vsched.Record(&e.pair.o, hWrite, true, uint64(o.err)<<32)
		vsched.Logf("%s fd=%d n=%d free=%d -> %v", call, e.f.fd, n, free, o.err)
		if o.err == EAGAIN {
			vsched.Point() // see the end of this function
		}
		return -1, o.err
	}
	data := take(o.n)
	p := e.other()
	p.rcv = append(p.rcv, data...)
	e.sent += o.n
	var objs []*vsched.Obj
	if o.n < n {
		k.stats.ShortWrites++
		e.nospace = true
		if e.free() > 0 {
			// room is left although the kernel took less than offered: the writability
			// notification that Linux owes after SOCK_NOSPACE is delivered at once.
			e.nospace = false
			objs = e.f.wake(EPOLLOUT, objs)
		}
	}
	record(hWrite, uint64(o.n), &e.pair.o, objs)
	vsched.Logf("%s fd=%d n=%d free=%d -> %d", call, e.f.fd, n, free, o.n)
	if o.n < n {
		// a second scheduling point on the way back from a call that did not take everything:
		// the caller is about to queue the rest, and the peer may make room (and the poller see
		// the writability event) before it has done so. Without it "system call returned" and
		// "remainder queued" would be one atomic step of the caller.
		vsched.Point()
	}
	return o.n, nil
}

func (e *endpoint) streamRead(b []byte) (int, error) {
	k.stats.Reads++
	if e.state == csRefused {
		vsched.Record(&e.pair.o, hRead, true, 0xdeaf)
		return -1, ECONNREFUSED
	}
	if len(b) == 0 {
		vsched.Record(&e.pair.o, hRead, true, 0)
		vsched.Logf("read fd=%d len=0 -> 0", e.f.fd)
		return 0, nil
	}
	q := len(e.rcv)
	if q == 0 {
		if e.rst {
			vsched.Record(&e.pair.o, hRead, true, 0xdead)
			vsched.Logf("read fd=%d -> ECONNRESET", e.f.fd)
			return -1, ECONNRESET
		}
		if e.eof {
			vsched.Record(&e.pair.o, hRead, true, 0xe0f)
			vsched.Logf("read fd=%d -> 0 (EOF)", e.f.fd)
			return 0, nil
		}
		k.stats.ReadEagain++
		vsched.Record(&e.pair.o, hRead, true, 0xea6)
		vsched.Logf("read fd=%d -> EAGAIN", e.f.fd)
		return -1, EAGAIN
	}
	if k.Eintr && vsched.Choose(2, "read.eintr") == 1 {
		k.stats.Eintrs++
		vsched.Record(&e.pair.o, hRead, true, 0xe1)
		vsched.Logf("read fd=%d -> EINTR", e.f.fd)
		return -1, EINTR
	}
	n := q
	if len(b) < n {
		n = len(b)
	}
	copy(b, e.rcv[:n])
	e.rcv = append([]byte(nil), e.rcv[n:]...)
	e.received += n
	vsched.Record(&e.pair.o, hRead, true, uint64(n))
	vsched.Logf("read fd=%d len=%d queued=%d -> %d", e.f.fd, len(b), q, n)
	return n, nil
}

// ---------------------------------------------------------------------------------------------
// exported system calls

func Read(fd int, p []byte) (int, error) {
	if !vsched.Active() {
		if vsched.Aborting() {
			return -1, EBADF
		}
		return syscall.Read(fd, p)
	}
	if !isSim(fd) {
		return syscall.Read(fd, p)
	}
	vsched.Point()
	f := k.get(fd, "read")
	if f == nil {
		return -1, EBADF
	}
	switch f.kind {
	case kSock:
		return f.ep.streamRead(p)
	case kEventfd:
		if f.evc == 0 {
			return -1, EAGAIN
		}
		*(*uint64)(unsafe.Pointer(&p[0])) = f.evc
		f.evc = 0
		vsched.Record(&f.o, hEvent, true, 0)
		return 8, nil
	case kDgram:
		n, _, err := f.dg.recvfrom(p)
		return n, err
	}
	return -1, EINVAL
}

func Write(fd int, p []byte) (int, error) {
	if !vsched.Active() {
		if vsched.Aborting() {
			return -1, EBADF
		}
		return syscall.Write(fd, p)
	}
	if !isSim(fd) {
		return syscall.Write(fd, p)
	}
	vsched.Point()
	f := k.get(fd, "write")
	if f == nil {
		return -1, EBADF
	}
	switch f.kind {
	case kSock:
		if len(p) == 0 {
			return 0, nil
		}
		return f.ep.streamWrite("write", len(p), nil, func(n int) []byte { return p[:n] })
	case kEventfd:
		f.evc += *(*uint64)(unsafe.Pointer(&p[0]))
		objs := f.wake(EPOLLIN, nil)
		record(hEvent, f.evc, &f.o, objs)
		vsched.Logf("eventfd write fd=%d", fd)
		return 8, nil
	case kDgram:
		return f.dg.write(p)
	}
	return -1, EINVAL
}

// Syscall implements the two raw calls nbio issues: writev and eventfd2.
func Syscall(trap, a1, a2, a3 uintptr) (r1, r2 uintptr, err Errno) {
	if !vsched.Active() {
		if vsched.Aborting() {
			return ^uintptr(0), 0, EBADF
		}
		return syscall.Syscall(trap, a1, a2, a3)
	}
	switch trap {
	case SYS_EVENTFD2:
		vsched.Point()
		f := k.alloc(kEventfd)
		f.evc = uint64(a1)
		vsched.Record(&f.o, hEvent, true, uint64(f.fd))
		return uintptr(f.fd), 0, 0
	case SYS_WRITEV:
		fd := int(a1)
		if !isSim(fd) {
			return syscall.Syscall(trap, a1, a2, a3)
		}
		vsched.Point()
		f := k.get(fd, "writev")
		if f == nil {
			return ^uintptr(0), 0, EBADF
		}
		if f.kind != kSock {
			return ^uintptr(0), 0, EINVAL
		}
		iovs := unsafe.Slice((*Iovec)(unsafe.Pointer(a2)), int(a3))
		total := 0
		var cuts []int
		var bufs [][]byte
		for _, v := range iovs {
			b := unsafe.Slice(v.Base, int(v.Len))
			bufs = append(bufs, b)
			total += len(b)
			cuts = append(cuts, total, total+1)
		}
		k.stats.Writevs++
		n, e := f.ep.streamWrite("writev", total, cuts, func(n int) []byte {
			out := make([]byte, 0, n)
			for _, b := range bufs {
				if len(out)+len(b) > n {
					b = b[:n-len(out)]
				}
				out = append(out, b...)
			}
			return out
		})
		if e != nil {
			return ^uintptr(0), 0, e.(Errno)
		}
		return uintptr(n), 0, 0
	}
	panic(fmt.Sprintf("vsys: unsupported raw syscall %d", trap))
}

// Sendfile copies from a real file descriptor into a simulated socket.
func Sendfile(outfd int, infd int, offset *int64, count int) (int, error) {
	if !vsched.Active() {
		if vsched.Aborting() {
			return -1, EBADF
		}
		return syscall.Sendfile(outfd, infd, offset, count)
	}
	if !isSim(outfd) {
		return syscall.Sendfile(outfd, infd, offset, count)
	}
	vsched.Point()
	f := k.get(outfd, "sendfile")
	if f == nil {
		return -1, EBADF
	}
	if isSim(infd) {
		return -1, EINVAL
	}
	k.stats.Sendfiles++
	// how many bytes does the file hold from *offset?
	buf := make([]byte, count)
	avail, err := syscall.Pread(infd, buf, *offset)
	if err != nil {
		return -1, err
	}
	if avail == 0 {
		vsched.Record(&f.ep.pair.o, hWrite, true, 0x5f0)
		return 0, nil
	}
	n, werr := f.ep.streamWrite("sendfile", avail, nil, func(n int) []byte { return buf[:n] })
	if werr != nil {
		return n, werr
	}
	*offset += int64(n)
	return n, nil
}

func Close(fd int) error {
	if !vsched.Active() {
		if vsched.Aborting() {
			return nil
		}
		return syscall.Close(fd)
	}
	if !isSim(fd) {
		if k.realDups[fd] {
			delete(k.realDups, fd)
		}
		return syscall.Close(fd)
	}
	vsched.Point()
	f := k.get(fd, "close")
	if f == nil {
		return EBADF
	}
	vsched.Logf("close fd=%d", fd)
	k.files[fd] = nil
	// remove from every epoll interest list
	var objs []*vsched.Obj
	for g := FDBase; g < FDLimit; g++ {
		if ef := k.files[g]; ef != nil && ef.kind == kEpoll {
			if _, ok := ef.epi.items[fd]; ok {
				delete(ef.epi.items, fd)
				objs = append(objs, &ef.epi.o)
			}
		}
	}
	f.watchers = nil
	switch f.kind {
	case kSock:
		e := f.ep
		e.closed = true
		e.wclosed = true
		p := e.other()
		if len(e.rcv) > 0 {
			// unread data at close: the peer gets a reset
			p.rst = true
		}
		p.eof = true
		e.rcv = nil
		record(hClose, 0, &e.pair.o, objs)
		for _, d := range k.dials {
			if d.e == e {
				d.closed = true
			}
		}
	case kEpoll:
		for _, it := range f.epi.items {
			it.f.dropWatcher(it)
		}
		vsched.Record(&f.epi.o, hClose, true, 0)
	case kEventfd:
		record(hClose, 0, &f.o, objs)
	case kDgram:
		f.dg.closed = true
		record(hClose, 0, &f.dg.o, objs)
	}
	return nil
}

func (f *file) dropWatcher(it *epitem) {
	for i, w := range f.watchers {
		if w == it {
			f.watchers = append(f.watchers[:i], f.watchers[i+1:]...)
			return
		}
	}
}

func Dup(fd int) (int, error) {
	if !vsched.Active() {
		if vsched.Aborting() {
			return -1, EBADF
		}
		return syscall.Dup(fd)
	}
	if isSim(fd) {
		panic("vsys: dup of a simulated descriptor is not modelled")
	}
	nfd, err := syscall.Dup(fd)
	if err == nil {
		if nfd >= FDBase {
			panic("vsys: real descriptor space collides with the simulated one")
		}
		k.realDups[nfd] = true
		kk := k
		vsched.OnCleanup(func() {
			if kk.realDups[nfd] {
				delete(kk.realDups, nfd)
				_ = syscall.Close(nfd)
			}
		})
	}
	return nfd, err
}

func SetNonblock(fd int, nonblocking bool) error {
	if !vsched.Active() || !isSim(fd) {
		if vsched.Aborting() {
			return nil
		}
		return syscall.SetNonblock(fd, nonblocking)
	}
	f := k.get(fd, "setnonblock")
	if f == nil {
		return EBADF
	}
	f.nonblock = nonblocking
	return nil
}

func SetsockoptInt(fd, level, opt int, value int) error {
	if !vsched.Active() || !isSim(fd) {
		if vsched.Aborting() {
			return nil
		}
		return syscall.SetsockoptInt(fd, level, opt, value)
	}
	if k.get(fd, "setsockopt") == nil {
		return EBADF
	}
	return nil
}

func SetsockoptLinger(fd, level, opt int, l *Linger) error {
	if !vsched.Active() || !isSim(fd) {
		if vsched.Aborting() {
			return nil
		}
		return syscall.SetsockoptLinger(fd, level, opt, l)
	}
	if k.get(fd, "setsockopt") == nil {
		return EBADF
	}
	return nil
}

func GetsockoptInt(fd, level, opt int) (int, error) {
	if !vsched.Active() || !isSim(fd) {
		return syscall.GetsockoptInt(fd, level, opt)
	}
	f := k.get(fd, "getsockopt")
	if f == nil {
		return 0, EBADF
	}
	if opt == SO_ERROR && f.kind == kSock {
		e := f.ep.soerr
		f.ep.soerr = 0
		return int(e), nil
	}
	return 0, nil
}

func Getsockname(fd int) (Sockaddr, error) {
	if !vsched.Active() || !isSim(fd) {
		return syscall.Getsockname(fd)
	}
	f := k.get(fd, "getsockname")
	if f == nil {
		return nil, EBADF
	}
	switch f.kind {
	case kSock:
		return f.ep.addr, nil
	case kDgram:
		return f.dg.addr, nil
	}
	return nil, ENOTSOCK
}

func Getpeername(fd int) (Sockaddr, error) {
	if !vsched.Active() || !isSim(fd) {
		return syscall.Getpeername(fd)
	}
	f := k.get(fd, "getpeername")
	if f == nil {
		return nil, EBADF
	}
	if f.kind == kSock {
		return f.ep.raddr, nil
	}
	return nil, ENOTCONN
}

func Shutdown(fd int, how int) error {
	if !vsched.Active() || !isSim(fd) {
		return syscall.Shutdown(fd, how)
	}
	vsched.Point()
	f := k.get(fd, "shutdown")
	if f == nil {
		return EBADF
	}
	if f.kind != kSock {
		return ENOTSOCK
	}
	e := f.ep
	if how == SHUT_WR || how == SHUT_RDWR {
		e.wclosed = true
		e.other().eof = true
	}
	vsched.Record(&e.pair.o, hClose, true, uint64(how)+1)
	return nil
}

// ---------------------------------------------------------------------------------------------
// epoll

func EpollCreate1(flag int) (int, error) {
	if !vsched.Active() {
		if vsched.Aborting() {
			return -1, EMFILE
		}
		return syscall.EpollCreate1(flag)
	}
	vsched.Point()
	f := k.alloc(kEpoll)
	f.epi = &epoll{items: map[int]*epitem{}}
	vsched.Record(&f.epi.o, hCtl, true, uint64(f.fd))
	return f.fd, nil
}

func EpollCtl(epfd int, op int, fd int, event *EpollEvent) error {
	if !vsched.Active() {
		if vsched.Aborting() {
			return EBADF
		}
		return syscall.EpollCtl(epfd, op, fd, event)
	}
	vsched.Point()
	ef := k.get(epfd, "epoll_ctl")
	if ef == nil || ef.kind != kEpoll {
		return EBADF
	}
	ep := ef.epi
	f := k.get(fd, "epoll_ctl.target")
	if f == nil {
		vsched.Record(&ep.o, hCtl, true, 0xbadf)
		return EBADF
	}
	it := ep.items[fd]
	res := uint64(op)<<40 | uint64(fd)<<32
	switch op {
	case EPOLL_CTL_ADD:
		if it != nil {
			vsched.Record(&ep.o, hCtl, true, res|1)
			return EEXIST
		}
		it = &epitem{f: f, mask: event.Events, user: *event}
		ep.items[fd] = it
		f.watchers = append(f.watchers, it)
	case EPOLL_CTL_MOD:
		if it == nil {
			k.stats.CtlENOENT++
			vsched.Record(&ep.o, hCtl, true, res|2)
			vsched.Logf("epoll_ctl MOD fd=%d -> ENOENT", fd)
			return ENOENT
		}
		it.mask = event.Events
		it.user = *event
		it.disabled = false
	case EPOLL_CTL_DEL:
		if it == nil {
			vsched.Record(&ep.o, hCtl, true, res|2)
			return ENOENT
		}
		delete(ep.items, fd)
		f.dropWatcher(it)
		vsched.Record(&ep.o, hCtl, true, res)
		return nil
	default:
		return EINVAL
	}
	// ep_insert / ep_modify poll the file once: if it is ready now it goes on the ready list
	if f.readiness()&(it.mask|EPOLLERR|EPOLLHUP) != 0 {
		if !it.ready {
			it.ready = true
			ep.seq++
			it.readySeq = ep.seq
		}
	}
	vsched.Logf("epoll_ctl op=%d fd=%d mask=%s", op, fd, maskString(it.mask))
	if f.kind == kSock {
		vsched.Record2(&ep.o, &f.ep.pair.o, hCtl, res|uint64(it.mask))
	} else {
		vsched.Record(&ep.o, hCtl, true, res|uint64(it.mask))
	}
	return nil
}

func maskString(m uint32) string {
	s := ""
	add := func(b uint32, n string) {
		if m&b != 0 {
			if s != "" {
				s += "|"
			}
			s += n
		}
	}
	add(EPOLLIN, "IN")
	add(EPOLLOUT, "OUT")
	add(EPOLLPRI, "PRI")
	add(EPOLLERR, "ERR")
	add(EPOLLHUP, "HUP")
	add(EPOLLRDHUP, "RDHUP")
	add(uint32(EPOLLONESHOT), "ONESHOT")
	add(uint32(1)<<31, "ET")
	if s == "" {
		s = "0"
	}
	return s
}

// MaskString renders an epoll event mask.
func MaskString(m uint32) string { return maskString(m) }

const etBit = uint32(1) << 31

func (ep *epoll) reportable() []*epitem {
	var out []*epitem
	for _, it := range ep.items {
		if it.disabled {
			continue
		}
		et := it.mask&etBit != 0
		if et && !it.ready {
			continue
		}
		if it.f.readiness()&(it.mask|EPOLLERR|EPOLLHUP)&^(etBit|uint32(EPOLLONESHOT)) != 0 {
			out = append(out, it)
		}
	}
	sort.Slice(out, func(i, j int) bool {
		if out[i].readySeq != out[j].readySeq {
			return out[i].readySeq < out[j].readySeq
		}
		return out[i].f.fd < out[j].f.fd
	})
	return out
}

func EpollWait(epfd int, events []EpollEvent, msec int) (int, error) {
	if !vsched.Active() {
		if vsched.Aborting() {
			return -1, EBADF
		}
		return syscall.EpollWait(epfd, events, msec)
	}
	ef := k.get(epfd, "epoll_wait")
	if ef == nil || ef.kind != kEpoll {
		vsched.Point()
		return -1, EBADF
	}
	ep := ef.epi
	if msec < 0 {
		vsched.Block("epoll_wait", func() bool { return len(ep.reportable()) > 0 })
	} else {
		vsched.Point()
	}
	k.stats.EpollWaits++
	rep := ep.reportable()
	// stale ET ready flags (nothing to report any more) are dropped, as ep_send_events does
	for _, it := range ep.items {
		if it.ready && it.mask&etBit != 0 {
			found := false
			for _, r := range rep {
				if r == it {
					found = true
				}
			}
			if !found && !it.disabled {
				it.ready = false
			}
		}
	}
	n := 0
	h := uint64(0)
	for _, it := range rep {
		if n >= len(events) {
			break
		}
		rev := it.f.readiness() & (it.mask | EPOLLERR | EPOLLHUP) &^ (etBit | uint32(EPOLLONESHOT))
		events[n] = EpollEvent{Events: rev, Fd: it.user.Fd, Pad: it.user.Pad}
		n++
		k.stats.EpollEvents++
		h = h*1000003 + uint64(it.f.fd)<<32 + uint64(rev)
		if it.mask&etBit != 0 {
			it.ready = false
		} else {
			ep.seq++
			it.readySeq = ep.seq
		}
		if it.mask&uint32(EPOLLONESHOT) != 0 {
			it.disabled = true
			it.ready = false
		}
		vsched.Logf("epoll_wait epfd=%d -> fd=%d %s", epfd, it.f.fd, maskString(rev))
	}
	vsched.Record(&ep.o, hWait, true, h)
	return n, nil
}

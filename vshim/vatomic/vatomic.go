// Package vatomic replaces "sync/atomic" in the instrumented copy of nbio: every atomic
// operation is a scheduling point; the operation itself is executed natively (only one managed
// thread runs at a time, so that is trivially atomic).
package vatomic

import (
	"sync"
	"sync/atomic"
	"unsafe"

	"verif/vsched"
)

var kAtomic = vsched.HashString("atomic")

// happens-before objects for raw addresses (nbio uses the function-style API on plain fields)
var (
	mu    sync.Mutex
	objs  = map[unsafe.Pointer]*vsched.Obj{}
	epoch uint64
)

func init() {
	vsched.OnStart(func() { objs = map[unsafe.Pointer]*vsched.Obj{} })
}

func obj(p unsafe.Pointer) *vsched.Obj {
	o := objs[p]
	if o == nil {
		o = &vsched.Obj{}
		objs[p] = o
	}
	return o
}

func AddInt32(addr *int32, delta int32) int32 {
	if !vsched.Active() {
		return atomic.AddInt32(addr, delta)
	}
	vsched.Point()
	v := atomic.AddInt32(addr, delta)
	vsched.Record(obj(unsafe.Pointer(addr)), kAtomic, true, uint64(uint32(v)))
	return v
}

func AddInt64(addr *int64, delta int64) int64 {
	if !vsched.Active() {
		return atomic.AddInt64(addr, delta)
	}
	vsched.Point()
	v := atomic.AddInt64(addr, delta)
	vsched.Record(obj(unsafe.Pointer(addr)), kAtomic, true, uint64(v))
	return v
}

func AddUint32(addr *uint32, delta uint32) uint32 {
	if !vsched.Active() {
		return atomic.AddUint32(addr, delta)
	}
	vsched.Point()
	v := atomic.AddUint32(addr, delta)
	vsched.Record(obj(unsafe.Pointer(addr)), kAtomic, true, uint64(v))
	return v
}

func AddUint64(addr *uint64, delta uint64) uint64 {
	if !vsched.Active() {
		return atomic.AddUint64(addr, delta)
	}
	vsched.Point()
	v := atomic.AddUint64(addr, delta)
	vsched.Record(obj(unsafe.Pointer(addr)), kAtomic, true, v)
	return v
}

func LoadInt32(addr *int32) int32 {
	if !vsched.Active() {
		return atomic.LoadInt32(addr)
	}
	vsched.Point()
	v := atomic.LoadInt32(addr)
	vsched.Record(obj(unsafe.Pointer(addr)), kAtomic, false, uint64(uint32(v)))
	return v
}

func LoadInt64(addr *int64) int64 {
	if !vsched.Active() {
		return atomic.LoadInt64(addr)
	}
	vsched.Point()
	v := atomic.LoadInt64(addr)
	vsched.Record(obj(unsafe.Pointer(addr)), kAtomic, false, uint64(v))
	return v
}

func LoadUint32(addr *uint32) uint32 {
	if !vsched.Active() {
		return atomic.LoadUint32(addr)
	}
	vsched.Point()
	v := atomic.LoadUint32(addr)
	vsched.Record(obj(unsafe.Pointer(addr)), kAtomic, false, uint64(v))
	return v
}

func LoadUint64(addr *uint64) uint64 {
	if !vsched.Active() {
		return atomic.LoadUint64(addr)
	}
	vsched.Point()
	v := atomic.LoadUint64(addr)
	vsched.Record(obj(unsafe.Pointer(addr)), kAtomic, false, v)
	return v
}

func StoreInt32(addr *int32, val int32) {
	if !vsched.Active() {
		atomic.StoreInt32(addr, val)
		return
	}
	vsched.Point()
	atomic.StoreInt32(addr, val)
	vsched.Record(obj(unsafe.Pointer(addr)), kAtomic, true, uint64(uint32(val)))
}

func StoreInt64(addr *int64, val int64) {
	if !vsched.Active() {
		atomic.StoreInt64(addr, val)
		return
	}
	vsched.Point()
	atomic.StoreInt64(addr, val)
	vsched.Record(obj(unsafe.Pointer(addr)), kAtomic, true, uint64(val))
}

func StoreUint32(addr *uint32, val uint32) {
	if !vsched.Active() {
		atomic.StoreUint32(addr, val)
		return
	}
	vsched.Point()
	atomic.StoreUint32(addr, val)
	vsched.Record(obj(unsafe.Pointer(addr)), kAtomic, true, uint64(val))
}

func StoreUint64(addr *uint64, val uint64) {
	if !vsched.Active() {
		atomic.StoreUint64(addr, val)
		return
	}
	vsched.Point()
	atomic.StoreUint64(addr, val)
	vsched.Record(obj(unsafe.Pointer(addr)), kAtomic, true, val)
}

func CompareAndSwapInt32(addr *int32, old, new int32) bool {
	if !vsched.Active() {
		return atomic.CompareAndSwapInt32(addr, old, new)
	}
	vsched.Point()
	ok := atomic.CompareAndSwapInt32(addr, old, new)
	r := uint64(0)
	if ok {
		r = 1
	}
	vsched.Record(obj(unsafe.Pointer(addr)), kAtomic, true, r)
	return ok
}

func CompareAndSwapInt64(addr *int64, old, new int64) bool {
	if !vsched.Active() {
		return atomic.CompareAndSwapInt64(addr, old, new)
	}
	vsched.Point()
	ok := atomic.CompareAndSwapInt64(addr, old, new)
	r := uint64(0)
	if ok {
		r = 1
	}
	vsched.Record(obj(unsafe.Pointer(addr)), kAtomic, true, r)
	return ok
}

func CompareAndSwapUint32(addr *uint32, old, new uint32) bool {
	if !vsched.Active() {
		return atomic.CompareAndSwapUint32(addr, old, new)
	}
	vsched.Point()
	ok := atomic.CompareAndSwapUint32(addr, old, new)
	r := uint64(0)
	if ok {
		r = 1
	}
	vsched.Record(obj(unsafe.Pointer(addr)), kAtomic, true, r)
	return ok
}

func SwapInt32(addr *int32, new int32) int32 {
	if !vsched.Active() {
		return atomic.SwapInt32(addr, new)
	}
	vsched.Point()
	v := atomic.SwapInt32(addr, new)
	vsched.Record(obj(unsafe.Pointer(addr)), kAtomic, true, uint64(uint32(v)))
	return v
}

func SwapInt64(addr *int64, new int64) int64 {
	if !vsched.Active() {
		return atomic.SwapInt64(addr, new)
	}
	vsched.Point()
	v := atomic.SwapInt64(addr, new)
	vsched.Record(obj(unsafe.Pointer(addr)), kAtomic, true, uint64(v))
	return v
}

// Typed atomics are passed through as native types guarded by points is not possible without
// wrapping; nbio does not use them. They are aliased so that code mentioning them compiles.
type (
	Int32  = atomic.Int32
	Int64  = atomic.Int64
	Uint32 = atomic.Uint32
	Uint64 = atomic.Uint64
	Bool   = atomic.Bool
	Value  = atomic.Value
)

// Package vkit is the shared plumbing of the check binaries: scenario sharding over worker
// processes, evidence files, known-findings classification, replay artefacts.
package vkit

import (
	"encoding/json"
	"flag"
	"fmt"
	"os"
	"os/exec"
	"path/filepath"
	"regexp"
	"runtime"
	"sort"
	"strconv"
	"strings"
	"sync"
	"time"

	"github.com/lesismal/nbio/logging"

	"verif/vsched"
	"verif/vshim/vsync"
)

// QuietLogger counts nbio's log lines instead of printing them. Error lines (which is where
// nbio's recover() blocks report swallowed panics) are kept for oracles that want them.
type QuietLogger struct {
	mu     sync.Mutex
	Errors []string
}

func (q *QuietLogger) Debug(format string, v ...interface{}) {}
func (q *QuietLogger) Info(format string, v ...interface{})  {}
func (q *QuietLogger) Warn(format string, v ...interface{})  {}
func (q *QuietLogger) Error(format string, v ...interface{}) {
	q.mu.Lock()
	if len(q.Errors) < 64 {
		s := fmt.Sprintf(format, v...)
		if len(s) > 300 {
			s = s[:300]
		}
		q.Errors = append(q.Errors, s)
	}
	q.mu.Unlock()
}

// TakeErrors returns and clears the captured error lines.
func (q *QuietLogger) TakeErrors() []string {
	q.mu.Lock()
	defer q.mu.Unlock()
	e := q.Errors
	q.Errors = nil
	return e
}

// Log is installed as nbio's logger by Main.
var Log = &QuietLogger{}

// Root is the /verif directory.
var Root = func() string {
	if r := os.Getenv("VERIF_ROOT"); r != "" {
		return r
	}
	return "/verif"
}()

// OutRoot is where evidence and replay files are written (differs from Root only in mutation
// self-test runs, so that a mutant never overwrites the evidence of the real tree).
var OutRoot = func() string {
	if r := os.Getenv("VERIF_OUT"); r != "" {
		return r
	}
	return Root
}()

// Finding is one violation (deduplicated by signature).
type Finding struct {
	Sig      string          `json:"signature"`
	Desc     string          `json:"description"`
	Scenario string          `json:"scenario"`
	Choices  []int           `json:"choices,omitempty"`
	Input    json.RawMessage `json:"input,omitempty"`
	Count    int             `json:"count"`
	P        int             `json:"preemptions,omitempty"`
	D        int             `json:"deviations,omitempty"`
	Trace    []string        `json:"trace,omitempty"`
}

// Part is the result of one shard (or of the whole run after merging).
type Part struct {
	Scenarios    int            `json:"scenarios"`
	Execs        int            `json:"executions"`
	Pruned       int            `json:"pruned_executions"`
	States       int            `json:"states"`
	Transitions  int            `json:"transitions"`
	Incomplete   []string       `json:"incomplete_scenarios,omitempty"`
	Counters     map[string]int `json:"counters"`
	Outcomes     map[string]int `json:"outcomes"`
	Findings     []*Finding     `json:"findings"`
	Samples      []interface{}  `json:"samples"`
	Errors       []string       `json:"errors,omitempty"`
	MaxBoundP    int            `json:"bound_preemptions"`
	MaxBoundD    int            `json:"bound_deviations"`
	NonTrivial   int            `json:"nontrivial"`
	ScenarioList []string       `json:"-"`

	curScenario string
	curInput    interface{}
}

func newPart() *Part {
	return &Part{Counters: map[string]int{}, Outcomes: map[string]int{}}
}

func (p *Part) addFinding(f *Finding) {
	for _, g := range p.Findings {
		if g.Sig == f.Sig {
			g.Count += f.Count
			return
		}
	}
	p.Findings = append(p.Findings, f)
}

func (p *Part) merge(q *Part) {
	p.Scenarios += q.Scenarios
	p.Execs += q.Execs
	p.Pruned += q.Pruned
	p.States += q.States
	p.Transitions += q.Transitions
	p.NonTrivial += q.NonTrivial
	p.Incomplete = append(p.Incomplete, q.Incomplete...)
	p.Errors = append(p.Errors, q.Errors...)
	for k, v := range q.Counters {
		p.Counters[k] += v
	}
	for k, v := range q.Outcomes {
		p.Outcomes[k] += v
	}
	for _, f := range q.Findings {
		p.addFinding(f)
	}
	if len(p.Samples) < 6 {
		p.Samples = append(p.Samples, q.Samples...)
		if len(p.Samples) > 6 {
			p.Samples = p.Samples[:6]
		}
	}
	if q.MaxBoundP > p.MaxBoundP {
		p.MaxBoundP = q.MaxBoundP
	}
	if q.MaxBoundD > p.MaxBoundD {
		p.MaxBoundD = q.MaxBoundD
	}
}

// ---------------------------------------------------------------------------------------------
// scheduled scenarios

// Scenario is one closed system explored exhaustively within (P, D).
type Scenario struct {
	Name string
	// Body runs as thread 0 of every execution and must build all its state afresh.
	Body func()
	// Check is evaluated after every complete execution; it returns "" or "signature|text".
	Check func(r *vsched.Result) string
	P, D  int
	Opts  vsched.Options
	// Counters is read after every execution (vacuity / coverage counters), may be nil.
	Counters func() map[string]int
	// Outcome classifies a complete execution (distinct observable outcomes), may be nil.
	Outcome func() string
	// NoCache disables the happens-before state cache.
	NoCache bool
	// Budget caps the wall time of this scenario (0: the tier default).
	Budget time.Duration
	// NonTrivial decides from the summed counters whether the scenario exercised its mechanism.
	NonTrivial func(c map[string]int) bool
}

// Spec describes a check binary.
type Spec struct {
	Property    string
	Level       string // evidence level
	Rule        string
	Assumptions []string
	// Build returns the scenarios (scheduled) for the tier.
	Build func(tier string) []*Scenario
	// Seq runs sequential enumerations; it receives the shard selector and the part to fill.
	Seq func(tier string, sh *Shard, p *Part)
	// PerScenarioBudget is the default wall-time cap per scenario by tier.
	QuickBudget, ThoroughBudget time.Duration
	// ThoroughTotal caps the wall time of one worker process in the thorough tier (0: 16 minutes).
	ThoroughTotal time.Duration
	// MinNonTrivial: the run is VACUOUS (exit 2) below this number of non-trivial cases.
	MinNonTrivial int
	Extra         map[string]interface{}
	// UsesSimulatedKernel: the evidence reports the kernel conformance replay (kconf).
	UsesSimulatedKernel bool
	// NoPoolMonitor turns off the sync.Pool ownership monitor (double Put detection), which is on
	// by default in every check.
	NoPoolMonitor bool
	// ReplaySeq re-runs one sequential case from its recorded input; returns "" or the violation.
	ReplaySeq func(scenario string, input json.RawMessage) string
}

// Shard selects the work items of one worker process.
type Shard struct {
	I, N int
	n    int
}

// Mine reports whether the next work item belongs to this shard.
func (s *Shard) Mine() bool {
	k := s.n
	s.n++
	return s.N <= 1 || k%s.N == s.I
}

var splitSig = regexp.MustCompile(`^([^|]*)\|(.*)$`)

func splitDesc(d string) (sig, text string) {
	if m := splitSig.FindStringSubmatch(d); m != nil {
		return m[1], m[2]
	}
	return d, d
}

func runScenario(sc *Scenario, tier string, spec *Spec, part *Part) {
	budget := sc.Budget
	if budget == 0 {
		if tier == "thorough" {
			budget = spec.ThoroughBudget
		} else {
			budget = spec.QuickBudget
		}
	}
	var deadline time.Time
	if budget > 0 {
		deadline = time.Now().Add(budget)
	}
	// the tier's wall-clock cap for this worker: what does not fit is reported as not explored
	// (exhaustive:false), never silently dropped
	if !shardDeadline.IsZero() {
		if !time.Now().Before(shardDeadline) {
			part.Incomplete = append(part.Incomplete, sc.Name+" (not started: the tier's wall-clock cap was reached)")
			return
		}
		if deadline.IsZero() || shardDeadline.Before(deadline) {
			deadline = shardDeadline
		}
		if !fairDeadline.IsZero() && fairDeadline.Before(deadline) {
			deadline = fairDeadline
		}
	}
	counters := map[string]int{}
	ex := &vsched.Explorer{P: sc.P, D: sc.D, CacheOn: !sc.NoCache, Opts: sc.Opts, Deadline: deadline}
	slowShown := 0
	ex.OnResult = func(r *vsched.Result) string {
		if r.Steps > 3000 && slowShown < 2 && os.Getenv("VERIF_TIMING") != "" {
			slowShown++
			fmt.Fprintf(os.Stderr, "SLOW steps=%d scenario=%q nchoices=%d\n", r.Steps, sc.Name, len(r.Choices))
		}
		if sc.Counters != nil {
			for k, v := range sc.Counters() {
				counters[k] += v
			}
		}
		d := ""
		switch {
		case r.Panic != "":
			d = "panic|" + firstLine(r.Panic)
		case r.Livelock:
			d = "livelock|execution exceeded the step horizon; hottest thread " + r.LiveWho
		}
		if d == "" && sc.Check != nil {
			d = sc.Check(r)
		}
		if d == "" && len(r.Failures) > 0 {
			d = r.Failures[0]
		}
		if sc.Outcome != nil {
			part.Outcomes[sc.Outcome()]++
		}
		return d
	}
	t0 := time.Now()
	func() {
		// A panic of the explorer (NONDETERMINISM) is a machinery error of this scenario; the
		// violations it had recorded up to then are still processed below (determinism guard
		// included), so the error can never be the only trace of a violation that was found.
		defer func() {
			if e := recover(); e != nil {
				ex.Complete = false
				msg := fmt.Sprint(e)
				if len(msg) > 600 {
					msg = msg[:600] + "..."
				}
				part.Errors = append(part.Errors, fmt.Sprintf("scenario %s: %s", sc.Name, msg))
			}
		}()
		ex.Explore(sc.Body)
	}()
	if os.Getenv("VERIF_TIMING") != "" {
		fmt.Fprintf(os.Stderr, "TIMING %6.1fs execs=%d states=%d complete=%v %s\n", time.Since(t0).Seconds(), ex.Execs, ex.States(), ex.Complete, sc.Name)
	}
	part.Scenarios++
	part.Execs += ex.Execs
	part.Pruned += ex.PrunedExecs
	part.States += ex.States()
	part.Transitions += ex.Transitions
	if !ex.Complete {
		part.Incomplete = append(part.Incomplete, sc.Name)
	}
	if sc.P > part.MaxBoundP {
		part.MaxBoundP = sc.P
	}
	if sc.D > part.MaxBoundD {
		part.MaxBoundD = sc.D
	}
	for k, v := range counters {
		part.Counters[k] += v
	}
	if sc.NonTrivial == nil || sc.NonTrivial(counters) {
		part.NonTrivial++
	}
	// group violations by signature, keep the one with the fewest choices
	best := map[string]*vsched.Violation{}
	cnt := map[string]int{}
	for i := range ex.Violations {
		v := &ex.Violations[i]
		sig, _ := splitDesc(v.Desc)
		cnt[sig]++
		if b := best[sig]; b == nil || v.P+v.D < b.P+b.D || (v.P+v.D == b.P+b.D && len(v.Choices) < len(b.Choices)) {
			best[sig] = v
		}
	}
	for sig, v := range best {
		_, text := splitDesc(v.Desc)
		f := &Finding{Sig: sig, Desc: text, Scenario: sc.Name, Choices: trimZeros(v.Choices), Count: cnt[sig], P: v.P, D: v.D}
		// determinism guard: the violation must reproduce identically five times
		ok := true
		var first uint64
		for i := 0; i < 5; i++ {
			var got string
			r := vsched.RunOnce(nil, v.Choices, &vsched.Options{Horizon: sc.Opts.Horizon, AutoTimers: sc.Opts.AutoTimers, Logging: i == 0}, sc.Body)
			switch {
			case r.Panic != "":
				got = "panic|" + firstLine(r.Panic)
			case r.Livelock:
				got = "livelock|"
			}
			if got == "" && sc.Check != nil {
				got = sc.Check(r)
			}
			if got == "" && len(r.Failures) > 0 {
				got = r.Failures[0]
			}
			gs, _ := splitDesc(got)
			if gs != sig || (i > 0 && r.Trace != first) {
				ok = false
				if os.Getenv("VERIF_TIMING") != "" {
					fmt.Fprintf(os.Stderr, "NONDET replay %d of %q: got %q trace %x first %x nchoices %d/%d desc=%s\n", i, sig, got, r.Trace, first, len(r.Choices), len(v.Choices), v.Desc)
				}
			}
			if i == 0 {
				first = r.Trace
				f.Trace = r.Log
				if len(f.Trace) > 400 {
					f.Trace = append(f.Trace[:200], f.Trace[len(f.Trace)-200:]...)
				}
			}
		}
		if !ok {
			part.Errors = append(part.Errors, fmt.Sprintf("NONDETERMINISM: scenario %s violation %q did not reproduce 5/5", sc.Name, sig))
			continue
		}
		part.addFinding(f)
	}
	if len(part.Samples) < 3 {
		part.Samples = append(part.Samples, map[string]interface{}{"scenario": sc.Name, "executions": ex.Execs, "states": ex.States(),
			"max_choice_points": ex.MaxChoices, "P": sc.P, "D": sc.D, "complete": ex.Complete})
	}
}

func trimZeros(c []int) []int {
	n := len(c)
	for n > 0 && c[n-1] == 0 {
		n--
	}
	return append([]int(nil), c[:n]...)
}

func firstLine(s string) string {
	if i := strings.IndexByte(s, '\n'); i >= 0 {
		return s[:i]
	}
	return s
}

// ---------------------------------------------------------------------------------------------
// known findings

// Known is one entry of known_findings.json.
type Known struct {
	Property  string `json:"property"`
	Signature string `json:"signature"`
	Status    string `json:"status"` // open | fixed
	What      string `json:"what"`
	Commit    string `json:"commit,omitempty"`
}

func loadKnown() []Known {
	b, err := os.ReadFile(filepath.Join(Root, "known_findings.json"))
	if err != nil {
		return nil
	}
	var ks []Known
	if err := json.Unmarshal(b, &ks); err != nil {
		fmt.Fprintf(os.Stderr, "known_findings.json: %v\n", err)
		os.Exit(2)
	}
	return ks
}

// LoadKnown exposes the committed known-findings list.
func LoadKnown() []Known { return loadKnown() }

// ---------------------------------------------------------------------------------------------
// main

// Main is the entry point of every check binary.
func Main(spec *Spec) {
	tier := flag.String("tier", "quick", "quick|thorough")
	shard := flag.String("shard", "", "i/n (worker mode)")
	out := flag.String("out", "", "worker result file")
	replay := flag.String("replay", "", "replay file")
	workers := flag.Int("workers", 0, "worker processes (0: auto)")
	only := flag.String("only", "", "run only scenarios whose name contains this string")
	list := flag.Bool("list", false, "list scenarios")
	flag.Parse()
	logging.SetLogger(Log)
	if t := os.Getenv("VERIF_TIER"); t != "" && !isFlagSet("tier") {
		*tier = t
	}
	if *replay != "" {
		os.Exit(doReplay(spec, *replay))
	}
	if *list {
		for _, sc := range spec.Build(*tier) {
			fmt.Println(sc.Name)
		}
		return
	}
	if *shard != "" {
		var i, n int
		fmt.Sscanf(*shard, "%d/%d", &i, &n)
		p := runShard(spec, *tier, &Shard{I: i, N: n}, *only)
		b, _ := json.Marshal(p)
		if err := os.WriteFile(*out, b, 0o644); err != nil {
			fmt.Fprintln(os.Stderr, err)
			os.Exit(2)
		}
		return
	}
	os.Exit(parent(spec, *tier, *workers, *only))
}

func isFlagSet(name string) bool {
	set := false
	flag.Visit(func(f *flag.Flag) {
		if f.Name == name {
			set = true
		}
	})
	return set
}

// pool ownership monitor (vsync.DoublePut): inside a scheduled execution a double Put fails the
// execution at once; in sequential checks it is collected and reported with the next Case (or by
// the check itself through TakeDoublePuts, together with the input that caused it).
var (
	dpMu      sync.Mutex
	dpPending []string
)

func watchPools() {
	vsync.DoublePut = func(typ string) {
		if vsched.Active() {
			vsched.Fail("pool-double-put type=%s|an object that is already in a sync.Pool was put into the same pool again: the pool hands one object to two owners, which then corrupt each other's state", typ)
			return
		}
		dpMu.Lock()
		if len(dpPending) < 16 {
			dpPending = append(dpPending, typ)
		}
		dpMu.Unlock()
	}
}

// TakeDoublePuts returns (and forgets) the double Puts seen since the last call.
func TakeDoublePuts() []string {
	dpMu.Lock()
	defer dpMu.Unlock()
	r := dpPending
	dpPending = nil
	return r
}

// shardDeadline is the end of the thorough tier's wall-clock allowance of this worker process
// (zero: none). Scenarios are distributed over the workers round robin, so a few heavy ones can
// land on one worker; without this cap the tier's wall time is (scenarios per worker) x budget.
var shardDeadline, fairDeadline time.Time

func runShard(spec *Spec, tier string, sh *Shard, only string) *Part {
	part := newPart()
	if tier == "thorough" {
		total := spec.ThoroughTotal
		if total == 0 {
			total = 16 * time.Minute
		}
		shardDeadline = time.Now().Add(total)
	}
	if !spec.NoPoolMonitor {
		watchPools()
	}
	if spec.Build != nil {
		var mine []*Scenario
		for _, sc := range spec.Build(tier) {
			if only != "" && !strings.Contains(sc.Name, only) {
				continue
			}
			if !sh.Mine() {
				continue
			}
			mine = append(mine, sc)
		}
		for i, sc := range mine {
			// thorough: every scenario of this worker gets at least its fair share of what is left
			// of the worker's allowance (what one does not use flows to the later ones), so a
			// few insatiable scenarios cannot keep the others from being started at all
			fairDeadline = time.Time{}
			if !shardDeadline.IsZero() {
				if left := time.Until(shardDeadline); left > 0 {
					share := left / time.Duration(len(mine)-i)
					// but never less than 10 s (a worker with thousands of tiny scenarios would
					// otherwise cut the few larger ones after a fraction of a second), and never
					// less than a budget the scenario asks for explicitly
					floor := 10 * time.Second
					if sc.Budget > floor {
						floor = sc.Budget
					}
					if share < floor {
						share = floor
					}
					fairDeadline = time.Now().Add(share)
				}
			}
			runScenario(sc, tier, spec, part)
		}
	}
	if spec.Seq != nil {
		spec.Seq(tier, sh, part)
	}
	return part
}

func parent(spec *Spec, tier string, workers int, only string) int {
	start := time.Now()
	if workers <= 0 {
		workers = runtime.NumCPU() - 2
		if workers < 1 {
			workers = 1
		}
		if w := os.Getenv("VERIF_WORKERS"); w != "" {
			workers, _ = strconv.Atoi(w)
		}
	}
	self, _ := os.Executable()
	tmp, err := os.MkdirTemp(filepath.Join(Root, ".work"), "run-"+spec.Property+"-")
	if err != nil {
		fmt.Fprintln(os.Stderr, err)
		return 2
	}
	defer os.RemoveAll(tmp)
	total := newPart()
	var mu sync.Mutex
	var wg sync.WaitGroup
	for i := 0; i < workers; i++ {
		wg.Add(1)
		go func(i int) {
			defer wg.Done()
			outf := filepath.Join(tmp, fmt.Sprintf("part%d.json", i))
			args := []string{"-tier", tier, "-shard", fmt.Sprintf("%d/%d", i, workers), "-out", outf}
			if only != "" {
				args = append(args, "-only", only)
			}
			cmd := exec.Command(self, args...)
			cmd.Env = append(os.Environ(), "GOMAXPROCS=2", "GOMEMLIMIT=3GiB")
			outb, err := cmd.CombinedOutput()
			mu.Lock()
			defer mu.Unlock()
			if os.Getenv("VERIF_TIMING") != "" {
				os.Stderr.Write(outb)
			}
			if err != nil {
				total.Errors = append(total.Errors, fmt.Sprintf("worker %d: %v: %s", i, err, tail(string(outb), 2000)))
				return
			}
			b, err := os.ReadFile(outf)
			if err != nil {
				total.Errors = append(total.Errors, fmt.Sprintf("worker %d: %v", i, err))
				return
			}
			var p Part
			if err := json.Unmarshal(b, &p); err != nil {
				total.Errors = append(total.Errors, fmt.Sprintf("worker %d: %v", i, err))
				return
			}
			total.merge(&p)
		}(i)
	}
	wg.Wait()
	return report(spec, tier, total, time.Since(start))
}

func tail(s string, n int) string {
	if len(s) > n {
		return s[len(s)-n:]
	}
	return s
}

func slug(s string) string {
	s = regexp.MustCompile(`[^A-Za-z0-9_.=-]+`).ReplaceAllString(s, "_")
	if len(s) > 100 {
		s = s[:100]
	}
	return s
}

func report(spec *Spec, tier string, total *Part, wall time.Duration) int {
	known := loadKnown()
	sort.Slice(total.Findings, func(i, j int) bool { return total.Findings[i].Sig < total.Findings[j].Sig })
	exit := 0
	var knownSeen []string
	nviol := 0
	_ = os.MkdirAll(filepath.Join(OutRoot, "replays"), 0o755)
	for _, f := range total.Findings {
		isKnown := false
		for _, kf := range known {
			if kf.Property == spec.Property && kf.Status == "open" && kf.Signature == f.Sig {
				isKnown = true
				fmt.Printf("KNOWN-FINDING: property=%s %s %s\n", spec.Property, f.Sig, kf.What)
				knownSeen = append(knownSeen, f.Sig)
			}
		}
		if isKnown {
			continue
		}
		nviol++
		path := filepath.Join(OutRoot, "replays", spec.Property+"-"+slug(f.Sig)+".json")
		b, _ := json.MarshalIndent(map[string]interface{}{"property": spec.Property, "finding": f}, "", " ")
		_ = os.WriteFile(path, b, 0o644)
		fmt.Printf("VIOLATION property=%s replay=%s\n", spec.Property, path)
		fmt.Printf("  signature: %s\n  scenario: %s\n  %s\n", f.Sig, f.Scenario, f.Desc)
		exit = 1
	}
	seed := 0
	if s := os.Getenv("VERIF_SEED"); s != "" {
		seed, _ = strconv.Atoi(s)
	}
	exhaustive := len(total.Incomplete) == 0 && len(total.Errors) == 0
	if len(total.Samples) == 0 {
		total.Samples = append(total.Samples, "no sample recorded")
	}
	cov := map[string]interface{}{
		"states":                        max1(total.States),
		"transitions":                   max1(total.Transitions),
		"traces_validated_against_impl": total.Execs,
		"evaluations":                   total.Execs,
		"distinct_nontrivial":           total.NonTrivial,
		"rule":                          spec.Rule,
		"samples":                       total.Samples,
		"exhaustive":                    exhaustive,
		"scenarios":                     total.Scenarios,
		"pruned_executions":             total.Pruned,
		"incomplete_scenarios":          total.Incomplete,
		"counters":                      total.Counters,
		"distinct_outcomes":             len(total.Outcomes),
		"outcomes":                      total.Outcomes,
		"bound_preemptions":             total.MaxBoundP,
		"bound_deviations":              total.MaxBoundD,
		"known_findings_seen":           knownSeen,
		"errors":                        total.Errors,
	}
	for k, v := range spec.Extra {
		cov[k] = v
	}
	if spec.UsesSimulatedKernel {
		if b, err := os.ReadFile(filepath.Join(Root, "evidence", "kconf.json")); err == nil {
			var kc struct {
				Traces, Steps, Mismatches int
				Kernel                    string
			}
			if json.Unmarshal(b, &kc) == nil {
				cov["kernel_conformance"] = map[string]interface{}{"traces": kc.Traces, "steps": kc.Steps, "mismatches": kc.Mismatches,
					"note": "conformance replay of the simulated kernel (vshim/vsys) against the real kernel, cmd/kconf, run by bin/setup"}
			}
		}
	}
	ev := map[string]interface{}{
		"property_id": spec.Property,
		"tier":        tier,
		"seed":        seed,
		"level":       spec.Level,
		"coverage":    cov,
		"assumptions": spec.Assumptions,
		"wall_s":      wall.Seconds(),
		"violations":  nviol,
	}
	_ = os.MkdirAll(filepath.Join(OutRoot, "evidence"), 0o755)
	b, _ := json.MarshalIndent(ev, "", " ")
	if err := os.WriteFile(filepath.Join(OutRoot, "evidence", spec.Property+".json"), b, 0o644); err != nil {
		fmt.Fprintln(os.Stderr, err)
		return 2
	}
	fmt.Printf("%s %s: scenarios=%d executions=%d (pruned %d) states=%d transitions=%d nontrivial=%d outcomes=%d incomplete=%d violations=%d known=%d wall=%.1fs\n",
		spec.Property, tier, total.Scenarios, total.Execs, total.Pruned, total.States, total.Transitions, total.NonTrivial,
		len(total.Outcomes), len(total.Incomplete), nviol, len(knownSeen), wall.Seconds())
	if len(total.Errors) > 0 {
		for _, e := range total.Errors {
			fmt.Println("ERROR:", e)
		}
		if exit == 0 {
			exit = 2
		}
	}
	if exit == 0 && total.NonTrivial < spec.MinNonTrivial {
		fmt.Printf("VACUOUS: only %d non-trivial cases (need %d)\n", total.NonTrivial, spec.MinNonTrivial)
		exit = 2
	}
	return exit
}

func max1(n int) int {
	if n < 1 {
		return 1
	}
	return n
}

func doReplay(spec *Spec, path string) int {
	b, err := os.ReadFile(path)
	if err != nil {
		fmt.Fprintln(os.Stderr, err)
		return 2
	}
	var rf struct {
		Property string  `json:"property"`
		Finding  Finding `json:"finding"`
	}
	if err := json.Unmarshal(b, &rf); err != nil {
		fmt.Fprintln(os.Stderr, err)
		return 2
	}
	f := rf.Finding
	if !spec.NoPoolMonitor {
		watchPools()
	}
	if f.Scenario == "pool-monitor" {
		fmt.Println("found by the sync.Pool ownership monitor while the enumeration ran (" + f.Desc + "); it is not tied to one stored input: re-run the check to reproduce it")
		return 2
	}
	if len(f.Input) > 0 && spec.ReplaySeq != nil {
		d := spec.ReplaySeq(f.Scenario, f.Input)
		if dp := TakeDoublePuts(); len(dp) > 0 && d == "" {
			d = "pool-double-put type=" + dp[0]
		}
		fmt.Println(d)
		if d != "" {
			fmt.Printf("VIOLATION property=%s replay=%s\n", spec.Property, path)
			return 1
		}
		return 0
	}
	for _, tier := range []string{"quick", "thorough"} {
		for _, sc := range spec.Build(tier) {
			if sc.Name != f.Scenario {
				continue
			}
			r := vsched.Replay(f.Choices, sc.Opts, sc.Body)
			for _, l := range r.Log {
				fmt.Println(l)
			}
			d := ""
			switch {
			case r.Panic != "":
				d = "panic|" + r.Panic
			case r.Livelock:
				d = "livelock|" + r.LiveWho
			}
			if d == "" && sc.Check != nil {
				d = sc.Check(r)
			}
			if d == "" && len(r.Failures) > 0 {
				d = r.Failures[0]
			}
			for _, bl := range r.Blocked {
				fmt.Printf("blocked at end: T%d %s (%s) daemon=%v\n", bl.ID, bl.Name, bl.Why, bl.Daemon)
			}
			fmt.Println("verdict:", d)
			if d != "" {
				fmt.Printf("VIOLATION property=%s replay=%s\n", spec.Property, path)
				return 1
			}
			return 0
		}
	}
	fmt.Fprintf(os.Stderr, "scenario %q not found\n", f.Scenario)
	return 2
}

// ---------------------------------------------------------------------------------------------
// helpers for sequential (input-enumerating) checks

// Report records a violation found by a sequential enumeration. input is stored in the replay
// file (it must be enough to re-run the case through Spec.ReplaySeq).
func (p *Part) Report(sig, desc, scenario string, input interface{}) {
	for _, g := range p.Findings {
		if g.Sig == sig {
			g.Count++
			return
		}
	}
	b, _ := json.Marshal(input)
	p.Findings = append(p.Findings, &Finding{Sig: sig, Desc: desc, Scenario: scenario, Input: b, Count: 1})
}

// SetCurrent tells the monitors which case is being evaluated (scenario and replay input), so that
// what they find is reported with a replayable input.
func (p *Part) SetCurrent(scenario string, input interface{}) {
	p.curScenario, p.curInput = scenario, input
}

// Count adds to a coverage counter.
func (p *Part) Count(key string, n int) { p.Counters[key] += n }

// Outcome records one observed outcome class.
func (p *Part) Outcome(key string) { p.Outcomes[key]++ }

// Sample keeps up to three example cases per shard.
func (p *Part) Sample(x interface{}) {
	if len(p.Samples) < 3 {
		p.Samples = append(p.Samples, x)
	}
}

// Case accounts for one evaluated case; nontrivial says whether it exercised the mechanism;
// states/transitions are the model-checking style counts (distinct states reached / steps).
func (p *Part) Case(nontrivial bool, states, transitions int) {
	for _, t := range TakeDoublePuts() {
		if p.curInput != nil {
			p.Report("pool-double-put type="+t, "an object that is already in a sync.Pool was put into the same pool again while this case ran (the pool hands one object to two owners)", p.curScenario, p.curInput)
			continue
		}
		p.Report("pool-double-put type="+t, "an object that is already in a sync.Pool was put into the same pool again (the pool hands one object to two owners); seen while evaluating the case before case #"+strconv.Itoa(p.Execs+1)+" of this shard", "pool-monitor", map[string]int{"shard_case": p.Execs})
	}
	p.Execs++
	p.States += states
	p.Transitions += transitions
	if nontrivial {
		p.NonTrivial++
	}
}

// Incompletef marks the run as not exhaustive (a cap was hit).
func (p *Part) Incompletef(format string, a ...interface{}) {
	p.Incomplete = append(p.Incomplete, fmt.Sprintf(format, a...))
}

// Errorf records a machinery error (exit 2).
func (p *Part) Errorf(format string, a ...interface{}) {
	p.Errors = append(p.Errors, fmt.Sprintf(format, a...))
}

// Deadline returns the time at which a sequential run of the tier should stop enumerating.
func Deadline(tier string, quick, thorough time.Duration) time.Time {
	if tier == "thorough" {
		return time.Now().Add(thorough)
	}
	return time.Now().Add(quick)
}

// ovgen generates a `go build -overlay` description that instruments the current working tree
// of /repo without touching it: imports of sync, sync/atomic, time, syscall and math/rand are
// redirected to the vshim packages, go statements / channel operations / select statements are
// routed through vsched, //go:norace pragmas are dropped, and the hook files under
// /verif/hooks/<pkg>/ are added to their packages. Optional extra layers (-patch dir) replace
// files of /repo by edited copies before instrumentation (used by the mutation self-test).
//
// Usage: ovgen -repo /repo -out /verif/.work/ov [-mode sched|plain] [-patch dir]
//
//	mode sched: full instrumentation (scheduled harnesses)
//	mode plain: only hook files and //go:norace removal (sequential harnesses, race census)
package main

import (
	"bytes"
	"encoding/json"
	"flag"
	"fmt"
	"go/ast"
	"go/printer"
	"go/token"
	"go/types"
	"os"
	"path/filepath"
	"sort"
	"strings"

	"golang.org/x/tools/go/ast/astutil"
	"golang.org/x/tools/go/packages"
)

var importMap = map[string][2]string{
	"sync":        {"verif/vshim/vsync", "sync"},
	"sync/atomic": {"verif/vshim/vatomic", "atomic"},
	"time":        {"verif/vshim/vtime", "time"},
	"syscall":     {"verif/vshim/vsys", "syscall"},
	"math/rand":   {"verif/vshim/vrand", "rand"},
}

// racyFields are struct fields that nbio reads or writes without holding the lock that guards
// them elsewhere (or without any lock). Accesses to them are made visible to the scheduler: a
// scheduling point plus a happens-before step (vsched.Touch), inserted in front of the
// statement that contains the access. Without this, two interleavings that differ only in the
// order of such accesses would have the same happens-before graph and the second would be
// pruned as "already visited" (and with too few scheduling points the order could not even be
// produced). Key: "<package path>.<struct>.<field>". Conn.closed is deliberately not listed: it is
// written under the connection mutex only, its unlocked reads are pre-checks that are repeated
// under the mutex, and listing it doubles the cost of every engine-level scenario.
var racyFields = map[string]bool{
	"github.com/lesismal/nbio.Engine.isOneshot":                    true,
	"github.com/lesismal/nbio.Engine.connsUnix":                    true,
	"github.com/lesismal/nbio.Engine.ioTaskPool":                   true,
	"github.com/lesismal/nbio.Config.IOExecute":                    true,
	"github.com/lesismal/nbio.Config.MaxConnReadTimesPerEventLoop": true,
	"github.com/lesismal/nbio.poller.shutdown":                     true,
	"github.com/lesismal/nbio.Conn.onConnected":                    true,
	"github.com/lesismal/nbio/nbhttp.Engine.shutdown":              true,
	"github.com/lesismal/nbio/nbhttp.Engine.conns":                 true,
	"github.com/lesismal/nbio/nbhttp.Engine.dialerConns":           true,
	"github.com/lesismal/nbio/nbhttp/websocket.Conn.closed":        true,
	"github.com/lesismal/nbio/lmux.ListenerMux.shutdown":           true,
}

var pkgDirs = []string{".", "taskpool", "timer", "mempool", "lmux", "nbhttp", "nbhttp/websocket", "logging"}

type rewriter struct {
	fset    *token.FileSet
	pkg     *packages.Package
	file    *ast.File
	needVS  bool
	selN    int
	errs    []string
	imports map[string]string // package path -> local name in this file
}

func fatal(format string, a ...interface{}) {
	fmt.Fprintf(os.Stderr, "UNSUPPORTED: "+format+"\n", a...)
	os.Exit(2)
}

func main() {
	repo := flag.String("repo", "/repo", "repository root")
	out := flag.String("out", "", "output directory")
	mode := flag.String("mode", "sched", "sched|plain")
	hooks := flag.String("hooks", "/verif/hooks", "hook files root")
	patch := flag.String("patch", os.Getenv("VERIF_PATCH_DIR"), "directory with replacement files (same layout as the repository) applied before instrumentation")
	flag.Parse()
	if *out == "" {
		fatal("missing -out")
	}
	_ = os.RemoveAll(*out)
	if err := os.MkdirAll(filepath.Join(*out, "src"), 0o755); err != nil {
		fatal("%v", err)
	}
	overlay := map[string]string{}

	cfg := &packages.Config{
		Mode: packages.NeedName | packages.NeedFiles | packages.NeedCompiledGoFiles | packages.NeedSyntax |
			packages.NeedTypes | packages.NeedTypesInfo | packages.NeedImports | packages.NeedDeps,
		Dir: *repo,
		Env: append(os.Environ(), "GOFLAGS=-mod=mod", "GOPROXY=off", "GOSUMDB=off", "CGO_ENABLED=0"),
	}
	if *patch != "" {
		cfg.Overlay = map[string][]byte{}
		err := filepath.Walk(*patch, func(path string, info os.FileInfo, err error) error {
			if err != nil || info.IsDir() || !strings.HasSuffix(path, ".go") {
				return err
			}
			rel, _ := filepath.Rel(*patch, path)
			b, err := os.ReadFile(path)
			if err != nil {
				return err
			}
			cfg.Overlay[filepath.Join(*repo, rel)] = b
			return nil
		})
		if err != nil {
			fatal("reading patch dir: %v", err)
		}
		fmt.Printf("ovgen: %d patched files from %s\n", len(cfg.Overlay), *patch)
	}
	var pats []string
	for _, d := range pkgDirs {
		pats = append(pats, "./"+d)
	}
	pkgs, err := packages.Load(cfg, pats...)
	if err != nil {
		fatal("loading packages: %v", err)
	}
	for _, p := range pkgs {
		if len(p.Errors) > 0 {
			fatal("package %s does not type-check: %v", p.PkgPath, p.Errors[0])
		}
	}
	nfiles := 0
	for _, p := range pkgs {
		for i, f := range p.Syntax {
			path := p.CompiledGoFiles[i]
			if !strings.HasPrefix(path, *repo+"/") {
				continue
			}
			rel := strings.TrimPrefix(path, *repo+"/")
			r := &rewriter{fset: p.Fset, pkg: p, file: f, imports: map[string]string{}}
			r.dropNorace()
			if *mode == "sched" && p.Name != "logging" {
				r.rewrite()
			}
			if len(r.errs) > 0 {
				fatal("%s: %s", rel, strings.Join(r.errs, "; "))
			}
			var buf bytes.Buffer
			if err := (&printer.Config{Mode: printer.UseSpaces | printer.TabIndent, Tabwidth: 8}).Fprint(&buf, p.Fset, f); err != nil {
				fatal("printing %s: %v", rel, err)
			}
			dst := filepath.Join(*out, "src", rel)
			_ = os.MkdirAll(filepath.Dir(dst), 0o755)
			if err := os.WriteFile(dst, buf.Bytes(), 0o644); err != nil {
				fatal("%v", err)
			}
			overlay[path] = dst
			nfiles++
		}
	}
	// hook files
	nhooks := 0
	for _, d := range pkgDirs {
		hd := filepath.Join(*hooks, d)
		if d == "." {
			hd = filepath.Join(*hooks, "nbio")
		}
		ents, err := os.ReadDir(hd)
		if err != nil {
			continue
		}
		for _, e := range ents {
			if e.IsDir() || !strings.HasSuffix(e.Name(), ".go") {
				continue
			}
			if *mode == "plain" && strings.HasSuffix(e.Name(), "_sched.go") {
				continue
			}
			overlay[filepath.Join(*repo, d, "zz_verif_"+e.Name())] = filepath.Join(hd, e.Name())
			nhooks++
		}
	}
	js, _ := json.MarshalIndent(map[string]interface{}{"Replace": overlay}, "", " ")
	if err := os.WriteFile(filepath.Join(*out, "overlay.json"), js, 0o644); err != nil {
		fatal("%v", err)
	}
	fmt.Printf("ovgen: mode=%s files=%d hooks=%d -> %s\n", *mode, nfiles, nhooks, filepath.Join(*out, "overlay.json"))
}

// dropNorace removes every comment after the package clause: that drops the //go:norace
// pragmas and avoids misplaced free-floating comments after AST surgery. Build constraints
// (before the package clause) are kept.
func (r *rewriter) dropNorace() {
	var keep []*ast.CommentGroup
	for _, cg := range r.file.Comments {
		if cg.End() < r.file.Package {
			keep = append(keep, cg)
		}
	}
	r.file.Comments = keep
}

func (r *rewriter) errf(n ast.Node, format string, a ...interface{}) {
	pos := r.fset.Position(n.Pos())
	r.errs = append(r.errs, fmt.Sprintf("%s:%d: ", filepath.Base(pos.Filename), pos.Line)+fmt.Sprintf(format, a...))
}

// touchesOf lists the racy fields accessed by the expressions of a statement itself (not by
// nested blocks or function literals), with whether the access is a write.
func (r *rewriter) touchesOf(n ast.Node, writes map[ast.Expr]bool) (names []string, write []bool) {
	seen := map[string]int{}
	ast.Inspect(n, func(x ast.Node) bool {
		switch v := x.(type) {
		case *ast.FuncLit, *ast.BlockStmt:
			return x == n
		case *ast.SelectorExpr:
			sel := r.pkg.TypesInfo.Selections[v]
			if sel == nil || sel.Kind() != types.FieldVal {
				return true
			}
			f, ok := sel.Obj().(*types.Var)
			if !ok || f.Pkg() == nil {
				return true
			}
			// the struct that declares the field
			recv := sel.Recv()
			for {
				if p, ok := recv.(*types.Pointer); ok {
					recv = p.Elem()
					continue
				}
				break
			}
			owner := ""
			// walk embedded path to find the declaring named struct
			var find func(t types.Type, idx []int) string
			find = func(t types.Type, idx []int) string {
				for {
					if p, ok := t.(*types.Pointer); ok {
						t = p.Elem()
						continue
					}
					break
				}
				nt, _ := t.(*types.Named)
				st, ok := t.Underlying().(*types.Struct)
				if !ok {
					return ""
				}
				fld := st.Field(idx[0])
				if len(idx) == 1 {
					if nt != nil {
						return nt.Obj().Name()
					}
					return ""
				}
				return find(fld.Type(), idx[1:])
			}
			owner = find(recv, sel.Index())
			key := f.Pkg().Path() + "." + owner + "." + f.Name()
			if racyFields[key] {
				if i, dup := seen[key]; dup {
					write[i] = write[i] || writes[v]
				} else {
					seen[key] = len(names)
					names = append(names, owner+"."+f.Name())
					write = append(write, writes[v])
				}
			}
		}
		return true
	})
	return
}

func (r *rewriter) touchStmts(names []string, write []bool) []ast.Stmt {
	var out []ast.Stmt
	for i, n := range names {
		w := "false"
		if write[i] {
			w = "true"
		}
		r.needVS = true
		out = append(out, &ast.ExprStmt{X: call("vsched.Touch", &ast.BasicLit{Kind: token.STRING, Value: `"` + n + `"`}, ast.NewIdent(w))})
	}
	return out
}

// insertTouches puts vsched.Touch calls in front of every statement that accesses a racy field.
func (r *rewriter) insertTouches() {
	var doList func(list []ast.Stmt) []ast.Stmt
	header := func(s ast.Stmt) (nodes []ast.Node, writes map[ast.Expr]bool) {
		writes = map[ast.Expr]bool{}
		markW := func(e ast.Expr) {
			for {
				switch v := e.(type) {
				case *ast.IndexExpr:
					e = v.X
					continue
				case *ast.ParenExpr:
					e = v.X
					continue
				case *ast.StarExpr:
					e = v.X
					continue
				}
				break
			}
			writes[e] = true
		}
		switch v := s.(type) {
		case *ast.AssignStmt:
			for _, l := range v.Lhs {
				markW(l)
			}
			nodes = append(nodes, v)
		case *ast.IncDecStmt:
			markW(v.X)
			nodes = append(nodes, v)
		case *ast.IfStmt:
			if v.Init != nil {
				nodes = append(nodes, v.Init)
			}
			nodes = append(nodes, v.Cond)
		case *ast.ForStmt:
			if v.Init != nil {
				nodes = append(nodes, v.Init)
			}
			if v.Cond != nil {
				nodes = append(nodes, v.Cond)
			}
		case *ast.RangeStmt:
			nodes = append(nodes, v.X)
		case *ast.SwitchStmt:
			if v.Init != nil {
				nodes = append(nodes, v.Init)
			}
			if v.Tag != nil {
				nodes = append(nodes, v.Tag)
			}
		case *ast.TypeSwitchStmt:
			nodes = append(nodes, v.Assign)
		case *ast.ExprStmt, *ast.ReturnStmt, *ast.DeferStmt, *ast.GoStmt, *ast.SendStmt, *ast.DeclStmt:
			nodes = append(nodes, v)
		}
		return
	}
	var visit func(n ast.Node)
	doList = func(list []ast.Stmt) []ast.Stmt {
		var out []ast.Stmt
		for _, s := range list {
			if ls, ok := s.(*ast.LabeledStmt); ok {
				visit(ls.Stmt)
				out = append(out, s)
				continue
			}
			nodes, writes := header(s)
			var names []string
			var wr []bool
			for _, n := range nodes {
				nn, ww := r.touchesOf(n, writes)
				for i := range nn {
					dup := false
					for j := range names {
						if names[j] == nn[i] {
							wr[j] = wr[j] || ww[i]
							dup = true
						}
					}
					if !dup {
						names = append(names, nn[i])
						wr = append(wr, ww[i])
					}
				}
			}
			out = append(out, r.touchStmts(names, wr)...)
			// a loop condition is re-evaluated after every iteration
			if fs, ok := s.(*ast.ForStmt); ok && fs.Cond != nil {
				nn, ww := r.touchesOf(fs.Cond, map[ast.Expr]bool{})
				if len(nn) > 0 {
					fs.Body.List = append(fs.Body.List, r.touchStmts(nn, ww)...)
				}
			}
			visit(s)
			out = append(out, s)
		}
		return out
	}
	visit = func(n ast.Node) {
		ast.Inspect(n, func(x ast.Node) bool {
			switch v := x.(type) {
			case *ast.BlockStmt:
				if v != nil {
					v.List = doList(v.List)
				}
				return false
			case *ast.CaseClause:
				v.Body = doList(v.Body)
				return false
			case *ast.CommClause:
				v.Body = doList(v.Body)
				return false
			}
			return true
		})
	}
	for _, d := range r.file.Decls {
		if fd, ok := d.(*ast.FuncDecl); ok && fd.Body != nil {
			fd.Body.List = doList(fd.Body.List)
		}
	}
}

func (r *rewriter) rewrite() {
	r.insertTouches()
	// imports
	for _, is := range r.file.Imports {
		path := strings.Trim(is.Path.Value, `"`)
		name := ""
		if is.Name != nil {
			name = is.Name.Name
		}
		if m, ok := importMap[path]; ok {
			is.Path.Value = `"` + m[0] + `"`
			if name == "" {
				is.Name = ast.NewIdent(m[1])
				name = m[1]
			}
			is.EndPos = 0
		}
		if name == "" {
			name = filepath.Base(path)
			if p := r.pkg.Imports[path]; p != nil {
				name = p.Name
			}
		}
		r.imports[path] = name
	}

	astutil.Apply(r.file, nil, func(c *astutil.Cursor) bool {
		switch n := c.Node().(type) {
		case *ast.GoStmt:
			c.Replace(r.goStmt(n))
		case *ast.SelectStmt:
			if _, ok := c.Parent().(*ast.LabeledStmt); ok {
				r.errf(n, "labeled select statement")
				return true
			}
			c.Replace(r.selectStmt(n))
		case *ast.SendStmt:
			if _, ok := c.Parent().(*ast.CommClause); ok {
				return true
			}
			r.needVS = true
			c.Replace(&ast.ExprStmt{X: call("vsched.Send", n.Chan, n.Value)})
		case *ast.ExprStmt:
			if _, ok := c.Parent().(*ast.CommClause); ok {
				return true
			}
			if u, ok := n.X.(*ast.UnaryExpr); ok && u.Op == token.ARROW {
				r.needVS = true
				c.Replace(&ast.ExprStmt{X: call("vsched.Recv", u.X, ast.NewIdent("nil"), ast.NewIdent("nil"))})
			}
			if ce, ok := n.X.(*ast.CallExpr); ok {
				if id, ok := ce.Fun.(*ast.Ident); ok && id.Name == "close" && len(ce.Args) == 1 {
					if _, isBuiltin := r.pkg.TypesInfo.Uses[id].(*types.Builtin); isBuiltin {
						r.needVS = true
						c.Replace(&ast.ExprStmt{X: call("vsched.Close", ce.Args[0])})
					}
				}
			}
		case *ast.AssignStmt:
			if _, ok := c.Parent().(*ast.CommClause); ok {
				return true
			}
			if len(n.Rhs) == 1 {
				if u, ok := n.Rhs[0].(*ast.UnaryExpr); ok && u.Op == token.ARROW {
					c.Replace(r.recvAssign(n, u))
				}
			}
		case *ast.RangeStmt:
			if t := r.pkg.TypesInfo.TypeOf(n.X); t != nil {
				if _, ok := t.Underlying().(*types.Chan); ok {
					r.errf(n, "range over channel")
				}
				if _, ok := t.Underlying().(*types.Map); ok {
					if st := r.orderedMapRange(n); st != nil {
						c.Replace(st)
					}
				}
			}
		case *ast.UnaryExpr:
			if n.Op == token.ARROW {
				switch c.Parent().(type) {
				case *ast.ExprStmt, *ast.AssignStmt, *ast.CommClause:
				default:
					r.errf(n, "channel receive inside an expression")
				}
			}
		}
		return true
	})

	if r.needVS {
		astutil.AddNamedImport(r.fset, r.file, "vsched", "verif/vsched")
	}
}

// orderedMaps are maps that nbio ranges over while holding more than one entry in scheduled
// scenarios (nbhttp's Stop / Shutdown close every managed connection). Go randomises the
// iteration order of a map, which no scheduler choice captures: a replayed choice prefix would
// meet a different execution. The range statement is rewritten so that the bodies run in a
// deterministic order of the keys (ranked by the hook function verifConnKeyRank of the package: the keys are derived from pointers, which differ between executions, so they are ranked by the connection's descriptor number): a snapshot of the keys is
// taken, and for each of them the original loop header is run with a filter in front of the
// body. Entries deleted meanwhile are skipped, as the language specifies; `continue` and
// `return` inside the body keep their meaning; a body with `break`, `goto` or a labelled branch
// is left alone.
var orderedMaps = map[string]bool{"conns": true, "dialerConns": true}

func (r *rewriter) orderedMapRange(n *ast.RangeStmt) ast.Stmt {
	sel, ok := n.X.(*ast.SelectorExpr)
	if !ok || !orderedMaps[sel.Sel.Name] || !strings.HasSuffix(r.pkg.PkgPath, "/nbhttp") {
		return nil
	}
	simple := true
	ast.Inspect(n.Body, func(x ast.Node) bool {
		if b, ok := x.(*ast.BranchStmt); ok && (b.Tok == token.BREAK || b.Tok == token.GOTO || b.Label != nil) {
			simple = false
		}
		return simple
	})
	if !simple {
		return nil
	}
	r.needVS = true
	r.selN++
	mv := ast.NewIdent(fmt.Sprintf("_vmap%d", r.selN))
	kv := ast.NewIdent(fmt.Sprintf("_vkey%d", r.selN))
	inner := &ast.RangeStmt{Key: n.Key, Value: n.Value, Tok: n.Tok, X: mv, Body: n.Body}
	var keyExpr ast.Expr = n.Key
	if id, isID := n.Key.(*ast.Ident); n.Key == nil || (isID && id.Name == "_") {
		k := ast.NewIdent(fmt.Sprintf("_vk%d", r.selN))
		inner.Key = k
		keyExpr = k
		if n.Tok != token.DEFINE {
			inner.Tok = token.DEFINE
			if n.Value != nil {
				// `for _, v = range m` with an existing v: keep assigning to it through a fresh name
				return nil
			}
		}
	}
	filter := &ast.IfStmt{
		Cond: &ast.UnaryExpr{Op: token.NOT, X: call("vsched.SameKey", keyExpr, kv)},
		Body: &ast.BlockStmt{List: []ast.Stmt{&ast.BranchStmt{Tok: token.CONTINUE}}},
	}
	inner.Body = &ast.BlockStmt{List: append([]ast.Stmt{filter}, n.Body.List...)}
	outer := &ast.RangeStmt{Key: ast.NewIdent("_"), Value: kv, Tok: token.DEFINE, X: call("vsched.MapKeysBy", mv, ast.NewIdent("verifConnKeyRank")), Body: &ast.BlockStmt{List: []ast.Stmt{inner}}}
	return &ast.BlockStmt{List: []ast.Stmt{
		&ast.AssignStmt{Lhs: []ast.Expr{mv}, Tok: token.DEFINE, Rhs: []ast.Expr{n.X}},
		outer,
	}}
}

func call(fn string, args ...ast.Expr) *ast.CallExpr {
	parts := strings.Split(fn, ".")
	var f ast.Expr = ast.NewIdent(parts[0])
	for _, p := range parts[1:] {
		f = &ast.SelectorExpr{X: f, Sel: ast.NewIdent(p)}
	}
	return &ast.CallExpr{Fun: f, Args: args}
}

func (r *rewriter) goStmt(n *ast.GoStmt) ast.Stmt {
	r.needVS = true
	ce := n.Call
	// go func(){...}() with no arguments: closure runs as the thread body directly
	if fl, ok := ce.Fun.(*ast.FuncLit); ok && len(ce.Args) == 0 {
		return &ast.ExprStmt{X: call("vsched.Go", fl)}
	}
	// general form: evaluate the function value and the arguments now
	r.selN++
	var lhs, rhs []ast.Expr
	fname := fmt.Sprintf("_vgo%df", r.selN)
	lhs = append(lhs, ast.NewIdent(fname))
	rhs = append(rhs, ce.Fun)
	var args []ast.Expr
	for i, a := range ce.Args {
		an := fmt.Sprintf("_vgo%da%d", r.selN, i)
		lhs = append(lhs, ast.NewIdent(an))
		rhs = append(rhs, a)
		args = append(args, ast.NewIdent(an))
	}
	inner := &ast.CallExpr{Fun: ast.NewIdent(fname), Args: args, Ellipsis: ce.Ellipsis}
	body := &ast.FuncLit{Type: &ast.FuncType{Params: &ast.FieldList{}}, Body: &ast.BlockStmt{List: []ast.Stmt{&ast.ExprStmt{X: inner}}}}
	return &ast.BlockStmt{List: []ast.Stmt{
		&ast.AssignStmt{Lhs: lhs, Tok: token.DEFINE, Rhs: rhs},
		&ast.ExprStmt{X: call("vsched.Go", body)},
	}}
}

func (r *rewriter) typeString(t types.Type, at ast.Node) string {
	return types.TypeString(t, func(p *types.Package) string {
		if p == r.pkg.Types {
			return ""
		}
		if name, ok := r.imports[p.Path()]; ok {
			return name
		}
		r.errf(at, "type from package %s which this file does not import", p.Path())
		return p.Name()
	})
}

func addr(e ast.Expr) ast.Expr { return &ast.UnaryExpr{Op: token.AND, X: e} }

func isBlank(e ast.Expr) bool {
	id, ok := e.(*ast.Ident)
	return ok && id.Name == "_"
}

// x := <-ch / x, ok := <-ch / x = <-ch as a statement
func (r *rewriter) recvAssign(n *ast.AssignStmt, u *ast.UnaryExpr) ast.Stmt {
	r.needVS = true
	var stmts []ast.Stmt
	dst, okp := ast.Expr(ast.NewIdent("nil")), ast.Expr(ast.NewIdent("nil"))
	if n.Tok == token.DEFINE {
		et := r.pkg.TypesInfo.TypeOf(u.X).Underlying().(*types.Chan).Elem()
		if !isBlank(n.Lhs[0]) {
			stmts = append(stmts, &ast.DeclStmt{Decl: &ast.GenDecl{Tok: token.VAR, Specs: []ast.Spec{
				&ast.ValueSpec{Names: []*ast.Ident{n.Lhs[0].(*ast.Ident)}, Type: ast.NewIdent(r.typeString(et, n))}}}})
			dst = addr(n.Lhs[0])
		}
		if len(n.Lhs) > 1 && !isBlank(n.Lhs[1]) {
			stmts = append(stmts, &ast.DeclStmt{Decl: &ast.GenDecl{Tok: token.VAR, Specs: []ast.Spec{
				&ast.ValueSpec{Names: []*ast.Ident{n.Lhs[1].(*ast.Ident)}, Type: ast.NewIdent("bool")}}}})
			okp = addr(n.Lhs[1])
		}
		stmts = append(stmts, &ast.ExprStmt{X: call("vsched.Recv", u.X, dst, okp)})
		// a define statement cannot be replaced by a block (scope); splice is not available through
		// the cursor for arbitrary parents, so report it unless it is a plain list element.
		r.errf(n, "x := <-ch statement (define form) is not supported outside select")
		return n
	}
	if !isBlank(n.Lhs[0]) {
		dst = addr(n.Lhs[0])
	}
	if len(n.Lhs) > 1 && !isBlank(n.Lhs[1]) {
		okp = addr(n.Lhs[1])
	}
	return &ast.ExprStmt{X: call("vsched.Recv", u.X, dst, okp)}
}

func (r *rewriter) selectStmt(n *ast.SelectStmt) ast.Stmt {
	r.needVS = true
	r.selN++
	id := r.selN
	var pre []ast.Stmt
	var cases []ast.Expr
	sw := &ast.SwitchStmt{Body: &ast.BlockStmt{}}
	blocking := true
	idx := 0
	for _, cl := range n.Body.List {
		cc := cl.(*ast.CommClause)
		if cc.Comm == nil {
			blocking = false
			sw.Body.List = append(sw.Body.List, &ast.CaseClause{List: []ast.Expr{intLit(-1)}, Body: cc.Body})
			continue
		}
		body := cc.Body
		switch s := cc.Comm.(type) {
		case *ast.SendStmt:
			cases = append(cases, call("vsched.CaseSend", s.Chan, s.Value))
		case *ast.ExprStmt:
			u, ok := s.X.(*ast.UnaryExpr)
			if !ok || u.Op != token.ARROW {
				r.errf(s, "unexpected select clause")
				continue
			}
			cases = append(cases, call("vsched.CaseRecv", u.X, ast.NewIdent("nil"), ast.NewIdent("nil")))
		case *ast.AssignStmt:
			u, ok := s.Rhs[0].(*ast.UnaryExpr)
			if !ok || u.Op != token.ARROW {
				r.errf(s, "unexpected select clause")
				continue
			}
			dst, okp := ast.Expr(ast.NewIdent("nil")), ast.Expr(ast.NewIdent("nil"))
			if s.Tok == token.DEFINE {
				ct, ok := r.pkg.TypesInfo.TypeOf(u.X).Underlying().(*types.Chan)
				if !ok {
					r.errf(s, "receive from non-channel")
					continue
				}
				var lhs, rhs []ast.Expr
				if !isBlank(s.Lhs[0]) {
					hn := fmt.Sprintf("_vsel%dv%d", id, idx)
					pre = append(pre, &ast.DeclStmt{Decl: &ast.GenDecl{Tok: token.VAR, Specs: []ast.Spec{
						&ast.ValueSpec{Names: []*ast.Ident{ast.NewIdent(hn)}, Type: ast.NewIdent(r.typeString(ct.Elem(), s))}}}})
					dst = addr(ast.NewIdent(hn))
					lhs = append(lhs, s.Lhs[0])
					rhs = append(rhs, ast.NewIdent(hn))
				}
				if len(s.Lhs) > 1 && !isBlank(s.Lhs[1]) {
					hn := fmt.Sprintf("_vsel%dk%d", id, idx)
					pre = append(pre, &ast.DeclStmt{Decl: &ast.GenDecl{Tok: token.VAR, Specs: []ast.Spec{
						&ast.ValueSpec{Names: []*ast.Ident{ast.NewIdent(hn)}, Type: ast.NewIdent("bool")}}}})
					okp = addr(ast.NewIdent(hn))
					lhs = append(lhs, s.Lhs[1])
					rhs = append(rhs, ast.NewIdent(hn))
				}
				if len(lhs) > 0 {
					body = append([]ast.Stmt{&ast.AssignStmt{Lhs: lhs, Tok: token.DEFINE, Rhs: rhs}}, body...)
				}
			} else {
				if !isBlank(s.Lhs[0]) {
					dst = addr(s.Lhs[0])
				}
				if len(s.Lhs) > 1 && !isBlank(s.Lhs[1]) {
					okp = addr(s.Lhs[1])
				}
			}
			cases = append(cases, call("vsched.CaseRecv", u.X, dst, okp))
		}
		sw.Body.List = append(sw.Body.List, &ast.CaseClause{List: []ast.Expr{intLit(idx)}, Body: body})
		idx++
	}
	b := "true"
	if !blocking {
		b = "false"
	}
	sw.Tag = call("vsched.Select", append([]ast.Expr{ast.NewIdent(b)}, cases...)...)
	// keeps the statement terminating when every clause is (a select is, a switch needs default)
	sw.Body.List = append(sw.Body.List, &ast.CaseClause{List: nil, Body: []ast.Stmt{
		&ast.ExprStmt{X: call("panic", &ast.BasicLit{Kind: token.STRING, Value: `"vsched: bad select index"`})}}})
	if len(pre) == 0 {
		return sw
	}
	return &ast.BlockStmt{List: append(pre, sw)}
}

func intLit(i int) ast.Expr {
	if i < 0 {
		return &ast.UnaryExpr{Op: token.SUB, X: &ast.BasicLit{Kind: token.INT, Value: fmt.Sprint(-i)}}
	}
	return &ast.BasicLit{Kind: token.INT, Value: fmt.Sprint(i)}
}

var _ = sort.Strings

// Command kconf replays the kernel conformance corpus (package verif/kconf) against the
// simulated kernel vsys and against the real kernel of this machine.
//
//	exit 0  model and kernel agree on the whole corpus (known model gaps are printed)
//	exit 2  MODEL-MISMATCH: <trace> step <i>: model <x> kernel <y>
//
// It writes evidence/kconf.json below the module root (or $KCONF_EVIDENCE).
package main

import (
	"flag"
	"fmt"
	"os"
	"path/filepath"

	"verif/kconf"
)

func moduleRoot() string {
	dir, err := os.Getwd()
	if err == nil {
		for d := dir; ; d = filepath.Dir(d) {
			if _, err := os.Stat(filepath.Join(d, "go.mod")); err == nil {
				if _, err := os.Stat(filepath.Join(d, "kconf")); err == nil {
					return d
				}
			}
			if d == filepath.Dir(d) {
				break
			}
		}
	}
	return "/verif"
}

func main() {
	only := flag.String("only", "", "replay only traces whose name contains this string (no evidence written)")
	verbose := flag.Bool("v", false, "print every step with both results")
	repeat := flag.Int("repeat", 1, "replay the corpus this many times (flake hunting; evidence from the last run)")
	list := flag.Bool("list", false, "print the corpus and exit")
	flag.Parse()
	if *list {
		for _, tr := range kconf.Corpus() {
			fmt.Printf("%s %v facts %v: %s\n", tr.Name, tr.On, tr.Facts, tr.About)
			for i, st := range tr.Steps {
				fmt.Printf("    %2d %-34s -> %s\n", i, st, st.Expect)
			}
		}
		return
	}
	code := 0
	var rep *kconf.Report
	for i := 0; i < *repeat; i++ {
		rep = kconf.RunReport(kconf.Options{Only: *only, Verbose: *verbose})
		for _, l := range rep.Lines {
			fmt.Println(l)
		}
		if rep.Mismatches > 0 {
			code = 2
		}
	}
	if *only == "" {
		path := os.Getenv("KCONF_EVIDENCE")
		if path == "" {
			path = filepath.Join(moduleRoot(), "evidence", "kconf.json")
		}
		if err := rep.WriteEvidence(path); err != nil {
			fmt.Fprintln(os.Stderr, "kconf: cannot write evidence:", err)
			if code == 0 {
				code = 3
			}
		}
	}
	os.Exit(code)
}

//go:build verif

// Package ekit builds small closed systems around a real nbio.Engine running on the simulated
// kernel (vsys) for the scheduled harnesses.
package ekit

import (
	"fmt"
	"net"
	"os"
	"path/filepath"
	"sync"

	"github.com/lesismal/nbio"

	"verif/vshim/vsys"
)

// Mode is an epoll mode of the engine.
type Mode int

const (
	LT Mode = iota
	ET
	ONESHOT
)

func (m Mode) String() string { return [...]string{"LT", "ET", "ONESHOT"}[m] }

// Modes lists all epoll modes.
var Modes = []Mode{LT, ET, ONESHOT}

// Apply sets the mode in an engine configuration.
func (m Mode) Apply(c *nbio.Config) {
	switch m {
	case LT:
		c.EpollMod = nbio.EPOLLLT
	case ET:
		c.EpollMod = nbio.EPOLLET
	case ONESHOT:
		c.EpollMod = nbio.EPOLLET
		c.EPOLLONESHOT = nbio.EPOLLONESHOT
	}
}

func init() {
	nbio.MaxOpenFiles = vsys.FDLimit
}

// Stream creates an established simulated connection and the *nbio.Conn around its descriptor.
func Stream(unix bool, sndCap, rcvCap int) (*nbio.Conn, *vsys.Peer) {
	fd, peer := vsys.NewStreamPair(unix, sndCap, rcvCap)
	typ := nbio.ConnTypeTCP
	if unix {
		typ = nbio.ConnTypeUnix
	}
	var la, ra net.Addr
	if unix {
		la, ra = &net.UnixAddr{Net: "unix", Name: "/sim/server"}, &net.UnixAddr{Net: "unix", Name: "@"}
	} else {
		la, ra = &net.TCPAddr{IP: net.IPv4(127, 0, 0, 1), Port: 80}, &net.TCPAddr{IP: net.IPv4(127, 0, 0, 1), Port: 40000 + fd}
	}
	return nbio.VerifNewConn(fd, typ, la, ra), peer
}

// Pattern is the payload byte at offset off of call id.
func Pattern(id, off int) byte { return byte((id*37 + off*11 + off/251 + 1) % 251) }

// Payload builds a recognisable payload.
func Payload(id, n int) []byte {
	b := make([]byte, n)
	for i := range b {
		b[i] = Pattern(id, i)
	}
	return b
}

var (
	fileMu    sync.Mutex
	filePaths = map[string]string{}
)

// DataFile returns the path of a real file holding Payload(id, n) (created once per process).
func DataFile(id, n int) string {
	fileMu.Lock()
	defer fileMu.Unlock()
	key := fmt.Sprintf("%d-%d", id, n)
	if p, ok := filePaths[key]; ok {
		return p
	}
	dir := filepath.Join("/verif/.work", "files", fmt.Sprint(os.Getpid()))
	_ = os.MkdirAll(dir, 0o755)
	p := filepath.Join(dir, key+".bin")
	if err := os.WriteFile(p, Payload(id, n), 0o644); err != nil {
		panic(err)
	}
	filePaths[key] = p
	return p
}

var openFiles = map[string]*os.File{}

// OpenDataFile returns a process-wide *os.File for DataFile(id, n), positioned at off. The same
// object is reused by every execution (nbio dups the descriptor when it has to keep it), so no
// real descriptors are opened or leaked per execution.
func OpenDataFile(id, n, off int) *os.File {
	p := DataFile(id, n)
	fileMu.Lock()
	defer fileMu.Unlock()
	f := openFiles[p]
	if f == nil {
		var err error
		f, err = os.Open(p)
		if err != nil {
			panic(err)
		}
		if f.Fd() >= 60 {
			panic("ekit: real descriptor numbers are getting close to the simulated range")
		}
		openFiles[p] = f
	}
	if _, err := f.Seek(int64(off), 0); err != nil {
		panic(err)
	}
	return f
}

// CleanupFiles removes the data files of this process.
func CleanupFiles() {
	_ = os.RemoveAll(filepath.Join("/verif/.work", "files", fmt.Sprint(os.Getpid())))
}

// Block is one accepted byte range of a write call, for the stream oracle.
type Block struct {
	ID    string
	Data  []byte
	After []string // ids of blocks that must appear earlier
}

// MatchStream checks that got is a concatenation of the blocks (each contiguous, each exactly
// once, respecting After). If complete is false, got may be a proper prefix of such a
// concatenation (the rest is still queued). Returns "" or an explanation.
func MatchStream(got []byte, blocks []Block, complete bool) string {
	used := make([]bool, len(blocks))
	var order []string
	var rec func(pos int) bool
	rec = func(pos int) bool {
		if pos == len(got) {
			if !complete {
				return true
			}
			for i, b := range blocks {
				if !used[i] && len(b.Data) > 0 {
					return false
				}
			}
			return true
		}
		for i, b := range blocks {
			if used[i] || len(b.Data) == 0 {
				continue
			}
			ok := true
			for _, a := range b.After {
				for j, o := range blocks {
					if o.ID == a && !used[j] && len(o.Data) > 0 {
						ok = false
					}
				}
			}
			if !ok {
				continue
			}
			n := len(b.Data)
			rest := got[pos:]
			if len(rest) >= n {
				if string(rest[:n]) != string(b.Data) {
					continue
				}
				used[i] = true
				order = append(order, b.ID)
				if rec(pos + n) {
					return true
				}
				order = order[:len(order)-1]
				used[i] = false
			} else if !complete && string(rest) == string(b.Data[:len(rest)]) {
				return true // a proper prefix of this block, the remainder is still queued
			}
		}
		return false
	}
	if rec(0) {
		return ""
	}
	total := 0
	for _, b := range blocks {
		total += len(b.Data)
	}
	return fmt.Sprintf("peer received %d bytes that are not a concatenation of the %d accepted ranges (%d bytes) in an admissible order; received=%s", len(got), len(blocks), total, Short(got))
}

// Short renders a byte string compactly.
func Short(b []byte) string {
	if len(b) <= 48 {
		return fmt.Sprintf("%v", b)
	}
	return fmt.Sprintf("%v...(%d bytes)...%v", b[:16], len(b), b[len(b)-16:])
}

//go:build verif

package nbhttp

import (
	"fmt"

	"github.com/lesismal/nbio"
)

// verifConnKeyRank orders the keys of Engine.conns / Engine.dialerConns for the overlay's
// deterministic map iteration (cmd/ovgen orderedMapRange): the keys are pointers in disguise, so
// a poller-driven connection is ranked by its descriptor number, anything else by its type.
func verifConnKeyRank(k interface{}) string {
	key, ok := k.(connValue)
	if !ok {
		return fmt.Sprintf("z%v", k)
	}
	c, err := array2Conn(key)
	if err != nil {
		return "y"
	}
	if nc, ok := c.(*nbio.Conn); ok {
		return fmt.Sprintf("fd%08d", nc.VerifFD())
	}
	return fmt.Sprintf("x%T", c)
}

//go:build verif

// Hook file added to package nbhttp by the overlay (never part of /repo): read-only accessors
// used by the C09/C11 harnesses (verif/seqx/respgen). It adds code only.
package nbhttp

// VerifResponseState is a read-only view of the private state of a Response. Buffer and
// BodyBuffer alias the live buffers: they are valid only until the next operation on the
// Response and must not be written to.
type VerifResponseState struct {
	Status        string
	StatusCode    int
	Header        map[string][]string
	Trailer       map[string]string
	TrailerNil    bool
	TrailerSize   int
	Buffer        []byte
	BufferNil     bool
	BodyBuffer    []byte
	BodyBufferNil bool
	ContentLen    int
	BodyWritten   int
	Chunked       bool
	ChunkChecked  bool
	HeadEncoded   bool
	HasBody       bool
	Hijacked      bool
}

// VerifState returns the private state of the response (no copy of the buffers is made).
func (res *Response) VerifState() VerifResponseState {
	s := VerifResponseState{
		Status: res.status, StatusCode: res.statusCode,
		Header: res.header, Trailer: res.trailer, TrailerNil: res.trailer == nil, TrailerSize: res.trailerSize,
		BufferNil: res.buffer == nil, BodyBufferNil: res.bodyBuffer == nil,
		ContentLen: res.contentLen, BodyWritten: res.bodyWritten,
		Chunked: res.chunked, ChunkChecked: res.chunkChecked, HeadEncoded: res.headEncoded,
		HasBody: res.hasBody, Hijacked: res.hijacked,
	}
	if res.buffer != nil {
		s.Buffer = *res.buffer
	}
	if res.bodyBuffer != nil {
		s.BodyBuffer = *res.bodyBuffer
	}
	return s
}

// VerifCachedLen returns the number of bytes the parser holds back for the next Parse call
// (-1 when there is no cache buffer).
func (p *Parser) VerifCachedLen() int {
	if p.bytesCached == nil {
		return -1
	}
	return len(*p.bytesCached)
}

// VerifParserState returns the parser's state machine position.
func (p *Parser) VerifParserState() int { return int(p.state) }

// VerifCached returns the bytes the parser holds back for the next Parse call (nil when there is
// no cache buffer). It aliases the live buffer: valid until the next call on the parser, must
// not be written to.
func (p *Parser) VerifCached() []byte {
	if p.bytesCached == nil {
		return nil
	}
	return *p.bytesCached
}

// VerifParserClosed reports whether the parser is in its closed state (CloseAndClean ran; it
// leaves the released cache pointer in place and every later Parse is refused).
func (p *Parser) VerifParserClosed() bool { return p.state == stateClose }

// VerifPendingBody returns the body buffers of the message under assembly (request on the server
// side, response on the client side); nil when there is none. The slices alias live buffers.
func (p *Parser) VerifPendingBody() [][]byte {
	var br *BodyReader
	switch pr := p.Processor.(type) {
	case *ServerProcessor:
		if pr.request != nil && pr.request.Body != nil {
			br, _ = pr.request.Body.(*BodyReader)
		}
	case *ClientProcessor:
		if pr.response != nil && pr.response.Body != nil {
			br, _ = pr.response.Body.(*BodyReader)
		}
	}
	if br == nil {
		return nil
	}
	return br.RawBodyBuffers()
}

// VerifCachedHandle returns the handle of the parser's cache buffer (nil when there is none).
func (p *Parser) VerifCachedHandle() *[]byte { return p.bytesCached }

//go:build verif

// Hook file added to package nbhttp by the overlay (never part of /repo). It adds code only.
package nbhttp

import (
	"net"
	"net/url"
)

type verifProxyDialer func(network, addr string) (net.Conn, error)

func (f verifProxyDialer) Dial(network, addr string) (net.Conn, error) { return f(network, addr) }

// VerifRegisterProxyDialer registers a proxy scheme (through the package's own, unexported
// proxyRegisterDialerType, which init uses for "http") whose dialer is the given function. A
// harness that sets websocket.Dialer.Proxy / ClientConn.Proxy to a URL of that scheme thereby
// supplies the connection the client runs on (a *nbio.Conn on the simulated kernel) instead of
// net.Dial: websocket.Dialer builds its ClientConn itself and offers no Dial field. Everything
// after the dial - ClientConn.Do, the client parser, the 101 handling in Dialer.DialContext - is
// the real code.
func VerifRegisterProxyDialer(scheme string, dial func(network, addr string) (net.Conn, error)) {
	proxyRegisterDialerType(scheme, func(*url.URL, proxyDialer) (proxyDialer, error) {
		return verifProxyDialer(dial), nil
	})
}

//go:build verif

// Hook file added to package nbhttp by the overlay (never part of /repo): read-only accessors
// to the HTTP parser's private carry-over buffer and state, used by the C06/C07/C08 checks.
package nbhttp

// VerifC08CachedLen is the number of bytes the parser retains between two Parse calls
// (len(*bytesCached), 0 when there is no carry-over buffer).
func (p *Parser) VerifC08CachedLen() int {
	if p.bytesCached == nil {
		return 0
	}
	return len(*p.bytesCached)
}

// VerifC08State is the parser's state enum (state.go).
func (p *Parser) VerifC08State() int { return int(p.state) }

//go:build verif

// Hook file added to package nbhttp by the overlay (never part of /repo): read-only accessors
// used by verif/blkkit (real-socket history enumeration of the blocking I/O modes).
package nbhttp

import "github.com/lesismal/nbio/lmux"

// VerifListenerMux returns the listener mux of an IOModMixed engine (nil otherwise).
func (e *Engine) VerifListenerMux() *lmux.ListenerMux { return e.listenerMux }

// VerifOnline is Online() read under the engine's mutex.
func (e *Engine) VerifOnline() int {
	e.mux.Lock()
	defer e.mux.Unlock()
	return len(e.conns)
}

//go:build verif

// Hook file added to package websocket by the overlay (never part of /repo). Used by the
// sequential WebSocket checks C12, C13, C15 and the WebSocket part of C11. It only adds a
// constructor (the fields it sets are exactly the ones Upgrader.Upgrade / Dialer.Dial set after
// newConn) and a read-only state accessor.
package websocket

import (
	"net"

	"github.com/lesismal/nbio/nbhttp"
)

// VerifSeqConnOpt are the post-construction settings of Upgrader.Upgrade that have no public
// setter.
type VerifSeqConnOpt struct {
	Client         bool
	RemoteCompress bool // what the handshake negotiated (enables write compression)
	ReleasePayload bool // Upgrade: wsc.releasePayload = u.ReleasePayload || Engine.ReleaseWebsocketPayload
	BlockingMod    bool // Upgrade scenarios 2.1.2 / 3.2 / 4 (callbacks through Engine.SyncCall)
	// Serving, when set, is the engine that serves the connection: Upgrade scenarios 1 / 2.2 and
	// Dialer.DialContext create the Conn from the Upgrader (whose Engine may be another one, e.g.
	// DefaultEngine after NewUpgrader()) and only then set wsc.Engine = parser.Engine.
	Serving *nbhttp.Engine
}

// VerifSeqConn builds a Conn the way Upgrade (server) or Dial (client) does, around c.
func VerifSeqConn(u *Upgrader, c net.Conn, o VerifSeqConnOpt) *Conn {
	wsc := newConn(u, c, "", o.RemoteCompress, false, o.Client)
	if o.Serving != nil {
		wsc.Engine = o.Serving // exactly the statement of Upgrade / DialContext after the construction
	}
	wsc.isBlockingMod = o.BlockingMod
	wsc.releasePayload = o.ReleasePayload
	if !wsc.releasePayload && wsc.Engine != nil {
		wsc.releasePayload = wsc.Engine.ReleaseWebsocketPayload
	}
	return wsc
}

// VerifSeqState is a copy of the private parser state of a Conn.
type VerifSeqState struct {
	Closed             bool
	Cached             int // len of the unparsed input cache (-1: nil)
	CachedCap          int
	Message            int // len of the message under assembly (-1: nil)
	MessageCap         int
	MsgType            MessageType
	ExpectingFragments bool
	Compress           bool
	SendQueue          int
}

// VerifSeqState reads the private parser state (the caller knows the Conn is quiescent).
func (c *Conn) VerifSeqState() VerifSeqState {
	s := VerifSeqState{Closed: c.closed, Cached: -1, Message: -1, MsgType: c.msgType,
		ExpectingFragments: c.expectingFragments, Compress: c.compress, SendQueue: len(c.sendQueue)}
	if c.bytesCached != nil {
		s.Cached = len(*c.bytesCached)
		s.CachedCap = cap(*c.bytesCached)
	}
	if c.message != nil {
		s.Message = len(*c.message)
		s.MessageCap = cap(*c.message)
	}
	return s
}

// VerifSeqHandles returns the handles of the two buffers a Conn retains between Parse calls: the
// unparsed input cache and the message under assembly (nil when there is none). Read-only use by
// the C11 content oracle (the caller knows the Conn is quiescent).
func (c *Conn) VerifSeqHandles() (cached, message *[]byte) { return c.bytesCached, c.message }

//go:build verif

// Hook file for the C16 (deadlines) check: read-only access to the two deadline timers of a
// connection. The pointers are returned untyped so that this file does not depend on whether
// the package's "time" import was redirected to the virtual-time shim.
package nbio

import "unsafe"

// VerifDeadlineTimers returns the connection's read and write deadline timer objects (nil when
// the field is nil). Read-only; the caller must not call methods on them.
func (c *Conn) VerifDeadlineTimers() (r, w unsafe.Pointer) {
	return unsafe.Pointer(c.rTimer), unsafe.Pointer(c.wTimer)
}

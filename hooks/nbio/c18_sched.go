//go:build verif

// Hook file for the C18 check (Stop terminates and reclaims): read-only accessors. The file name
// ends in _sched.go because it uses the scheduler-aware WaitGroup's counter accessor, which only
// exists in the scheduled (fully instrumented) build.
package nbio

// VerifPollerFDs returns the epoll and eventfd descriptor numbers of the I/O pollers.
func (g *Engine) VerifPollerFDs() (epfds, evtfds []int) {
	for _, p := range g.pollers {
		if p != nil {
			epfds = append(epfds, p.epfd)
			evtfds = append(evtfds, p.evtfd)
		}
	}
	return
}

// VerifWgConn returns the counter of the open-connection wait group.
func (g *Engine) VerifWgConn() int { return g.wgConn.Count() }

// VerifWg returns the counter of the poller/listener wait group.
func (g *Engine) VerifWg() int { return g.WaitGroup.Count() }

// VerifPollerOf returns the index of the poller a connection is bound to (-1: none).
func (c *Conn) VerifPollerOf() int {
	if c.p == nil {
		return -1
	}
	return c.p.index
}

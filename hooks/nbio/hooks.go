//go:build verif

// Hook file added to package nbio by the overlay (never part of /repo): constructors and
// read-only accessors that the verification harnesses need. It adds code only.
package nbio

import "net"

// VerifNewConn builds a *Conn around an already connected non-blocking descriptor, exactly as
// dupStdConn would for a net.Conn of the corresponding type.
func VerifNewConn(fd int, typ ConnType, laddr, raddr net.Addr) *Conn {
	c := &Conn{fd: fd, typ: typ, lAddr: laddr, rAddr: raddr}
	switch typ {
	case ConnTypeUDPServer:
		c.connUDP = &udpConn{parent: c, conns: map[udpAddrKey]*Conn{}}
	case ConnTypeUDPClientFromDial:
		c.connUDP = &udpConn{parent: c}
	}
	return c
}

// VerifBareEngine prepares an engine that is not started (no pollers) for harnesses that only
// need the connection-level job queue: it allocates the descriptor table.
func VerifBareEngine(g *Engine, tableSize int) {
	g.connsUnix = make([]*Conn, tableSize)
}

// VerifBareConn builds a connection bound to a poller stub of an engine that was prepared with
// VerifBareEngine.
func VerifBareConn(g *Engine, fd int, typ ConnType) *Conn {
	c := &Conn{fd: fd, typ: typ, p: &poller{g: g}}
	g.connsUnix[fd] = c
	return c
}

// ConnSnapshot is a copy of the private state the oracles look at.
type ConnSnapshot struct {
	FD        int
	Closed    bool
	IsWAdded  bool
	Left      int
	Queue     []int // unsent bytes per queued buffer; -1 for a queued file range
	QueueLen  int
	HasRTimer bool
	HasWTimer bool
	JobLen    int
	CloseErr  error
}

// VerifSnapshot copies the private state (the caller must know the connection is quiescent or
// hold no expectations about atomicity).
func (c *Conn) VerifSnapshot() ConnSnapshot {
	s := ConnSnapshot{FD: c.fd, Closed: c.closed, IsWAdded: c.isWAdded, Left: c.left, QueueLen: len(c.writeList),
		HasRTimer: c.rTimer != nil, HasWTimer: c.wTimer != nil, JobLen: len(c.jobList), CloseErr: c.closeErr}
	for _, t := range c.writeList {
		if t == nil {
			continue
		}
		if t.buf != nil {
			s.Queue = append(s.Queue, len(*t.buf)-int(t.offset))
		} else {
			s.Queue = append(s.Queue, -1)
		}
	}
	return s
}

// VerifFD returns the descriptor number.
func (c *Conn) VerifFD() int { return c.fd }

// VerifTable returns the descriptors that are registered in the engine's table.
func (g *Engine) VerifTable() []int {
	var out []int
	for fd, c := range g.connsUnix {
		if c != nil {
			out = append(out, fd)
		}
	}
	return out
}

// VerifUDPChildren returns the number of sessions a UDP server connection holds.
func (c *Conn) VerifUDPChildren() int {
	if c.connUDP == nil {
		return 0
	}
	return len(c.connUDP.conns)
}

// VerifBindPoller assigns the poller the engine would choose for the connection, without
// registering it (used where library code sets a deadline on a connection before AddConn).
func (g *Engine) VerifBindPoller(c *Conn) {
	c.p = g.pollers[c.Hash()%len(g.pollers)]
}

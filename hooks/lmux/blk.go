//go:build verif

// Hook file added to package lmux by the overlay (never part of /repo): one read-only accessor
// used by verif/blkkit (real-socket history enumeration of IOModMixed). It adds code only.
package lmux

import "sync/atomic"

// VerifOnlineA returns the number of connections the mux currently counts as served by
// ChanListener A (the blocking half).
func (lm *ListenerMux) VerifOnlineA() int {
	if lm == nil {
		return 0
	}
	return int(atomic.LoadInt32(&lm.onlineA))
}

//go:build verif

package timer

// VerifPresize gives the async list a large capacity, as it has after a burst of more than
// 1024 queued functions, so that the drainer's shrink branch (cap > 1024) is reachable with a
// handful of functions (exploring from a non-initial state).
func (t *Timer) VerifPresize(n int) {
	t.asyncMux.Lock()
	t.asyncList = make([]func(), 0, n)
	t.asyncMux.Unlock()
}
